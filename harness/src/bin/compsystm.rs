//! compsystm — differential correspondence of the token-merge SYSTEM composite `LP.SysTM`
//! (lean/LaunchpadModel/Model/TokenMergeSystem.lean, driver `drv_compsystm`) against the REAL token-merge-factory +
//! token-merge-minter + the minter's own sg721 collection + SOURCE sg721 collections of every kind (base, updatable,
//! metadata-onchain, nt) under cw-multi-test. Protocol: Driver/CompSysTm.lean (header comment), docs/COMPOSITE_SYSTEM_TM.md.
//! Every answer carries the complete observable state (`T … F … M … <target collection> S <source collections> B …`), also on
//! `err`; every collection contract is printed as `compcoll` prints it. No monitors: all output is primary.
//! Started as a copy of comptm.rs (generators, tours and coverage floor of the family are kept).
//!
//! Addresses: accounts `acct{n:05}` = n; `contract{k}` = 1000+k (factory 1000, the minter and its collection as instantiated);
//! SOURCE collections are registered under the protocol numbers 2001, 2002, … (table `S::src` / `S::src_rev`, both ways) whatever
//! `contract{k}` cw-multi-test gave them. A source collection is an sg721 contract instantiated BY the factory address
//! (sg721-base only wants its instantiator to be a contract) with `minter` = the harness account `SRCMINT`, who issues tokens.
use lp_harness::minters::*;
use lp_harness::world::{denom, denom_id};
use lp_harness::*;
use serde_json::{json, Value};
use std::collections::BTreeMap;
use std::sync::OnceLock;
use cosmwasm_std::Order;
use cw_storage_plus::Item;

const ADMIN: u64 = 10;
const BUYERS: [u64; 4] = [20, 21, 22, 23];
const STRANGER: u64 = 30;
/// never funded
const POOR: u64 = 31;
/// the harness account that is the `minter` (cw_ownable owner) of every source collection
const SRCMINT: u64 = 91;
const ACCTS: [u64; 10] = [1, 2, 3, 4, 10, 20, 21, 22, 23, 30];
/// observed source-contract numbers: three that get deployed, an EOA (listed in `mint_tokens` by some cases), one never deployed
const SRCS: [u64; 5] = [2001, 2002, 2003, 23, 2009];
const IDS: u64 = 8;
const SEC: u64 = 1_000_000_000;

// ------------------------------------------------------------------------------------------------ names (cached)

fn sg1() -> &'static (String, String, String) {
    static C: OnceLock<(String, String, String)> = OnceLock::new();
    C.get_or_init(lp_harness::world::sg1_addrs)
}
fn ad0(id: u64) -> String {
    match id {
        1 => sg1().0.clone(),
        2 => sg1().1.clone(),
        3 => sg1().2.clone(),
        4 => "fairburn_pool".to_string(),
        n if n >= 1000 => format!("contract{}", n - 1000),
        n => format!("acct{:05}", n),
    }
}
fn aid0(s: &str) -> u64 {
    let (f, l, q) = sg1();
    if s == f {
        return 1;
    }
    if s == l {
        return 2;
    }
    if s == q {
        return 3;
    }
    if s == "fairburn_pool" {
        return 4;
    }
    if let Some(k) = s.strip_prefix("contract") {
        if let Ok(k) = k.parse::<u64>() {
            return 1000 + k;
        }
    }
    if let Some(k) = s.strip_prefix("acct") {
        if let Ok(k) = k.parse::<u64>() {
            return k;
        }
    }
    900_000_000
}

// ------------------------------------------------------------------------------------------------ the system under test

fn nanos(v: &Value) -> Option<u64> {
    v.as_str().and_then(|s| s.parse().ok())
}
fn coin_of(v: &Value) -> (u64, u128) {
    (denom_id(v["denom"].as_str().unwrap_or("?")), v["amount"].as_str().and_then(|x| x.parse().ok()).unwrap_or(0))
}
fn rc(c: (u64, u128)) -> String {
    format!("{}:{}", c.0, c.1)
}
fn funds_of(line: &str) -> Vec<(u64, u128)> {
    kv_pairs(line, "funds").unwrap_or_default().into_iter().map(|(d, a)| (d as u64, a)).collect()
}
fn coin_kv(line: &str, key: &str) -> Option<(u64, u128)> {
    let v = kv_pairs(line, key)?;
    if v.len() == 1 {
        Some((v[0].0 as u64, v[0].1))
    } else {
        None
    }
}
fn b64(v: &Value) -> Value {
    serde_json::to_value(cosmwasm_std::to_json_binary(v).unwrap()).unwrap()
}
/// the raw `MINTABLE_TOKEN_POSITIONS` map (`Map<u32,u32>` under namespace `mt`) as (position, token id), ascending
fn mt_of(dump: &[(Vec<u8>, Vec<u8>)]) -> Vec<(u64, u64)> {
    let mut v = vec![];
    for (k, val) in dump {
        if k.len() == 8 && &k[..4] == b"\x00\x02mt" {
            let p = u32::from_be_bytes([k[4], k[5], k[6], k[7]]) as u64;
            let id: u64 = String::from_utf8_lossy(val).trim().parse().unwrap_or(u64::MAX);
            v.push((p, id));
        }
    }
    v.sort();
    v
}
fn instantiated(res: &cw_multi_test::AppResponse) -> Vec<String> {
    res.events
        .iter()
        .filter(|e| e.ty == "instantiate")
        .filter_map(|e| e.attributes.iter().find(|at| at.key == "_contract_address" || at.key == "_contract_addr").map(|at| at.value.clone()))
        .collect()
}


// ------------------------------------------------------------------------------------------------ collection observation (as compcoll.rs)

const BASE_URI: &str = "ipfs://bafybeigi3bwpvyvsmnbj46ra4hyffcxdeaj6ntfk5jpic5mx27x6ih2qvq/images";
const KINDS: [&str; 4] = ["base", "updatable", "nt", "onchain"];

fn uri_str(id: u64) -> String {
    format!("ipfs://meta/{id}.json")
}
/// `ipfs://meta/<n>.json` ↦ n; `<base_token_uri>/<id>` (what the minter writes) ↦ 1000000 + id
fn uri_back(s: &str) -> u64 {
    if let Some(n) = s.strip_prefix("ipfs://meta/").and_then(|r| r.strip_suffix(".json")).and_then(|n| n.parse::<u64>().ok()) {
        return n;
    }
    if let Some(n) = s.strip_prefix(BASE_URI).and_then(|r| r.strip_prefix('/')).and_then(|n| n.parse::<u64>().ok()) {
        return 1_000_000 + n;
    }
    999_999
}
fn url_back(s: &str) -> u64 {
    match s {
        "https://example.com/image.png" => 0,
        "https://example.com/external.html" => 1,
        _ => 999,
    }
}
fn exp_json(e: &str) -> Value {
    match e {
        "-" => Value::Null,
        "n" => json!({"never": {}}),
        x if x.starts_with('h') => json!({"at_height": x[1..].parse::<u64>().unwrap_or(0)}),
        x if x.starts_with('t') => json!({"at_time": x[1..].to_string()}),
        _ => Value::Null,
    }
}
fn exp_back(e: &cw_utils::Expiration) -> String {
    match e {
        cw_utils::Expiration::Never {} => "n".into(),
        cw_utils::Expiration::AtHeight(h) => format!("h{h}"),
        cw_utils::Expiration::AtTime(t) => format!("t{}", t.nanos()),
    }
}
fn exp_of_json(v: &Value) -> String {
    serde_json::from_value::<cw_utils::Expiration>(v.clone()).map(|e| exp_back(&e)).unwrap_or("?".into())
}
fn kind_of_name(n: &str) -> String {
    match n {
        "crates.io:sg721-base" | "sg721-base" => "base",
        "crates.io:sg721-nt" => "nt",
        "crates.io:sg721-updatable" | "sg721-updatable" => "updatable",
        "crates.io:sg721-metadata-onchain" => "onchain",
        x => x,
    }
    .to_string()
}
fn dash(v: Vec<String>, sep: &str) -> String {
    if v.is_empty() {
        "-".to_string()
    } else {
        v.join(sep)
    }
}
fn share_str(atomics: u128) -> String {
    cosmwasm_std::Decimal::new(cosmwasm_std::Uint128::new(atomics)).to_string()
}

/// what the generators want to know about one collection contract (never used by the comparison)
#[derive(Clone, Debug, Default)]
struct CollLast {
    kind: String,
    /// (id, owner)
    toks: Vec<(u64, u64)>,
    trading: Option<u64>,
    creator: u64,
    owner: Option<u64>,
    pending: Option<u64>,
}

#[derive(Clone, Debug)]
struct MinterRec {
    addr: String,
    coll: String,
    /// index into the collection code table
    ck: usize,
}

/// parsed copy of the last observation (used by the generators and for class labels; never by the comparison)
#[derive(Clone, Debug, Default)]
struct Last {
    now: u64,
    f_code: u64,
    f_allowed: Vec<u64>,
    f_frozen: bool,
    cfee: (u64, u128),
    offset: u64,
    maxtok: u64,
    maxper: u64,
    airp: (u64, u128),
    airbps: u64,
    shuf: (u64, u128),
    exists: bool,
    ck: usize,
    maddr: u64,
    caddr: u64,
    admin: u64,
    ntok: u64,
    limit: u64,
    start: u64,
    mtok: Vec<(u64, u64)>,
    left: u64,
    pos: Vec<(u64, u64)>,
    ma: Vec<(u64, u64)>,
    dep: Vec<(u64, u64, u64)>,
    toks: Vec<(u64, u64)>,
    trading: Option<u64>,
    owner: Option<u64>,
    pending: Option<u64>,
    creator: u64,
    /// source contracts that exist
    deployed: Vec<u64>,
    /// source collection -> (token id, owner)
    src_toks: BTreeMap<u64, Vec<(u64, u64)>>,
    /// source collection -> kind
    src_kind: BTreeMap<u64, String>,
    height: u64,
}
impl Last {
    fn ma_of(&self, a: u64) -> u64 {
        self.ma.iter().find(|e| e.0 == a).map(|e| e.1).unwrap_or(0)
    }
    fn dep_of(&self, a: u64, c: u64) -> u64 {
        self.dep.iter().find(|e| e.0 == a && e.1 == c).map(|e| e.2).unwrap_or(0)
    }
    fn req_of(&self, c: u64) -> Option<u64> {
        self.mtok.iter().find(|e| e.0 == c).map(|e| e.1)
    }
    fn src_owner(&self, c: u64, id: u64) -> Option<u64> {
        self.src_toks.get(&c).and_then(|v| v.iter().find(|e| e.0 == id).map(|e| e.1))
    }
    /// would one more token of `c` credited to `r` satisfy every entry of the requirement list
    fn completes(&self, r: u64, c: u64) -> bool {
        self.mtok.iter().all(|(x, n)| self.dep_of(r, *x) + (*x == c) as u64 >= *n)
    }
    fn kind_of(&self, a: u64) -> &'static str {
        if a == 1000 {
            "factory"
        } else if self.exists && a == self.maddr {
            "minter"
        } else if self.exists && a == self.caddr {
            "coll"
        } else if self.deployed.contains(&a) {
            "src"
        } else if a < 1000 {
            "eoa"
        } else {
            "none"
        }
    }
}

struct S {
    w: World,
    accts: Vec<u64>,
    probe: Vec<u64>,
    mcodes: Vec<u64>,
    ccodes: Vec<u64>,
    srcs: Vec<u64>,
    ids: u64,
    factory: String,
    minter: Option<MinterRec>,
    n_contracts: u64,
    /// protocol number of a source collection -> real address, and back
    src: BTreeMap<u64, String>,
    src_rev: BTreeMap<String, u64>,
    /// kind a source collection was instantiated with
    src_kind: BTreeMap<u64, String>,
    last: Last,
    trace: bool,
}

impl S {
    fn new() -> S {
        S {
            w: World::new(GENESIS),
            accts: vec![],
            probe: vec![],
            mcodes: vec![],
            ccodes: vec![],
            srcs: vec![],
            ids: 0,
            factory: String::new(),
            minter: None,
            n_contracts: 0,
            src: BTreeMap::new(),
            src_rev: BTreeMap::new(),
            src_kind: BTreeMap::new(),
            last: Last::default(),
            trace: std::env::var("COMPSYSTM_TRACE").is_ok(),
        }
    }
    fn ad(&self, id: u64) -> String {
        self.src.get(&id).cloned().unwrap_or_else(|| ad0(id))
    }
    fn aid(&self, s: &str) -> u64 {
        self.src_rev.get(s).copied().unwrap_or_else(|| aid0(s))
    }
    /// one collection contract exactly as `drv_compcoll` prints it (`this` = its protocol number)
    fn coll_block(&self, coll: &str, this: u64, cl: &mut CollLast) -> String {
        let w = &self.w;
        let ca = cosmwasm_std::Addr::unchecked(coll);
        let qx = |m: Value| -> Value { w.query(coll, &m).unwrap_or(Value::Null) };
        let dump = w.dump(coll);
        let cw2: Value = dump.iter().find(|(k, _)| k.as_slice() == b"contract_info").and_then(|(_, v)| serde_json::from_slice(v).ok()).unwrap_or(Value::Null);
        let kind = kind_of_name(cw2["contract"].as_str().unwrap_or("?"));
        let ver = cw2["version"].as_str().unwrap_or("?").to_string();
        let mut owners: std::collections::BTreeSet<String> = Default::default();
        let mut ops: Vec<(u64, u64, String, bool)> = vec![];
        let (owner, pending, pexp, fz, rua, leg);
        {
            let st = w.app.contract_storage(&ca);
            let own = cw_ownable::get_ownership(&*st).expect("cw_ownable ownership");
            owner = own.owner.as_ref().map(|a| self.aid(a.as_str()));
            pending = own.pending_owner.as_ref().map(|a| self.aid(a.as_str()));
            pexp = own.pending_expiry.as_ref().map(exp_back);
            let c = sg721_base::Sg721Contract::<cw721_base::Extension>::default();
            fz = c.frozen_collection_info.load(&*st).expect("frozen_collection_info");
            rua = c.royalty_updated_at.load(&*st).expect("royalty_updated_at").nanos();
            for r in c.parent.operators.range(&*st, None, None, Order::Ascending) {
                let ((ow, op), e) = r.expect("operators entry");
                owners.insert(ow.to_string());
                ops.push((self.aid(ow.as_str()), self.aid(op.as_str()), exp_back(&e), false));
            }
            leg = Item::<cosmwasm_std::Addr>::new("minter").may_load(&*st).ok().flatten().map(|a| self.aid(a.as_str()));
        }
        for ow in owners {
            let r = qx(json!({"all_operators": {"owner": ow, "include_expired": false, "limit": 100}}));
            for x in r["operators"].as_array().cloned().unwrap_or_default() {
                let (g, p) = (self.aid(&ow), self.aid(x["spender"].as_str().unwrap_or("?")));
                for e in ops.iter_mut().filter(|e| e.0 == g && e.1 == p) {
                    e.3 = true;
                }
            }
        }
        ops.sort();
        let (mut fm, mut ue) = (false, false);
        if kind == "updatable" {
            fm = qx(json!({"freeze_token_metadata": {}}))["frozen"].as_bool().unwrap_or(false);
            ue = qx(json!({"enable_updatable": {}}))["enabled"].as_bool().unwrap_or(false);
        }
        let ci = qx(json!({"collection_info": {}}));
        let creator = ci["creator"].as_str().map(|s| self.aid(s)).unwrap_or(u64::MAX);
        let desc = ci["description"].as_str().unwrap_or("");
        let desc_id = match desc {
            "a collection" | "a source collection" => 0,
            _ => 999_999,
        };
        let img = url_back(ci["image"].as_str().unwrap_or("?"));
        let ext = ci["external_link"].as_str().map(url_back);
        let ec = ci["explicit_content"].as_bool();
        let stt: Option<u64> = ci["start_trading_time"].as_str().and_then(|s| s.parse().ok());
        let roy = if ci["royalty_info"].is_null() {
            None
        } else {
            let sh: cosmwasm_std::Decimal = ci["royalty_info"]["share"].as_str().unwrap_or("0").parse().unwrap_or_default();
            Some((self.aid(ci["royalty_info"]["payment_address"].as_str().unwrap_or("?")), sh.atomics().u128()))
        };
        let cinfo = qx(json!({"contract_info": {}}));
        let nm_ok = |n: &str, s: &str| (n == "Collection" && s == "COL") || (n == format!("Source{this}") && s == "SRC");
        let nm = if nm_ok(cinfo["name"].as_str().unwrap_or("?"), cinfo["symbol"].as_str().unwrap_or("?")) { (0, 0) } else { (999_999, 999_999) };
        let n = qx(json!({"num_tokens": {}}))["count"].as_u64().unwrap_or(u64::MAX);
        let mq = qx(json!({"minter": {}}))["minter"].as_str().map(|s| self.aid(s));
        assert_eq!(mq, owner, "Minter query differs from the ownership item");
        let mut ids: Vec<String> = vec![];
        let mut after: Option<String> = None;
        loop {
            let r = qx(json!({"all_tokens": {"start_after": after, "limit": 100}}));
            let page: Vec<String> = r["tokens"].as_array().map(|a| a.iter().filter_map(|x| x.as_str().map(String::from)).collect()).unwrap_or_default();
            if page.is_empty() {
                break;
            }
            after = page.last().cloned();
            ids.extend(page);
        }
        let approvals_of = |v: &Value| -> Vec<(u64, String)> {
            let mut a: Vec<(u64, String)> = v.as_array().map(|x| x.iter().map(|ap| (self.aid(ap["spender"].as_str().unwrap_or("?")), exp_of_json(&ap["expires"]))).collect()).unwrap_or_default();
            a.sort();
            a
        };
        // (id, owner, uri, ext, approvals, live)
        let mut toks: Vec<(u64, u64, Option<u64>, u64, Vec<(u64, String)>, Vec<u64>)> = vec![];
        for tid in ids {
            let ow = qx(json!({"owner_of": {"token_id": tid, "include_expired": true}}));
            let lv = qx(json!({"owner_of": {"token_id": tid}}));
            let ni = qx(json!({"nft_info": {"token_id": tid}}));
            let ext = ni["extension"]["name"].as_str().and_then(|s| s.strip_prefix('n')).and_then(|n| n.parse().ok()).unwrap_or(0);
            toks.push((
                tid.parse().unwrap_or(999_999),
                ow["owner"].as_str().map(|s| self.aid(s)).unwrap_or(u64::MAX),
                ni["token_uri"].as_str().map(uri_back),
                ext,
                approvals_of(&ow["approvals"]),
                approvals_of(&lv["approvals"]).into_iter().map(|x| x.0).collect(),
            ));
        }
        toks.sort_by_key(|t| t.0);
        cl.kind = kind.clone();
        cl.toks = toks.iter().map(|t| (t.0, t.1)).collect();
        cl.trading = stt;
        cl.creator = creator;
        cl.owner = owner;
        cl.pending = pending;
        let rtoks: Vec<String> = toks
            .iter()
            .map(|t| {
                format!(
                    "{}/{}/{}/{}/{}/{}",
                    t.0,
                    t.1,
                    fmt_opt(&t.2),
                    t.3,
                    dash(t.4.iter().map(|(s, e)| format!("{s}@{e}")).collect(), "+"),
                    dash(t.5.iter().map(|s| s.to_string()).collect(), "+")
                )
            })
            .collect();
        let rops: Vec<String> = ops.iter().map(|(o, p, e, l)| format!("{o}>{p}@{e}/{}", *l as u8)).collect();
        let ob = |b: &Option<bool>| match b {
            None => "-",
            Some(true) => "1",
            Some(false) => "0",
        };
        format!(
            "C={} k={} v={} nm={}/{} own={}/{}/{} leg={} fz={} rua={} cr={} desc={}:{} img={} ext={} ec={} stt={} roy={} n={} toks={} ops={} fm={} ue={}",
            this,
            kind,
            ver,
            nm.0,
            nm.1,
            fmt_opt(&owner),
            fmt_opt(&pending),
            pexp.unwrap_or("-".into()),
            fmt_opt(&leg),
            fz as u8,
            rua,
            creator,
            desc_id,
            desc.len(),
            img,
            fmt_opt(&ext),
            ob(&ec),
            fmt_opt(&stt),
            roy.map(|(p, s)| format!("{p}:{s}")).unwrap_or("-".into()),
            n,
            dash(rtoks, ";"),
            dash(rops, ","),
            fm as u8,
            ue as u8
        )
    }

    // ---------------------------------------------------------------- observations
    fn obs(&mut self) -> String {
        let mut l = Last { now: self.w.time(), ..Default::default() };
        let w = &self.w;
        // ---- F
        let p = w.query(&self.factory, &json!({"params":{}})).map(|v| v["params"].clone()).unwrap_or(Value::Null);
        l.f_code = p["code_id"].as_u64().unwrap_or(u64::MAX);
        l.f_allowed = p["allowed_sg721_code_ids"].as_array().map(|a| a.iter().filter_map(|x| x.as_u64()).collect()).unwrap_or_default();
        l.f_frozen = p["frozen"].as_bool().unwrap_or(false);
        l.cfee = coin_of(&p["creation_fee"]);
        l.offset = p["max_trading_offset_secs"].as_u64().unwrap_or(u64::MAX);
        l.maxtok = p["max_token_limit"].as_u64().unwrap_or(u64::MAX);
        l.maxper = p["max_per_address_limit"].as_u64().unwrap_or(u64::MAX);
        l.airp = coin_of(&p["airdrop_mint_price"]);
        l.airbps = p["airdrop_mint_fee_bps"].as_u64().unwrap_or(u64::MAX);
        l.shuf = coin_of(&p["shuffle_fee"]);
        let probe: String = self
            .probe
            .iter()
            .map(|c| match w.query(&self.factory, &json!({"allowed_collection_code_id": c})) {
                Ok(v) => {
                    if v["allowed"].as_bool() == Some(true) {
                        "1"
                    } else {
                        "0"
                    }
                }
                Err(_) => "?",
            })
            .collect();
        let f = format!(
            "F code={} allowed={} frozen={} cfee={} offset={} maxtok={} maxper={} airp={} airbps={} shuf={} probe={}",
            l.f_code, fmt_list(&l.f_allowed), l.f_frozen as u8, rc(l.cfee), l.offset, l.maxtok, l.maxper, rc(l.airp), l.airbps, rc(l.shuf), probe
        );
        // ---- M, C
        let mut extra: Vec<u64> = vec![];
        let (m, c) = match &self.minter {
            None => ("M -".to_string(), "C=-".to_string()),
            Some(mi) => {
                l.exists = true;
                l.ck = mi.ck;
                l.maddr = self.aid(&mi.addr);
                let cfg = w.query(&mi.addr, &json!({"config":{}})).unwrap_or(Value::Null);
                l.admin = cfg["admin"].as_str().map(|s| self.aid(s)).unwrap_or(u64::MAX);
                l.ntok = cfg["num_tokens"].as_u64().unwrap_or(u64::MAX);
                l.limit = cfg["per_address_limit"].as_u64().unwrap_or(u64::MAX);
                l.start = nanos(&cfg["start_time"]).unwrap_or(u64::MAX);
                let fac = cfg["factory"].as_str().map(|s| self.aid(s)).unwrap_or(u64::MAX);
                let ccode = cfg["sg721_code_id"].as_u64().unwrap_or(u64::MAX);
                let sg721 = cfg["sg721_address"].as_str().map(|s| self.aid(s)).unwrap_or(u64::MAX);
                l.caddr = sg721;
                l.mtok = cfg["mint_tokens"]
                    .as_array()
                    .map(|a| a.iter().map(|e| (self.aid(e["collection"].as_str().unwrap_or("?")), e["amount"].as_u64().unwrap_or(u64::MAX))).collect())
                    .unwrap_or_default();
                l.left = w.query(&mi.addr, &json!({"mintable_num_tokens":{}})).ok().and_then(|v| v["count"].as_u64()).unwrap_or(u64::MAX);
                let st = match w.query(&mi.addr, &json!({"status":{}})) {
                    Ok(v) => {
                        let s = &v["status"];
                        format!("{}{}{}", s["is_verified"].as_bool().unwrap_or(false) as u8, s["is_blocked"].as_bool().unwrap_or(false) as u8, s["is_explicit"].as_bool().unwrap_or(false) as u8)
                    }
                    Err(_) => "???".into(),
                };
                l.pos = mt_of(&w.dump(&mi.addr));
                for a in &self.accts {
                    let n = w.query(&mi.addr, &json!({"mint_count":{"address": self.ad(*a)}})).ok().and_then(|v| v["count"].as_u64()).unwrap_or(777_777);
                    if n != 0 {
                        l.ma.push((*a, n));
                    }
                }
                for a in &self.accts {
                    let got: Vec<(u64, u64)> = match w.query(&mi.addr, &json!({"deposited_tokens":{"address": self.ad(*a)}})) {
                        Ok(v) => v["mint_tokens"]
                            .as_array()
                            .map(|x| x.iter().map(|e| (self.aid(e["collection"].as_str().unwrap_or("?")), e["amount"].as_u64().unwrap_or(u64::MAX))).collect())
                            .unwrap_or_default(),
                        Err(_) => vec![(666_666, 0)],
                    };
                    // listed collections in `srcs` order, then anything else the contract reports (never on the unchanged tree)
                    for c in &self.srcs {
                        for (x, n) in &got {
                            if x == c && *n != 0 {
                                l.dep.push((*a, *c, *n));
                            }
                        }
                    }
                    for (x, n) in &got {
                        if !self.srcs.contains(x) {
                            l.dep.push((*a, *x, *n));
                        }
                    }
                }
                let dep = if l.dep.is_empty() { "-".to_string() } else { l.dep.iter().map(|(a, c, n)| format!("{a}:{c}:{n}")).collect::<Vec<_>>().join(",") };
                let m = format!(
                    "M addr={} admin={} ntok={} limit={} start={} fac={} ccode={} sg721={} mtok={} left={} st={} pos={} ma={} dep={}",
                    l.maddr, l.admin, l.ntok, l.limit, l.start, fac, ccode, sg721, fmt_pairs(&l.mtok), l.left, st, fmt_pairs(&l.pos), fmt_pairs(&l.ma), dep
                );
                // ---- the target collection contract
                let mut cl = CollLast::default();
                let c = self.coll_block(&mi.coll, sg721, &mut cl);
                l.trading = cl.trading;
                l.creator = cl.creator;
                l.owner = cl.owner;
                l.pending = cl.pending;
                l.toks = cl.toks;
                extra = vec![l.maddr, sg721];
                (m, c)
            }
        };
        // ---- S: every observed source address
        let mut parts: Vec<String> = vec![];
        for c in &self.srcs {
            if self.src.contains_key(c) {
                let a = self.ad(*c);
                let mut cl = CollLast::default();
                parts.push(self.coll_block(&a, *c, &mut cl));
                l.deployed.push(*c);
                l.src_kind.insert(*c, cl.kind.clone());
                l.src_toks.insert(*c, cl.toks);
                extra.push(*c);
            } else {
                parts.push(format!("C={c}:-"));
                l.src_toks.insert(*c, vec![]);
            }
        }
        let s = format!("S {}", if parts.is_empty() { "-".to_string() } else { parts.join(" | ") });
        // ---- B
        let bals = w.all_balances();
        let d0 = denom(0);
        let d1 = denom(1);
        let mut sup = [0u128; 2];
        let mut by: BTreeMap<&str, [u128; 2]> = BTreeMap::new();
        for ((who, dn), amt) in &bals {
            let i = if *dn == d0 {
                0
            } else if *dn == d1 {
                1
            } else {
                continue;
            };
            sup[i] += *amt;
            by.entry(who.as_str()).or_insert([0, 0])[i] += *amt;
        }
        let mut who: Vec<u64> = self.accts.clone();
        who.push(self.aid(&self.factory));
        who.extend(extra);
        let b: Vec<String> = who
            .iter()
            .map(|a| {
                let x = by.get(self.ad(*a).as_str()).cloned().unwrap_or([0, 0]);
                format!("{}:{}:{}", a, x[0], x[1])
            })
            .collect();
        l.height = self.w.app.block_info().height;
        let t = format!("T {}/{}", l.height, l.now);
        self.last = l;
        format!("{t} {f} {m} {c} {s} B {} sup={}:{}", b.join(","), sup[0], sup[1])
    }

    fn dbg(&self, line: &str, r: &Result<cw_multi_test::AppResponse, String>) {
        if self.trace {
            if let Err(e) = r {
                eprintln!("TRACE {line} => {}", e.lines().last().unwrap_or("").rsplit("}: ").next().unwrap_or(""));
            }
        }
    }

    /// the inner `msg` of `SendNft` / `ReceiveNft`; `msgok=0` selects one of three corruptions (`bad=`)
    fn inner_msg(&self, rcpt: Option<u64>, msgok: bool, bad: u64) -> Value {
        if msgok {
            return b64(&json!({"deposit_token": {"recipient": rcpt.map(|r| self.ad(r))}}));
        }
        match bad {
            1 => b64(&json!({"deposit_token": {"recipient": "X!"}})),
            3 => serde_json::to_value(cosmwasm_std::Binary::from(b"this is not json".to_vec())).unwrap(),
            _ => b64(&json!({"withdraw_token": {}})),
        }
    }
    /// ` picked=<position>`: the one position that left the map during the op (nothing when no mint happened)
    fn picked(&self, minter: &str, pre: &[(u64, u64)]) -> String {
        let post = mt_of(&self.w.dump(minter));
        let gone: Vec<u64> = pre.iter().filter(|e| !post.iter().any(|q| q.0 == e.0)).map(|e| e.0).collect();
        if gone.len() == 1 {
            format!(" picked={}", gone[0])
        } else {
            String::new()
        }
    }


    fn x_witness(&self, xop: &str) -> String {
        match xop {
            "send" => " recv=0".to_string(), // nothing but the minter implements `ReceiveNft` (and `x_send` never targets it)
            "uci" => " iv=1 ev=1".to_string(),
            _ => String::new(),
        }
    }
    /// JSON of the collection message for protocol line `line`, as a client of the collection kind `kind` would encode it
    fn build_msg(&self, op: &str, line: &str, kind: &str) -> Option<Value> {
        let id = || kv_u64(line, "id").map(|x| x.to_string());
        let adr = |key: &str| kv_u64(line, key).map(|x| self.ad(x));
        Some(match op {
            "transfer" => json!({"transfer_nft": {"recipient": adr("to")?, "token_id": id()?}}),
            "send" => json!({"send_nft": {"contract": adr("to")?, "token_id": id()?, "msg": self.inner_msg(None, true, 0)}}),
            "approve" => json!({"approve": {"spender": adr("sp")?, "token_id": id()?, "expires": exp_json(kv(line, "exp")?)}}),
            "revoke" => json!({"revoke": {"spender": adr("sp")?, "token_id": id()?}}),
            "approve_all" => json!({"approve_all": {"operator": adr("op")?, "expires": exp_json(kv(line, "exp")?)}}),
            "revoke_all" => json!({"revoke_all": {"operator": adr("op")?}}),
            "mint" => {
                let ext = kv_u64(line, "ext")?;
                let extension = if kind == "onchain" {
                    if ext > 0 {
                        json!({"name": format!("n{ext}")})
                    } else {
                        json!({})
                    }
                } else {
                    Value::Null
                };
                json!({"mint": {"token_id": id()?, "owner": adr("owner")?, "token_uri": kv_opt_u64(line, "uri")?.map(uri_str), "extension": extension}})
            }
            "burn" => json!({"burn": {"token_id": id()?}}),
            "extension" => json!({"extension": {"msg": {}}}),
            "uci" => {
                // only the fields the generators use: explicit_content, royalty_info, creator (description / image / link kept)
                let roy = match kv(line, "roy")? {
                    "-" => Value::Null,
                    v => {
                        let (p, sh) = v.split_once(':')?;
                        json!({"payment_address": self.ad(p.parse().ok()?), "share": share_str(sh.parse().ok()?)})
                    }
                };
                let ec = match kv(line, "ec")? {
                    "-" => Value::Null,
                    "1" => json!(true),
                    _ => json!(false),
                };
                let ci = json!({"description": null, "image": null, "external_link": null, "explicit_content": ec, "royalty_info": roy,
                    "creator": kv_opt_u64(line, "creator")?.map(|x| self.ad(x))});
                if kind == "nt" {
                    json!({"update_collection_info": {"new_collection_info": ci}})
                } else {
                    json!({"update_collection_info": {"collection_info": ci}})
                }
            }
            "ustt" => json!({"update_start_trading_time": kv_opt_u64(line, "t")?.map(|t| t.to_string())}),
            "freeze" => {
                if kind == "base" || kind == "onchain" {
                    json!("freeze_collection_info")
                } else {
                    json!({"freeze_collection_info": {}})
                }
            }
            "own_transfer" => json!({"update_ownership": {"transfer_ownership": {"new_owner": adr("to")?, "expiry": exp_json(kv(line, "exp")?)}}}),
            "own_accept" => json!({"update_ownership": "accept_ownership"}),
            "own_renounce" => json!({"update_ownership": "renounce_ownership"}),
            "freeze_meta" => json!({"freeze_token_metadata": {}}),
            "utm" => json!({"update_token_metadata": {"token_id": id()?, "token_uri": kv_opt_u64(line, "uri")?.map(uri_str)}}),
            "enable" => json!({"enable_updatable": {}}),
            _ => return None,
        })
    }

    /// executes one family op; returns (witness suffix, ok)
    fn run_op(&mut self, op: &str, line: &str) -> Option<(String, bool)> {
        let sender = kv_u64(line, "sender").unwrap_or(0);
        let funds = funds_of(line);
        let who = self.ad(sender);
        let mi = self.minter.clone();
        Some(match op {
            "fund" => {
                let a = kv_u64(line, "a")?;
                let d = kv_u64(line, "d")?;
                let amt = kv_u128(line, "amt")?;
                let a = self.ad(a);
                self.w.fund(&a, d, amt);
                (String::new(), true)
            }
            "src_new" => {
                let n = kv_u64(line, "coll")?;
                let kind = kv(line, "kind").unwrap_or("base").to_string();
                if self.src.contains_key(&n) {
                    return Some((String::new(), false)); // the address is taken
                }
                let minter = kv_u64(line, "minter").unwrap_or(SRCMINT);
                let msg = json!({"name": format!("Source{n}"), "symbol": "SRC", "minter": ad0(minter),
                    "collection_info": {"creator": ad0(minter), "description": "a source collection", "image": "https://example.com/image.png",
                        "external_link": null, "explicit_content": false, "start_trading_time": null, "royalty_info": null}});
                let code = match kind.as_str() {
                    "base" => self.w.codes.sg721_base,
                    "updatable" => self.w.codes.sg721_updatable,
                    "nt" => self.w.codes.sg721_nt,
                    "onchain" => self.w.codes.sg721_metadata_onchain,
                    _ => return None,
                };
                let inst = match kv_u64(line, "s") {
                    Some(x) => self.ad(x),
                    None => self.factory.clone(),
                };
                match self.w.instantiate(code, &inst, &msg, &[], None) {
                    Ok(a) => {
                        self.n_contracts += 1;
                        self.src_rev.insert(a.clone(), n);
                        self.src.insert(n, a);
                        self.src_kind.insert(n, kind);
                        (String::new(), true)
                    }
                    Err(e) => {
                        if self.trace {
                            eprintln!("SRC-DEPLOY-FAILED {line}: {}", e.lines().last().unwrap_or(""));
                        }
                        (String::new(), false)
                    }
                }
            }
            "src_give" => {
                let c = kv_u64(line, "coll")?;
                let id = kv_u64(line, "id")?;
                let to = kv_u64(line, "to")?;
                if !self.src.contains_key(&c) {
                    return Some((String::new(), false)); // no such contract
                }
                let (ca, toa) = (self.ad(c), self.ad(to));
                let extension = if self.src_kind.get(&c).map(|k| k == "onchain").unwrap_or(false) { json!({}) } else { Value::Null };
                let by = self.ad(kv_u64(line, "s").unwrap_or(SRCMINT));
                let r = self.w.exec(&by, &ca, &json!({"mint": {"token_id": id.to_string(), "owner": toa, "token_uri": null, "extension": extension}}), &[]);
                self.dbg(line, &r);
                (String::new(), r.is_ok())
            }
            "src_transfer" => {
                let c = kv_u64(line, "coll")?;
                let id = kv_u64(line, "id")?;
                let to = kv_u64(line, "to")?;
                if !self.src.contains_key(&c) {
                    return Some((String::new(), false));
                }
                let (ca, toa) = (self.ad(c), self.ad(to));
                let r = self.w.exec(&who, &ca, &json!({"transfer_nft": {"recipient": toa, "token_id": id.to_string()}}), &[]);
                self.dbg(line, &r);
                (String::new(), r.is_ok())
            }
            "send" => {
                let c = kv_u64(line, "coll")?;
                let id = kv_u64(line, "id")?;
                let ct = kv_u64(line, "contract")?;
                let rcpt = kv_opt_u64(line, "rcpt")?;
                let msgok = kv_bool(line, "msgok").unwrap_or(true);
                let bad = kv_u64(line, "bad").unwrap_or(2);
                if !self.src.contains_key(&c) {
                    return Some((String::new(), false));
                }
                let pre = mi.as_ref().map(|m| mt_of(&self.w.dump(&m.addr))).unwrap_or_default();
                let msg = json!({"send_nft": {"contract": self.ad(ct), "token_id": id.to_string(), "msg": self.inner_msg(rcpt, msgok, bad)}});
                let ca = self.ad(c);
                let r = self.w.exec(&who, &ca, &msg, &[]);
                self.dbg(line, &r);
                match (r, &mi) {
                    (Ok(_), Some(m)) => (format!(" recv=0{}", self.picked(&m.addr, &pre)), true),
                    (Ok(_), None) => (" recv=0".to_string(), true),
                    (Err(_), _) => (" recv=0".to_string(), false),
                }
            }
            "receive" => {
                let Some(mi) = mi else { return Some((String::new(), false)) };
                let from = kv_u64(line, "from")?;
                let id = kv_u64(line, "id")?;
                let rcpt = kv_opt_u64(line, "rcpt")?;
                let msgok = kv_bool(line, "msgok").unwrap_or(true);
                let bad = kv_u64(line, "bad").unwrap_or(2);
                let pre = mt_of(&self.w.dump(&mi.addr));
                let msg = json!({"receive_nft": {"sender": self.ad(from), "token_id": id.to_string(), "msg": self.inner_msg(rcpt, msgok, bad)}});
                let r = self.w.exec(&who, &mi.addr, &msg, &[]);
                self.dbg(line, &r);
                match r {
                    Ok(_) => (self.picked(&mi.addr, &pre), true),
                    Err(_) => (String::new(), false),
                }
            }
            "create" => {
                let maddr = 1000 + self.n_contracts;
                let caddr = maddr + 1;
                let wit = format!(" maddr={maddr} caddr={caddr}");
                if mi.is_some() {
                    return Some((wit, false)); // the model follows one minter per case
                }
                let code = kv_u64(line, "code")?;
                let creator = kv_u64(line, "creator")?;
                let collok = kv_bool(line, "collok").unwrap_or(true);
                let uri = kv_bool(line, "uri")?;
                let mtok = kv_pairs(line, "mtok")?;
                let a = CreateArgs {
                    creator,
                    sg721_code_id: code,
                    num_tokens: Some(kv_u64(line, "ntok")? as u32),
                    per_address_limit: kv_u64(line, "limit")? as u32,
                    start_time: kv_u64(line, "start")?,
                    end_time: None,
                    mint_price: (0, 0),
                    payment_address: None,
                    whitelist: None,
                    start_trading_time: kv_opt_u64(line, "trading")?,
                    royalty: if collok { None } else { Some((creator, "2.0".to_string())) },
                    mint_tokens: mtok.iter().map(|(c, n)| (self.ad(*c as u64), *n as u32)).collect(),
                    funds: funds.clone(),
                };
                let mut msg = create_minter_json(MinterKind::TokenMerge, &a);
                if !uri {
                    msg["create_minter"]["init_msg"]["base_token_uri"] = json!("not a url");
                }
                let fac = self.factory.clone();
                let r = self.w.exec(&who, &fac, &msg, &funds);
                self.dbg(line, &r);
                match r {
                    Ok(res) => {
                        let addrs = instantiated(&res);
                        if addrs.len() != 2 || aid0(&addrs[0]) != maddr || aid0(&addrs[1]) != caddr {
                            return Some((format!("{wit} MISPREDICTED={:?}", addrs), true));
                        }
                        self.n_contracts += 2;
                        let ck = self.ccodes.iter().position(|c| *c == code).unwrap_or(99);
                        let perm: Vec<u64> = mt_of(&self.w.dump(&addrs[0])).iter().map(|p| p.1).collect();
                        self.minter = Some(MinterRec { addr: addrs[0].clone(), coll: addrs[1].clone(), ck });
                        (format!("{wit} perm={}", fmt_list(&perm)), true)
                    }
                    Err(_) => (wit, false),
                }
            }
            "inst_direct" => {
                let p = self.w.default_params(MinterKind::TokenMerge);
                let mut a = self.w.default_create(MinterKind::TokenMerge, &p);
                a.creator = sender;
                let msg = create_minter_json(MinterKind::TokenMerge, &a)["create_minter"].clone();
                let code = self.mcodes[0];
                let r = self.w.instantiate(code, &who, &msg, &[], None);
                if r.is_ok() {
                    self.n_contracts += 2;
                }
                (String::new(), r.is_ok())
            }
            "sudo_params" => {
                let c = |key: &str| -> Value {
                    match coin_kv(line, key) {
                        Some(x) => jcoin(x),
                        None => Value::Null,
                    }
                };
                let l = |key: &str| -> Value {
                    match kv_list(line, key) {
                        Some(x) => json!(x.iter().map(|y| *y as u64).collect::<Vec<u64>>()),
                        None => Value::Null,
                    }
                };
                let msg = json!({"update_params": {
                    "code_id": kv_u64(line, "code"), "add_sg721_code_ids": l("addc"), "rm_sg721_code_ids": l("rmc"),
                    "frozen": kv_bool(line, "frozen"), "creation_fee": c("cfee"), "max_trading_offset_secs": kv_u64(line, "offset"),
                    "extension": {"max_token_limit": kv_u64(line, "maxtok"), "max_per_address_limit": kv_u64(line, "maxper"),
                        "airdrop_mint_price": c("airp"), "airdrop_mint_fee_bps": kv_u64(line, "airbps"), "shuffle_fee": c("shuf")}}});
                let fac = self.factory.clone();
                let r = self.w.sudo(&fac, &msg);
                self.dbg(line, &r);
                (String::new(), r.is_ok())
            }
            "mint_to" | "mint_for" => {
                let Some(mi) = mi else { return Some((String::new(), false)) };
                let rcpt = self.ad(kv_u64(line, "rcpt")?);
                let pre = mt_of(&self.w.dump(&mi.addr));
                let msg = if op == "mint_to" { json!({"mint_to": {"recipient": rcpt}}) } else { json!({"mint_for": {"token_id": kv_u64(line, "id")?, "recipient": rcpt}}) };
                let r = self.w.exec(&who, &mi.addr, &msg, &funds);
                self.dbg(line, &r);
                match r {
                    Ok(_) => (if op == "mint_to" { self.picked(&mi.addr, &pre) } else { String::new() }, true),
                    Err(_) => (String::new(), false),
                }
            }
            "sudo_status" => {
                let Some(mi) = mi else { return Some((String::new(), false)) };
                let r = self.w.sudo(&mi.addr, &json!({"update_status": {"is_verified": kv_bool(line, "v")?, "is_blocked": kv_bool(line, "b")?, "is_explicit": kv_bool(line, "e")?}}));
                (String::new(), r.is_ok())
            }
            "purge" | "burn" | "upd_start" | "upd_trading" | "upd_limit" | "shuffle" => {
                let Some(mi) = mi else { return Some((String::new(), false)) };
                let msg = match op {
                    "purge" => json!({"purge": {}}),
                    "burn" => json!({"burn_remaining": {}}),
                    "upd_start" => json!({"update_start_time": jtime(kv_u64(line, "t")?)}),
                    "upd_trading" => json!({"update_start_trading_time": jopt_time(kv_opt_u64(line, "t")?)}),
                    "upd_limit" => json!({"update_per_address_limit": {"per_address_limit": kv_u64(line, "n")?}}),
                    _ => json!({"shuffle": {}}),
                };
                let r = self.w.exec(&who, &mi.addr, &msg, &funds);
                self.dbg(line, &r);
                if op == "shuffle" {
                    match r {
                        Ok(_) => {
                            let perm: Vec<u64> = mt_of(&self.w.dump(&mi.addr)).iter().map(|p| p.1).collect();
                            (format!(" perm={}", fmt_list(&perm)), true)
                        }
                        Err(_) => (String::new(), false),
                    }
                } else {
                    (String::new(), r.is_ok())
                }
            }
            "c_transfer" | "c_burn" | "c_trading" | "c_creator" | "c_freeze" | "c_own" => {
                let Some(mi) = mi else { return Some((String::new(), false)) };
                let msg = match op {
                    "c_transfer" => json!({"transfer_nft": {"recipient": self.ad(kv_u64(line, "to")?), "token_id": kv_u64(line, "id")?.to_string()}}),
                    "c_burn" => json!({"burn": {"token_id": kv_u64(line, "id")?.to_string()}}),
                    "c_trading" => json!({"update_start_trading_time": jopt_time(kv_opt_u64(line, "t")?)}),
                    "c_creator" => {
                        let info = json!({"creator": self.ad(kv_u64(line, "new")?)});
                        if mi.ck == 2 {
                            json!({"update_collection_info": {"new_collection_info": info}})
                        } else {
                            json!({"update_collection_info": {"collection_info": info}})
                        }
                    }
                    "c_freeze" => {
                        if mi.ck == 0 || mi.ck == 3 {
                            json!("freeze_collection_info")
                        } else {
                            json!({"freeze_collection_info": {}})
                        }
                    }
                    _ => match kv(line, "act")? {
                        "transfer" => json!({"update_ownership": {"transfer_ownership": {"new_owner": self.ad(kv_u64(line, "new")?), "expiry": null}}}),
                        "accept" => json!({"update_ownership": "accept_ownership"}),
                        "renounce" => json!({"update_ownership": "renounce_ownership"}),
                        _ => return None,
                    },
                };
                let r = self.w.exec(&who, &mi.coll, &msg, &[]);
                self.dbg(line, &r);
                (String::new(), r.is_ok())
            }
            "blk" => {
                let h = kv_u64(line, "h")?;
                let t = kv_u64(line, "t")?;
                if t < self.w.time() {
                    return Some((String::new(), false));
                }
                let mut b = self.w.app.block_info();
                b.height = h;
                b.time = cosmwasm_std::Timestamp::from_nanos(t);
                self.w.app.set_block(b);
                (String::new(), true)
            }
            x if x.starts_with("x_") => {
                let c = kv_u64(line, "coll")?;
                let s_ = kv_u64(line, "s")?;
                let xop = &x[2..];
                // the kind the addressed collection has (decides the JSON shape a client of that contract uses)
                let (ca, kind): (String, String) = if let Some(a) = self.src.get(&c) {
                    (a.clone(), self.src_kind.get(&c).cloned().unwrap_or("base".into()))
                } else if let Some(m) = mi.as_ref().filter(|m| self.aid(&m.coll) == c) {
                    (m.coll.clone(), KINDS.get(m.ck).copied().unwrap_or("base").to_string())
                } else {
                    return Some((self.x_witness(xop), false)); // no such contract
                };
                let msg = self.build_msg(xop, line, &kind)?;
                let r = self.w.exec(&self.ad(s_), &ca, &msg, &funds);
                self.dbg(line, &r);
                (self.x_witness(xop), r.is_ok())
            }
            _ => return None,
        })
    }
}

impl Sut for S {
    fn begin(&mut self, header: &str) -> (String, String) {
        let now = kv_u64(header, "now").expect("now");
        let mut w = World::new(now);
        let l64 = |key: &str| -> Vec<u64> { kv_list(header, key).unwrap_or_default().iter().map(|x| *x as u64).collect() };
        let mcodes = l64("mcodes");
        let ccodes = l64("ccodes");
        let real_m: Vec<u64> = vec![w.codes.minters[MinterKind::TokenMerge.idx()]];
        let real_c = vec![w.codes.sg721_base, w.codes.sg721_updatable, w.codes.sg721_nt, w.codes.sg721_metadata_onchain];
        assert!(mcodes == real_m && ccodes == real_c, "header code tables {:?} {:?} differ from the world's {:?} {:?}", mcodes, ccodes, real_m, real_c);
        let p = FactoryParams {
            code_id: kv_u64(header, "code").expect("code"),
            allowed_sg721_code_ids: l64("allowed"),
            frozen: kv_bool(header, "frozen").expect("frozen"),
            creation_fee: coin_kv(header, "cfee").expect("cfee"),
            min_mint_price: (0, 0),
            mint_fee_bps: 0,
            max_trading_offset_secs: kv_u64(header, "offset").expect("offset"),
            max_token_limit: kv_u64(header, "maxtok").expect("maxtok") as u32,
            max_per_address_limit: kv_u64(header, "maxper").expect("maxper") as u32,
            airdrop_mint_price: coin_kv(header, "airp").expect("airp"),
            airdrop_mint_fee_bps: kv_u64(header, "airbps").expect("airbps"),
            shuffle_fee: coin_kv(header, "shuf").expect("shuf"),
            dev_fee_address: 0,
        };
        // EXACTLY the header's params (the factory's `instantiate` validates nothing)
        let fcode = w.codes.token_merge_factory;
        let factory = w.instantiate(fcode, &ad0(90), &json!({"params": p.to_json(FactoryKind::TokenMerge)}), &[], None).expect("factory");
        assert_eq!(aid0(&factory), kv_u64(header, "fac").expect("fac"), "factory address");
        let mut b = w.app.block_info();
        b.height = kv_u64(header, "h").expect("h");
        w.app.set_block(b);
        self.w = w;
        self.accts = l64("accts");
        self.probe = l64("probe");
        self.srcs = l64("srcs");
        self.ids = kv_u64(header, "ids").unwrap_or(IDS);
        self.mcodes = mcodes;
        self.ccodes = ccodes;
        self.factory = factory;
        self.minter = None;
        self.n_contracts = 1;
        self.src.clear();
        self.src_rev.clear();
        self.src_kind.clear();
        (header.to_string(), format!("case {}", self.obs()))
    }

    fn exec(&mut self, line: &str) -> (String, String) {
        let op = line.split_whitespace().next().unwrap_or("").to_string();
        if op == "t" {
            let Some(t) = kv_u64(line, "now") else { return (line.to_string(), "bad-op".into()) };
            if t < self.w.time() {
                return (line.to_string(), format!("err {}", self.obs()));
            }
            let mut b = self.w.app.block_info();
            b.time = cosmwasm_std::Timestamp::from_nanos(t);
            self.w.app.set_block(b);
            return (line.to_string(), format!("ok {}", self.obs()));
        }
        match self.run_op(&op, line) {
            Some((wit, ok)) => (format!("{line}{wit}"), format!("{} {}", if ok { "ok" } else { "err" }, self.obs())),
            None => (line.to_string(), "bad-op".to_string()),
        }
    }
}

// ------------------------------------------------------------------------------------------------ generators
//GEN-BEGIN
struct G {
    rng: Rng,
    mc: Vec<u64>,
    cc: Vec<u64>,
    /// code ids that exist but are no token-merge minter (a collection, the factory itself, a whitelist, a vending minter, an
    /// open-edition minter)
    non_minter: Vec<u64>,
}

#[derive(Clone, Debug)]
struct Hdr {
    now: u64,
    code: u64,
    allowed: Vec<u64>,
    frozen: bool,
    cfee: (u64, u128),
    offset: u64,
    maxtok: u64,
    maxper: u64,
    airp: (u64, u128),
    airbps: u64,
    shuf: (u64, u128),
}
impl Hdr {
    fn std(now: u64, code: u64, cc: &[u64]) -> Hdr {
        Hdr { now, code, allowed: cc.to_vec(), frozen: false, cfee: (0, 5_000_000_000), offset: 604_800, maxtok: 10_000, maxper: 50, airp: (0, 5_000_000), airbps: 5000, shuf: (0, 500_000_000) }
    }
    fn line(&self, g: &G, tag: &str) -> String {
        format!(
            "case h=1 now={} fac=1000 mcodes={} ccodes={} accts={} probe={},1,9999 srcs={} ids={IDS} code={} allowed={} frozen={} cfee={} offset={} maxtok={} maxper={} airp={} airbps={} shuf={} {tag}",
            self.now, fmt_list(&g.mc), fmt_list(&g.cc), fmt_list(&ACCTS), fmt_list(&g.cc), fmt_list(&SRCS), self.code, fmt_list(&self.allowed), self.frozen as u8, rc(self.cfee),
            self.offset, self.maxtok, self.maxper, rc(self.airp), self.airbps, rc(self.shuf)
        )
    }
}

/// `ses.mark`; with COMPSYSTM_DUMP set every class is also counted (so that the report's distribution lists them)
fn mk(ses: &mut Session, class: String) {
    static DUMP: OnceLock<bool> = OnceLock::new();
    if *DUMP.get_or_init(|| std::env::var("COMPSYSTM_DUMP").is_ok()) {
        ses.count(&format!("class:{class}"));
    }
    ses.mark(class);
}

/// how an attached payment relates to the amount `want` (labels only)
fn pay_class(funds: &[(u64, u128)], want: (u64, u128)) -> &'static str {
    match funds {
        [] => "none",
        [(d, a)] => {
            if *d != want.0 {
                "denom"
            } else if *a == 0 {
                "zero"
            } else if *a == want.1 {
                "exact"
            } else if *a > want.1 {
                "over"
            } else {
                "under"
            }
        }
        _ => "two",
    }
}
fn three_pct(n: u64) -> u64 {
    (n * 3 + 99) / 100
}

/// label of a deposit line: which rule is expected to decide it (from the state BEFORE the op; never used by the comparison)
fn deposit_reason(pre: &Last, caller: u64, from: u64, rcpt: Option<u64>, msgok: bool) -> String {
    let r = rcpt.unwrap_or(from);
    if !msgok {
        "msgbad".into()
    } else if pre.now < pre.start {
        "before-start".into()
    } else if pre.now == pre.start {
        "at-start".into()
    } else if pre.ma_of(r) >= pre.limit {
        "limit".into()
    } else if pre.req_of(caller).is_none() {
        "foreign".into()
    } else if pre.dep_of(r, caller) >= pre.req_of(caller).unwrap_or(0) {
        "surplus".into()
    } else if pre.completes(r, caller) {
        if pre.left == 0 {
            "soldout".into()
        } else if pre.owner != Some(pre.maddr) {
            "coll-not-owned".into()
        } else if pre.ck == 3 {
            "mint-unparsable".into()
        } else {
            "mint".into()
        }
    } else {
        "partial".into()
    }
}

fn classify(ses: &mut Session, sut: &S, pre: &Last, line: &str, out: &str) {
    let op = line.split_whitespace().next().unwrap_or("?");
    let oc = out.split_whitespace().next().unwrap_or("?");
    let post = &sut.last;
    let sender = kv_u64(line, "sender").unwrap_or(0);
    let funds = funds_of(line);
    let who = if !pre.exists {
        "x"
    } else if sender == pre.admin {
        "admin"
    } else {
        "other"
    };
    let leftc = if !pre.exists {
        "x"
    } else if pre.left == 0 {
        "left0"
    } else {
        "leftn"
    };
    match op {
        "send" => {
            let c = kv_u64(line, "coll").unwrap_or(0);
            let id = kv_u64(line, "id").unwrap_or(0);
            let ct = kv_u64(line, "contract").unwrap_or(0);
            let rcpt = kv_opt_u64(line, "rcpt").unwrap_or(None);
            let msgok = kv(line, "msgok") != Some("0");
            let reason = if !pre.deployed.contains(&c) {
                "nocoll".to_string()
            } else if pre.src_owner(c, id) != Some(sender) {
                "non-owner".to_string()
            } else if !pre.exists {
                "nominter".to_string()
            } else if ct != pre.maddr {
                format!("wrong-contract-{}", pre.kind_of(ct))
            } else {
                deposit_reason(pre, c, sender, rcpt, msgok)
            };
            let rcl = match rcpt {
                Some(r) if r != sender => "rcpt",
                Some(_) => "rcpt-self",
                None => "self",
            };
            mk(ses, format!("send/{oc}/{reason}/{rcl}/ck{}", pre.ck));
            if !msgok {
                mk(ses, format!("send/{oc}/msgbad{}", kv(line, "bad").unwrap_or("2")));
            }
            if oc == "ok" && reason == "mint" {
                let mut colls: Vec<u64> = pre.mtok.iter().map(|e| e.0).collect();
                colls.sort();
                colls.dedup();
                mk(ses, format!("merge/ok/colls{}/total{}", colls.len(), pre.mtok.iter().map(|e| e.1).sum::<u64>()));
                let r = rcpt.unwrap_or(sender);
                if pre.dep.iter().any(|e| e.0 == r) && !post.dep.iter().any(|e| e.0 == r) {
                    mk(ses, "merge/ledger-reset".to_string());
                }
                if post.left == 0 {
                    mk(ses, "merge/soldout-by-deposit".to_string());
                }
            }
        }
        "receive" => {
            let from = kv_u64(line, "from").unwrap_or(0);
            let rcpt = kv_opt_u64(line, "rcpt").unwrap_or(None);
            let msgok = kv(line, "msgok") != Some("0");
            let ck = if !pre.exists {
                "nominter".to_string()
            } else {
                let listed = if pre.req_of(sender).is_some() { "listed-" } else { "" };
                let k = if sender == pre.admin {
                    "admin"
                } else if sender == STRANGER {
                    "stranger"
                } else {
                    pre.kind_of(sender)
                };
                format!("{listed}{k}/{}", deposit_reason(pre, sender, from, rcpt, msgok))
            };
            mk(ses, format!("receive/{oc}/{ck}"));
        }
        "create" => {
            let ck = kv_u64(line, "code").and_then(|c| sut.ccodes.iter().position(|x| *x == c)).map(|x| x.to_string()).unwrap_or("x".into());
            let fc = pay_class(&funds, pre.cfee);
            mk(ses, format!("create/{oc}/ck{ck}"));
            mk(ses, format!("createfee/{oc}/{fc}/d{}", pre.cfee.0));
            let gate = if pre.f_frozen {
                "frozen"
            } else if !kv_u64(line, "code").map(|c| pre.f_allowed.contains(&c)).unwrap_or(false) {
                "notallowed"
            } else if !sut.mcodes.contains(&pre.f_code) {
                "nonminter"
            } else {
                "open"
            };
            mk(ses, format!("creategate/{oc}/{gate}"));
            let mt = kv_pairs(line, "mtok").unwrap_or_default();
            let mut colls: Vec<u128> = mt.iter().map(|e| e.0).collect();
            colls.sort();
            colls.dedup();
            mk(ses, format!(
                "createmt/{oc}/n{}{}{}{}",
                mt.len(),
                if colls.len() < mt.len() { "-dup" } else { "" },
                if mt.iter().any(|e| e.1 == 0) { "-zero" } else { "" },
                if mt.iter().any(|e| e.0 < 1000) { "-eoa" } else { "" }
            ));
            let (n, lim) = (kv_u64(line, "ntok").unwrap_or(0), kv_u64(line, "limit").unwrap_or(0));
            mk(ses, format!("createlimit/{oc}/{}/{}", if n < 100 { "small" } else { "big" }, if lim > three_pct(n).max(if n < 100 { 3 } else { 0 }) || (n < 100 && lim > 3) { "over" } else { "within" }));
        }
        "mint_to" | "mint_for" => {
            let pc = pay_class(&funds, pre.airp);
            let bps = match pre.airbps {
                0 => "bps0",
                10_000 => "bps10000",
                b if b > 10_000 => "bpsover",
                _ => "bpsmid",
            };
            let idc = if op == "mint_for" {
                let id = kv_u64(line, "id").unwrap_or(0);
                if id == 0 {
                    "id0"
                } else if id > pre.ntok {
                    "idbig"
                } else if pre.pos.iter().any(|e| e.1 == id) {
                    "avail"
                } else {
                    "sold"
                }
            } else {
                "any"
            };
            mk(ses, format!("{op}/{oc}/{idc}/{who}/{pc}/{leftc}/ck{}", pre.ck));
            if pre.exists && who == "admin" {
                mk(ses, format!("airdrop/{oc}/{bps}/p{}/{pc}", if pre.airp.1 == 0 { "0" } else { "n" }));
            }
        }
        "purge" => mk(ses, format!("purge/{oc}/f{}/{leftc}", !funds.is_empty() as u8)),
        "upd_start" => {
            let t = kv_u64(line, "t").unwrap_or(0);
            let reason = if !funds.is_empty() {
                "funds"
            } else if who != "admin" {
                "non-admin"
            } else if pre.now >= pre.start {
                "after-start"
            } else if pre.now > t {
                "past"
            } else if t < GENESIS {
                "before-genesis"
            } else {
                "fine"
            };
            mk(ses, format!("upd_start/{oc}/{reason}"));
        }
        "upd_trading" => {
            let t = kv_opt_u64(line, "t").unwrap_or(None);
            let reason = if !funds.is_empty() {
                "funds"
            } else if who != "admin" {
                "non-admin"
            } else {
                match t {
                    None => "none",
                    Some(t) if pre.now > t => "too-late",
                    Some(t) if t > pre.start.saturating_add(pre.offset.saturating_mul(SEC)) => "beyond",
                    _ => "some",
                }
            };
            mk(ses, format!("upd_trading/{oc}/{reason}/ck{}", pre.ck));
        }
        "upd_limit" => {
            let n = kv_u64(line, "n").unwrap_or(0);
            let reason = if !funds.is_empty() {
                "funds"
            } else if who != "admin" {
                "non-admin"
            } else if n == 0 {
                "zero"
            } else if n > pre.maxper {
                "over-max"
            } else if pre.ntok < 100 && n > 3 {
                "dyn-small"
            } else if pre.ntok >= 100 && n > three_pct(pre.ntok) {
                "dyn-big"
            } else if pre.ntok < 100 {
                "fine-small"
            } else {
                "fine-big"
            };
            mk(ses, format!("upd_limit/{oc}/{reason}"));
        }
        "shuffle" => {
            let pc = pay_class(&funds, pre.shuf);
            let reason = if pc != "exact" && pc != "over" && !(pc == "none" && pre.shuf.1 == 0) {
                pc
            } else if pre.exists && pre.left == 0 {
                "soldout"
            } else {
                pc
            };
            mk(ses, format!("shuffle/{oc}/{reason}/{who}"));
        }
        "burn" => {
            let reason = if !funds.is_empty() {
                "funds"
            } else if who != "admin" {
                "non-admin"
            } else if pre.left == 0 {
                "soldout"
            } else {
                "fine"
            };
            mk(ses, format!("burn/{oc}/{reason}"));
        }
        "sudo_params" => {
            let keys: Vec<&str> = line.split_whitespace().skip(1).filter_map(|w| w.split_once('=').map(|x| x.0)).collect();
            mk(ses, format!("sudo_params/{oc}/{}", keys.join("+")));
            for k in ["airp", "shuf"] {
                if coin_kv(line, k).map(|c| c.0 != 0).unwrap_or(false) {
                    mk(ses, format!("sudo_params-nonnative/{oc}/{k}"));
                }
            }
        }
        "c_transfer" | "c_burn" | "c_trading" | "c_creator" | "c_freeze" | "c_own" => {
            mk(ses, format!("{op}/{oc}/ck{}/{}", pre.ck, kv(line, "act").unwrap_or("-")));
        }
        "src_give" => {
            let c = kv_u64(line, "coll").unwrap_or(0);
            let id = kv_u64(line, "id").unwrap_or(0);
            let r = if !pre.deployed.contains(&c) {
                "nocoll"
            } else if pre.src_owner(c, id).is_some() {
                "exists"
            } else {
                "fresh"
            };
            mk(ses, format!("src_give/{oc}/{r}/to-{}", pre.kind_of(kv_u64(line, "to").unwrap_or(0))));
        }
        "src_transfer" => {
            let c = kv_u64(line, "coll").unwrap_or(0);
            let id = kv_u64(line, "id").unwrap_or(0);
            let r = if !pre.deployed.contains(&c) {
                "nocoll"
            } else if pre.src_owner(c, id) != Some(sender) {
                "non-owner"
            } else {
                "owner"
            };
            mk(ses, format!("src_transfer/{oc}/{r}/to-{}", pre.kind_of(kv_u64(line, "to").unwrap_or(0))));
        }
        _ => mk(ses, format!("{op}/{oc}/{}", if pre.exists { "minter" } else { "nominter" })),
    }
}

fn step(ses: &mut Session, sut: &mut S, line: &str) -> bool {
    let pre = sut.last.clone();
    let out = ses.step(sut, line);
    if sut.trace {
        eprintln!("TRACE {line} => {}", &out[..out.len().min(3)]);
    }
    classify(ses, sut, &pre, line, &out);
    out.starts_with("ok")
}
fn expect_ok(ses: &mut Session, sut: &mut S, line: &str) {
    if !step(ses, sut, line) {
        eprintln!("TOUR-UNEXPECTED err: {line}");
        ses.count("tour-unexpected-err");
    }
}
fn expect_err(ses: &mut Session, sut: &mut S, line: &str) {
    if step(ses, sut, line) {
        eprintln!("TOUR-UNEXPECTED ok: {line}");
        ses.count("tour-unexpected-ok");
    }
}
fn funds_str(c: Option<(u64, u128)>) -> String {
    match c {
        Some((_, 0)) | None => "-".into(),
        Some((d, a)) => format!("{d}:{a}"),
    }
}
/// what a creator attaches for the fee `c`: `must_pay` wants a non-zero coin even when the fee is zero
fn fee_funds(c: (u64, u128)) -> String {
    format!("{}:{}", c.0, c.1.max(1))
}
/// single-fault mutation of an attached payment
fn mut_funds(rng: &mut Rng, base: (u64, u128)) -> String {
    let (d, a) = base;
    match rng.below(7) {
        0 => format!("{d}:{}", a + 1),
        1 if a > 0 => format!("{d}:{}", a - 1),
        2 => format!("{}:{}", 1 - d.min(1), a.max(1)),
        3 => format!("{d}:{},{}:5", a.max(1), 1 - d.min(1)),
        4 if a > 0 => "-".into(),
        5 => format!("{d}:0"),
        _ => format!("{d}:{}", a + 1),
    }
}

fn send_line(sender: u64, coll: u64, id: u64, contract: u64, rcpt: Option<u64>, bad: u64) -> String {
    if bad == 0 {
        format!("send sender={sender} coll={coll} id={id} contract={contract} rcpt={} msgok=1", fmt_opt(&rcpt))
    } else {
        format!("send sender={sender} coll={coll} id={id} contract={contract} rcpt={} msgok=0 bad={bad}", fmt_opt(&rcpt))
    }
}
fn recv_line(caller: u64, from: u64, id: u64, rcpt: Option<u64>, bad: u64) -> String {
    if bad == 0 {
        format!("receive sender={caller} from={from} id={id} rcpt={} msgok=1", fmt_opt(&rcpt))
    } else {
        format!("receive sender={caller} from={from} id={id} rcpt={} msgok=0 bad={bad}", fmt_opt(&rcpt))
    }
}

#[derive(Clone, Debug)]
struct CreateSpec {
    sender: u64,
    funds: String,
    code: u64,
    creator: u64,
    trading: Option<u64>,
    uri: bool,
    start: u64,
    ntok: u64,
    limit: u64,
    mtok: Vec<(u64, u64)>,
    collok: bool,
}
impl CreateSpec {
    fn line(&self) -> String {
        format!(
            "create sender={} funds={} code={} creator={} trading={} uri={} start={} ntok={} limit={} mtok={} collok={}",
            self.sender, self.funds, self.code, self.creator, fmt_opt(&self.trading), self.uri as u8, self.start, self.ntok, self.limit, fmt_pairs(&self.mtok), self.collok as u8
        )
    }
    fn basic(code: u64, start: u64, ntok: u64, limit: u64, mtok: &[(u64, u64)]) -> CreateSpec {
        CreateSpec { sender: ADMIN, funds: "0:5000000000".into(), code, creator: ADMIN, trading: None, uri: true, start, ntok, limit, mtok: mtok.to_vec(), collok: true }
    }
}

fn fund_std(ses: &mut Session, sut: &mut S) {
    step(ses, sut, &format!("fund a={ADMIN} d=0 amt=1000000000000"));
    for b in [20u64, 21, 22, 23, 30] {
        step(ses, sut, &format!("fund a={b} d=0 amt=100000000000"));
    }
}
/// deploy the first `n` source collections and hand out their tokens: 2001 and 2002: ids 1..4 -> 20, 5..8 -> 21; 2003: 1,2 -> 20, 3 -> 21
fn sources_std(ses: &mut Session, sut: &mut S, n: usize) {
    for c in SRCS.iter().take(n) {
        expect_ok(ses, sut, &format!("src_new coll={c} kind={} s=1000 minter={SRCMINT}", ["base", "updatable", "onchain"][(*c as usize + n) % 3]));
    }
    for c in SRCS.iter().take(n.min(2)) {
        for id in 1..=IDS {
            expect_ok(ses, sut, &format!("src_give coll={c} id={id} to={}", if id <= 4 { 20 } else { 21 }));
        }
    }
    if n >= 3 {
        for id in 1..=3u64 {
            expect_ok(ses, sut, &format!("src_give coll=2003 id={id} to={}", if id <= 2 { 20 } else { 21 }));
        }
    }
}

/// the collection-interface block of the main tour (as compoe's)
fn tour_collection(ses: &mut Session, sut: &mut S, ck: usize) {
    if let Some((id, o)) = sut.last.toks.first().cloned() {
        if ck == 2 {
            expect_err(ses, sut, &format!("c_transfer sender={o} id={id} to=30")); // sg721-nt: not transferable
            expect_ok(ses, sut, &format!("c_burn sender={o} id={id}"));
        } else {
            expect_ok(ses, sut, &format!("c_transfer sender={o} id={id} to=30"));
            expect_err(ses, sut, &format!("c_transfer sender={o} id={id} to=21"));
            expect_ok(ses, sut, &format!("c_burn sender=30 id={id}"));
        }
        expect_err(ses, sut, &format!("c_burn sender=30 id={id}"));
    }
    step(ses, sut, &format!("c_creator sender={ADMIN} new=21"));
    step(ses, sut, "c_freeze sender=21");
    step(ses, sut, &format!("c_creator sender=21 new={ADMIN}")); // frozen
    let m = sut.last.maddr;
    step(ses, sut, &format!("c_trading sender={m} t=-"));
    step(ses, sut, &format!("c_trading sender={ADMIN} t=-"));
    // sg721-updatable and sg721-nt do not take `UpdateOwnership` in this message shape: refused on both sides
    let own = |ses: &mut Session, sut: &mut S, line: &str| {
        if ck == 0 || ck == 3 {
            expect_ok(ses, sut, line)
        } else {
            expect_err(ses, sut, line)
        }
    };
    own(ses, sut, &format!("c_own sender={m} act=transfer new=30"));
    expect_err(ses, sut, "c_own sender=22 act=accept new=0");
    own(ses, sut, "c_own sender=30 act=accept new=0");
    // the minter no longer owns the collection: every mint fails, partial deposits still pass
    step(ses, sut, &format!("mint_to sender={ADMIN} funds={} rcpt=22", funds_str(Some(sut.last.airp))));
    own(ses, sut, &format!("c_own sender=30 act=transfer new={m}"));
    own(ses, sut, &format!("c_own sender={m} act=accept new=0"));
}

/// Deterministic main scenario (independent of the seed) for collection kind `ck`; requirement 2001 x1 + 2002 x2.
/// shape 0: exact creation fee, sold out by mints, then `Purge`; shape 1: overpaid creation fee, closed by `BurnRemaining` + `Purge`.
fn tour(ses: &mut Session, sut: &mut S, g: &mut G, ck: usize, shape: usize) {
    let now = GENESIS + 1_000_000 + 1000 * (2 * ck + shape) as u64;
    let s = now + 5000;
    let h = Hdr::std(now, g.mc[0], &g.cc);
    let mints = ck != 3; // sg721-metadata-onchain cannot parse the minter's `Mint {extension: None}`
    ses.begin_case(sut, &h.line(g, &format!("tour ck={ck} shape={shape}")));
    fund_std(ses, sut);
    expect_err(ses, sut, &send_line(20, 2001, 1, 1000, None, 0)); // no such source contract
    sources_std(ses, sut, 3);
    expect_err(ses, sut, "src_give coll=2001 id=1 to=22"); // id exists
    expect_err(ses, sut, "src_give coll=2009 id=1 to=22"); // no such contract
    expect_err(ses, sut, "src_give coll=23 id=1 to=22");
    expect_ok(ses, sut, "src_transfer sender=20 coll=2001 id=4 to=22");
    expect_err(ses, sut, "src_transfer sender=20 coll=2001 id=4 to=21"); // no longer the owner
    expect_err(ses, sut, "src_transfer sender=20 coll=2009 id=1 to=21");
    expect_err(ses, sut, "src_transfer sender=20 coll=2003 id=7 to=21"); // no such token
    expect_err(ses, sut, &send_line(20, 2001, 1, 1000, None, 0)); // no minter yet; the factory has no hook
    expect_err(ses, sut, &recv_line(23, 20, 1, None, 0));
    expect_err(ses, sut, &format!("inst_direct sender={ADMIN}"));
    expect_err(ses, sut, &format!("inst_direct sender={STRANGER}"));
    // single-fault creations
    let ntok = if shape == 0 { 8 } else { 6 };
    let good = CreateSpec::basic(g.cc[ck], s, ntok, 2, &[(2001, 1), (2002, 2)]);
    for (what, c) in [
        ("fee-1", CreateSpec { funds: "0:4999999999".into(), ..good.clone() }),
        ("fee-denom", CreateSpec { funds: "1:5000000000".into(), ..good.clone() }),
        ("fee-two", CreateSpec { funds: "0:5000000000,1:7".into(), ..good.clone() }),
        ("fee-none", CreateSpec { funds: "-".into(), ..good.clone() }),
        ("code", CreateSpec { code: 9999, ..good.clone() }),
        ("code-minter", CreateSpec { code: g.mc[0], ..good.clone() }),
        ("ntok-0", CreateSpec { ntok: 0, ..good.clone() }),
        ("ntok-max+1", CreateSpec { ntok: h.maxtok + 1, ..good.clone() }),
        ("limit-0", CreateSpec { limit: 0, ..good.clone() }),
        ("limit-4", CreateSpec { limit: 4, ..good.clone() }),
        ("limit-max+1", CreateSpec { limit: h.maxper + 1, ..good.clone() }),
        ("uri", CreateSpec { uri: false, ..good.clone() }),
        ("start-now-1", CreateSpec { start: now - 1, ..good.clone() }),
        ("trading-bound+1", CreateSpec { trading: Some(s + h.offset * SEC + 1), ..good.clone() }),
        ("coll-bad", CreateSpec { collok: false, ..good.clone() }),
        ("poor", CreateSpec { sender: POOR, ..good.clone() }),
    ] {
        ses.count(&format!("create-mutation:{what}"));
        expect_err(ses, sut, &c.line());
    }
    let c = if shape == 0 { good.clone() } else { CreateSpec { funds: "0:5000000777".into(), trading: Some(s + h.offset * SEC), ..good.clone() } };
    expect_ok(ses, sut, &c.line());
    expect_err(ses, sut, &good.line()); // one minter per case
    let m = sut.last.maddr;
    let coll = sut.last.caddr;
    let a = ADMIN;
    // ---- before the start
    expect_err(ses, sut, &send_line(20, 2001, 1, m, None, 0));
    expect_ok(ses, sut, &format!("upd_start sender={a} funds=- t={}", s + 10));
    expect_ok(ses, sut, &format!("upd_start sender={a} funds=- t={s}"));
    expect_err(ses, sut, &format!("upd_start sender={STRANGER} funds=- t={s}"));
    expect_err(ses, sut, &format!("upd_start sender={a} funds=0:1 t={s}"));
    expect_err(ses, sut, &format!("upd_start sender={a} funds=- t={}", now - 1));
    if ck != 2 {
        expect_ok(ses, sut, &format!("upd_trading sender={a} funds=- t={}", s + 1));
        expect_ok(ses, sut, &format!("upd_trading sender={a} funds=- t=-"));
    } else {
        step(ses, sut, &format!("upd_trading sender={a} funds=- t={}", s + 1));
        step(ses, sut, &format!("upd_trading sender={a} funds=- t=-"));
    }
    expect_err(ses, sut, &format!("upd_trading sender={a} funds=- t={}", s + h.offset * SEC + 1));
    step(ses, sut, &format!("upd_trading sender={a} funds=- t={}", s + h.offset * SEC));
    expect_err(ses, sut, &format!("upd_trading sender={a} funds=- t={}", now - 1));
    expect_err(ses, sut, &format!("upd_trading sender={STRANGER} funds=- t={}", s + 1));
    expect_err(ses, sut, &format!("upd_trading sender={a} funds=0:1 t={}", s + 1));
    expect_ok(ses, sut, &format!("upd_limit sender={a} funds=- n=3"));
    expect_err(ses, sut, &format!("upd_limit sender={a} funds=- n=0"));
    expect_err(ses, sut, &format!("upd_limit sender={a} funds=- n=4"));
    expect_err(ses, sut, &format!("upd_limit sender={a} funds=- n={}", h.maxper + 1));
    expect_err(ses, sut, &format!("upd_limit sender={STRANGER} funds=- n=1"));
    expect_err(ses, sut, &format!("upd_limit sender={a} funds=0:1 n=1"));
    expect_ok(ses, sut, &format!("upd_limit sender={a} funds=- n=2"));
    expect_ok(ses, sut, &format!("shuffle sender={STRANGER} funds=0:500000000"));
    expect_ok(ses, sut, "shuffle sender=21 funds=0:500000123");
    expect_err(ses, sut, "shuffle sender=21 funds=0:499999999");
    expect_err(ses, sut, "shuffle sender=21 funds=-");
    expect_err(ses, sut, "shuffle sender=21 funds=1:500000000");
    expect_ok(ses, sut, &format!("shuffle sender={a} funds=0:500000000"));
    expect_ok(ses, sut, "sudo_status v=1 b=0 e=1");
    expect_ok(ses, sut, "sudo_params offset=604800");
    // airdrops need no open sale
    let air = |rcpt: u64| format!("mint_to sender={ADMIN} funds=0:5000000 rcpt={rcpt}");
    if mints {
        expect_ok(ses, sut, &air(23));
    } else {
        expect_err(ses, sut, &air(23));
    }
    expect_err(ses, sut, &format!("mint_to sender={a} funds=0:5000001 rcpt=23"));
    expect_err(ses, sut, &format!("mint_to sender={a} funds=0:4999999 rcpt=23"));
    expect_err(ses, sut, &format!("mint_to sender={a} funds=- rcpt=23"));
    expect_err(ses, sut, &format!("mint_to sender={a} funds=1:5000000 rcpt=23"));
    expect_err(ses, sut, &format!("mint_to sender={STRANGER} funds=0:5000000 rcpt=23"));
    // ---- the hook needs now > start, strictly
    expect_ok(ses, sut, &format!("t now={s}"));
    expect_err(ses, sut, &send_line(20, 2001, 1, m, None, 0));
    expect_err(ses, sut, &format!("upd_start sender={a} funds=- t={}", s + 10)); // already started
    expect_ok(ses, sut, &format!("t now={}", s + 1));
    expect_ok(ses, sut, &send_line(20, 2001, 1, m, None, 0)); // partial
    expect_err(ses, sut, &send_line(20, 2001, 2, m, None, 0)); // surplus
    expect_err(ses, sut, &send_line(20, 2003, 1, m, None, 0)); // foreign collection
    expect_ok(ses, sut, &send_line(20, 2002, 1, m, None, 0)); // partial
    for ct in [1000u64, 22, 2002, 2003, coll, 2009] {
        expect_err(ses, sut, &send_line(20, 2002, 2, ct, None, 0)); // no hook there: the transfer is reverted
    }
    for bad in [1u64, 2, 3] {
        expect_err(ses, sut, &send_line(20, 2002, 2, m, None, bad));
        expect_err(ses, sut, &send_line(20, 2002, 2, m, Some(22), bad));
    }
    expect_err(ses, sut, &send_line(21, 2002, 2, m, None, 0)); // not the owner
    expect_err(ses, sut, &send_line(20, 2002, 7, m, None, 0));
    if mints {
        expect_ok(ses, sut, &send_line(20, 2002, 2, m, None, 0)); // completes: mint, ledger reset
    } else {
        expect_err(ses, sut, &send_line(20, 2002, 2, m, None, 0));
    }
    // deposits on behalf of 22: ledger and limit of the RECIPIENT
    expect_ok(ses, sut, &send_line(21, 2001, 5, m, Some(22), 0));
    expect_ok(ses, sut, &send_line(21, 2002, 5, m, Some(22), 0));
    expect_err(ses, sut, &send_line(21, 2001, 6, m, Some(22), 0)); // surplus for 22
    expect_ok(ses, sut, &send_line(21, 2001, 6, m, Some(21), 0)); // explicit recipient = sender
    if mints {
        expect_ok(ses, sut, &send_line(21, 2002, 6, m, Some(22), 0));
    } else {
        expect_err(ses, sut, &send_line(21, 2002, 6, m, Some(22), 0));
    }
    // direct calls of the hook
    expect_err(ses, sut, &recv_line(STRANGER, STRANGER, 1, None, 0));
    expect_err(ses, sut, &recv_line(a, 20, 3, None, 0));
    expect_err(ses, sut, &recv_line(23, 20, 3, Some(21), 0));
    expect_err(ses, sut, &recv_line(20, 20, 3, None, 2));
    if mints {
        // per-address limit of the recipient
        expect_ok(ses, sut, &format!("upd_limit sender={a} funds=- n=1"));
        expect_err(ses, sut, &send_line(20, 2001, 2, m, None, 0));
        expect_err(ses, sut, &send_line(21, 2002, 7, m, Some(22), 0));
        expect_err(ses, sut, &send_line(20, 2001, 2, m, Some(21), 0)); // 21 has not minted yet, but already holds 1 of 1: surplus
        expect_ok(ses, sut, &send_line(20, 2002, 3, m, Some(21), 0)); // credited to 21
    } else {
        expect_ok(ses, sut, &format!("upd_limit sender={a} funds=- n=1"));
        step(ses, sut, &send_line(20, 2001, 2, m, Some(21), 0));
    }
    expect_ok(ses, sut, &format!("upd_limit sender={a} funds=- n=2"));
    // governance lowers the ceiling between calls
    expect_ok(ses, sut, "sudo_params maxper=1");
    let lowered = !step(ses, sut, &format!("upd_limit sender={a} funds=- n=2"));
    mk(ses, format!("tour/gov-lowered-maxper/upd_limit-{}", if lowered { "err" } else { "ok" }));
    expect_ok(ses, sut, &format!("upd_limit sender={a} funds=- n=1"));
    expect_ok(ses, sut, "sudo_params maxper=50");
    expect_ok(ses, sut, &format!("upd_limit sender={a} funds=- n=3"));
    // MintFor
    expect_err(ses, sut, &format!("mint_for sender={a} funds=0:5000000 id=0 rcpt=22"));
    expect_err(ses, sut, &format!("mint_for sender={a} funds=0:5000000 id={} rcpt=22", ntok + 1));
    if let Some(id) = sut.last.pos.last().map(|p| p.1) {
        if mints {
            expect_ok(ses, sut, &format!("mint_for sender={a} funds=0:5000000 id={id} rcpt=22"));
        } else {
            expect_err(ses, sut, &format!("mint_for sender={a} funds=0:5000000 id={id} rcpt=22"));
        }
        step(ses, sut, &format!("mint_for sender={a} funds=0:5000000 id={id} rcpt=22")); // already sold
        expect_err(ses, sut, &format!("mint_for sender={STRANGER} funds=0:5000000 id={id} rcpt=22"));
    }
    expect_err(ses, sut, "purge sender=30 funds=-"); // not sold out
    expect_err(ses, sut, "purge sender=30 funds=0:1");
    if shape == 0 {
        tour_collection(ses, sut, ck);
    }
    expect_err(ses, sut, &format!("burn sender={STRANGER} funds=-"));
    expect_err(ses, sut, &format!("burn sender={a} funds=0:1"));
    if shape == 0 && mints {
        let mut guard = 0;
        while sut.last.left != 0 && guard < 12 {
            guard += 1;
            expect_ok(ses, sut, &air(23));
        }
        // partial deposits are still accepted (and burned); the completing one is refused
        expect_ok(ses, sut, &send_line(21, 2001, 7, m, Some(STRANGER), 0));
        expect_ok(ses, sut, &send_line(21, 2002, 7, m, Some(STRANGER), 0));
        expect_err(ses, sut, &send_line(21, 2002, 8, m, Some(STRANGER), 0));
        expect_err(ses, sut, &air(23));
        expect_err(ses, sut, &format!("mint_for sender={a} funds=0:5000000 id=1 rcpt=22"));
        expect_err(ses, sut, &format!("shuffle sender={STRANGER} funds=0:500000000"));
        expect_err(ses, sut, &format!("burn sender={a} funds=-"));
        expect_err(ses, sut, "purge sender=30 funds=0:1");
        expect_ok(ses, sut, "purge sender=30 funds=-");
        expect_ok(ses, sut, "purge sender=20 funds=-");
    } else {
        expect_ok(ses, sut, &format!("burn sender={a} funds=-"));
        expect_err(ses, sut, &format!("burn sender={a} funds=-"));
        expect_ok(ses, sut, &format!("purge sender={STRANGER} funds=-"));
        expect_err(ses, sut, &air(23));
        expect_err(ses, sut, &format!("shuffle sender={STRANGER} funds=0:500000000"));
    }
    ses.end_case();
}

/// an EOA / an address without code listed in `mint_tokens`: direct calls of the hook by that EOA pass every gate of the minter
/// and die on the `Burn` message sent to an address that is no contract
fn tour_listed_eoa(ses: &mut Session, sut: &mut S, g: &mut G) {
    let now = GENESIS + 1_500_000;
    let s = now + 100;
    let h = Hdr::std(now, g.mc[0], &g.cc);
    ses.begin_case(sut, &h.line(g, "tour listed-eoa"));
    fund_std(ses, sut);
    sources_std(ses, sut, 2);
    expect_ok(ses, sut, &CreateSpec::basic(g.cc[0], s, 5, 2, &[(23, 1), (2001, 1), (2009, 0)]).line());
    let m = sut.last.maddr;
    expect_ok(ses, sut, &format!("t now={}", s + 1));
    expect_err(ses, sut, &recv_line(23, 23, 1, None, 0)); // partial for 23, then Burn -> EOA
    expect_err(ses, sut, &recv_line(23, 20, 1, None, 0));
    expect_err(ses, sut, &recv_line(23, 20, 1, Some(21), 0));
    expect_err(ses, sut, &recv_line(23, 20, 1, None, 1));
    expect_err(ses, sut, &recv_line(STRANGER, 20, 1, None, 0));
    expect_err(ses, sut, &recv_line(ADMIN, 20, 1, None, 0));
    expect_err(ses, sut, &recv_line(2009, 20, 1, None, 0)); // listed, amount 0, no code
    expect_ok(ses, sut, &send_line(20, 2001, 1, m, None, 0)); // partial: the EOA's token can never arrive
    expect_err(ses, sut, &recv_line(23, 20, 1, None, 0)); // would complete: Mint, then Burn -> EOA
    expect_err(ses, sut, &send_line(20, 2001, 2, m, None, 0)); // surplus
    expect_err(ses, sut, &send_line(20, 2002, 1, m, None, 0)); // foreign
    // a token parked at the minter by a plain transfer stays there
    expect_ok(ses, sut, &format!("src_transfer sender=20 coll=2001 id=3 to={m}"));
    expect_err(ses, sut, &format!("src_transfer sender=20 coll=2001 id=3 to=20"));
    expect_ok(ses, sut, &format!("src_give coll=2002 id=9 to={m}"));
    // (cw-multi-test lets the harness speak AS the source contract: the hook called by a listed collection for a token that
    // really sits at the minter is the one direct call that can succeed; for any other token the Burn fails)
    expect_err(ses, sut, &recv_line(2001, 20, 3, None, 0)); // surplus for 20
    expect_err(ses, sut, &recv_line(2001, 21, 4, None, 0)); // token 4 is not at the minter
    expect_ok(ses, sut, &recv_line(2001, 21, 3, None, 0)); // partial for 21, token 3 burned
    expect_err(ses, sut, &recv_line(2002, 21, 9, None, 0)); // 2002 is not listed
    expect_ok(ses, sut, &format!("mint_to sender={ADMIN} funds=0:5000000 rcpt=20"));
    ses.end_case();
}

/// requirement lists with repeated collections, zero amounts, nothing at all
fn tour_lists(ses: &mut Session, sut: &mut S, g: &mut G, k: usize) {
    let now = GENESIS + 1_600_000 + 100 * k as u64;
    let s = now + 100;
    let h = Hdr::std(now, g.mc[0], &g.cc);
    let (name, mtok): (&str, Vec<(u64, u64)>) = match k {
        0 => ("dup-1-3", vec![(2001, 1), (2001, 3)]),
        1 => ("dup-3-1", vec![(2001, 3), (2001, 1)]),
        2 => ("zero", vec![(2001, 0)]),
        3 => ("one-and-zero", vec![(2001, 1), (2002, 0)]),
        4 => ("empty", vec![]),
        _ => ("single", vec![(2002, 1)]),
    };
    ses.begin_case(sut, &h.line(g, &format!("tour lists k={name}")));
    fund_std(ses, sut);
    sources_std(ses, sut, 2);
    expect_ok(ses, sut, &CreateSpec::basic(g.cc[(k % 3) as usize], s, 4, 3, &mtok).line());
    let m = sut.last.maddr;
    expect_ok(ses, sut, &format!("t now={}", s + 1));
    for id in 1..=4u64 {
        let ok = step(ses, sut, &send_line(20, 2001, id, m, None, 0));
        mk(ses, format!("tour/lists/{name}/2001-deposit{id}-{}", if ok { "ok" } else { "err" }));
    }
    let ok = step(ses, sut, &send_line(20, 2002, 1, m, None, 0));
    mk(ses, format!("tour/lists/{name}/2002-deposit-{}", if ok { "ok" } else { "err" }));
    step(ses, sut, &send_line(21, 2002, 5, m, None, 0));
    step(ses, sut, &send_line(21, 2002, 6, m, None, 0));
    step(ses, sut, &format!("mint_to sender={ADMIN} funds=0:5000000 rcpt=21"));
    step(ses, sut, &format!("purge sender={ADMIN} funds=-"));
    ses.end_case();
}

/// deterministic single-topic scenarios
fn special_case(ses: &mut Session, sut: &mut S, g: &mut G, k: usize) {
    let now = GENESIS + 4_000_000 + 100 * k as u64;
    let s = now + 2000;
    let mut h = Hdr::std(now, g.mc[0], &g.cc);
    let req = [(2001u64, 1u64)];
    let airdrop = |p: (u64, u128), rcpt: u64| format!("mint_to sender={ADMIN} funds={} rcpt={rcpt}", funds_str(Some(p)));
    match k {
        0 | 1 => {
            // creation fee in the second denom (`transfer_funds_to_launchpad_dao`: the WHOLE payment goes to the DAO)
            h.cfee = (1, 1000);
            ses.begin_case(sut, &h.line(g, &format!("special k=denom1-{}", if k == 0 { "exact" } else { "over" })));
            fund_std(ses, sut);
            step(ses, sut, &format!("fund a={ADMIN} d=1 amt=100000000"));
            sources_std(ses, sut, 1);
            let c = CreateSpec { funds: "1:1000".into(), ..CreateSpec::basic(g.cc[1], s, 5, 2, &req) };
            expect_err(ses, sut, &CreateSpec { funds: "0:1000".into(), ..c.clone() }.line());
            expect_err(ses, sut, &CreateSpec { funds: "1:999".into(), ..c.clone() }.line());
            expect_err(ses, sut, &CreateSpec { funds: "1:1000,0:5".into(), ..c.clone() }.line());
            expect_err(ses, sut, &CreateSpec { funds: "-".into(), ..c.clone() }.line());
            expect_err(ses, sut, &CreateSpec { funds: "1:1000".into(), sender: STRANGER, ..c.clone() }.line()); // holds none of denom 1
            if k == 0 {
                expect_ok(ses, sut, &c.line());
            } else {
                expect_ok(ses, sut, &CreateSpec { funds: "1:1001".into(), ..c.clone() }.line());
            }
            let m = sut.last.maddr;
            expect_ok(ses, sut, &format!("t now={}", s + 1));
            expect_ok(ses, sut, &send_line(20, 2001, 1, m, None, 0));
            expect_err(ses, sut, &airdrop((1, 5_000_000), 22));
            expect_ok(ses, sut, &airdrop((0, 5_000_000), 22));
            expect_ok(ses, sut, "sudo_params cfee=0:7");
            expect_err(ses, sut, "sudo_params airp=1:5");
            expect_err(ses, sut, "sudo_params shuf=1:5");
            expect_err(ses, sut, "sudo_params maxtok=3 shuf=1:5 frozen=1"); // nothing at all is saved
            expect_ok(ses, sut, "sudo_params airp=0:7 shuf=0:9");
            expect_ok(ses, sut, &airdrop((0, 7), 22));
            expect_err(ses, sut, "shuffle sender=20 funds=0:8");
            expect_ok(ses, sut, "shuffle sender=20 funds=0:9");
        }
        2 => {
            // airdrop fee shares: 0, 100 %, in between, above 100 % (`price - fee` underflows), rounding to zero; price zero
            h.airbps = 0;
            ses.begin_case(sut, &h.line(g, "special k=airdrop"));
            fund_std(ses, sut);
            sources_std(ses, sut, 1);
            expect_ok(ses, sut, &CreateSpec::basic(g.cc[0], s, 20, 3, &req).line());
            expect_ok(ses, sut, &airdrop((0, 5_000_000), 22));
            expect_ok(ses, sut, "sudo_params airbps=10000");
            expect_ok(ses, sut, &airdrop((0, 5_000_000), 22));
            expect_ok(ses, sut, "sudo_params airbps=2500");
            expect_ok(ses, sut, &airdrop((0, 5_000_000), 22));
            expect_ok(ses, sut, "sudo_params airbps=10001");
            expect_err(ses, sut, &airdrop((0, 5_000_000), 22));
            expect_ok(ses, sut, "sudo_params airbps=9999");
            expect_ok(ses, sut, &airdrop((0, 5_000_000), 22));
            // fee 1: the 20 % / rest split has a zero part -> the bank refuses the empty send
            expect_ok(ses, sut, "sudo_params airp=0:3 airbps=5000");
            step(ses, sut, &airdrop((0, 3), 22));
            expect_ok(ses, sut, "sudo_params airp=0:1 airbps=5000"); // fee rounds to zero: everything to the admin
            expect_ok(ses, sut, &airdrop((0, 1), 22));
            expect_ok(ses, sut, "sudo_params airp=0:40 airbps=5000");
            step(ses, sut, &airdrop((0, 40), 22));
            expect_ok(ses, sut, "sudo_params airp=0:0");
            expect_ok(ses, sut, &airdrop((0, 0), 21));
            expect_err(ses, sut, &airdrop((0, 1), 21));
            expect_err(ses, sut, &airdrop((1, 1), 21));
            expect_ok(ses, sut, &format!("mint_for sender={ADMIN} funds=- id={} rcpt=21", sut.last.pos.first().map(|p| p.1).unwrap_or(1)));
            expect_ok(ses, sut, "sudo_params airbps=10000");
            expect_ok(ses, sut, &airdrop((0, 0), 21));
        }
        3 => {
            // what the factory refuses: frozen, collection code not allowed, `code_id` that is no token-merge minter
            ses.begin_case(sut, &h.line(g, "special k=gates"));
            fund_std(ses, sut);
            sources_std(ses, sut, 1);
            let c = CreateSpec::basic(g.cc[0], s, 5, 2, &req);
            for code in g.non_minter.clone().into_iter().chain([9999u64]) {
                expect_ok(ses, sut, &format!("sudo_params code={code}"));
                expect_err(ses, sut, &c.line());
            }
            expect_ok(ses, sut, &format!("sudo_params code={}", g.mc[0]));
            expect_ok(ses, sut, "sudo_params frozen=1");
            expect_err(ses, sut, &c.line());
            expect_ok(ses, sut, "sudo_params frozen=0");
            expect_ok(ses, sut, &format!("sudo_params rmc={}", g.cc[0]));
            expect_err(ses, sut, &c.line());
            expect_ok(ses, sut, &format!("sudo_params addc={},{},7777 rmc=7777", g.cc[0], g.cc[0]));
            expect_ok(ses, sut, "sudo_params maxtok=4");
            expect_err(ses, sut, &c.line());
            expect_ok(ses, sut, "sudo_params maxtok=5 maxper=1");
            expect_err(ses, sut, &c.line());
            expect_ok(ses, sut, "sudo_params maxper=2 offset=0");
            expect_err(ses, sut, &CreateSpec { trading: Some(s + 1), ..c.clone() }.line());
            expect_ok(ses, sut, &CreateSpec { trading: Some(s), ..c.clone() }.line());
            // a later change of the factory's code id / allowed list does not touch the existing minter
            expect_ok(ses, sut, &format!("sudo_params code=9999 rmc={}", g.cc[0]));
            expect_ok(ses, sut, &format!("t now={}", s + 1));
            let m = sut.last.maddr;
            expect_ok(ses, sut, &send_line(20, 2001, 1, m, None, 0));
            expect_err(ses, sut, &format!("upd_trading sender={ADMIN} funds=- t={}", s + 2)); // offset 0 and already past `s`
        }
        4 => {
            // a world before genesis
            let now = 1000u64;
            let h = Hdr::std(now, g.mc[0], &g.cc);
            ses.begin_case(sut, &h.line(g, "special k=genesis"));
            fund_std(ses, sut);
            sources_std(ses, sut, 1);
            let c = CreateSpec::basic(g.cc[0], GENESIS, 5, 2, &req);
            expect_err(ses, sut, &CreateSpec { start: GENESIS - 1, ..c.clone() }.line());
            expect_err(ses, sut, &CreateSpec { start: now + 5, ..c.clone() }.line());
            expect_ok(ses, sut, &c.line());
            expect_err(ses, sut, &format!("upd_start sender={ADMIN} funds=- t={}", GENESIS - 1));
            expect_err(ses, sut, &format!("upd_start sender={ADMIN} funds=- t={}", now - 1));
            expect_ok(ses, sut, &format!("upd_start sender={ADMIN} funds=- t={}", GENESIS + 5));
            expect_ok(ses, sut, &format!("upd_start sender={ADMIN} funds=- t={GENESIS}"));
            expect_err(ses, sut, &format!("t now={}", now - 1));
            expect_ok(ses, sut, &format!("t now={GENESIS}"));
            let m = sut.last.maddr;
            expect_err(ses, sut, &send_line(20, 2001, 1, m, None, 0));
            expect_ok(ses, sut, &format!("t now={}", GENESIS + 1));
            expect_ok(ses, sut, &send_line(20, 2001, 1, m, None, 0));
        }
        5 => {
            // the dynamic 3 % rule with 150 tokens: at most ceil(4.5) = 5 per address
            ses.begin_case(sut, &h.line(g, "special k=dynlimit"));
            fund_std(ses, sut);
            sources_std(ses, sut, 1);
            let c = CreateSpec::basic(g.cc[0], s, 150, 5, &req);
            expect_err(ses, sut, &CreateSpec { limit: 6, ..c.clone() }.line());
            expect_err(ses, sut, &CreateSpec { limit: 4, ntok: 100, ..c.clone() }.line());
            expect_err(ses, sut, &CreateSpec { limit: 4, ntok: 99, ..c.clone() }.line());
            expect_ok(ses, sut, &c.line());
            expect_err(ses, sut, &format!("upd_limit sender={ADMIN} funds=- n=6"));
            expect_ok(ses, sut, &format!("upd_limit sender={ADMIN} funds=- n=4"));
            expect_ok(ses, sut, &format!("upd_limit sender={ADMIN} funds=- n=5"));
            expect_ok(ses, sut, "sudo_params maxper=4");
            expect_err(ses, sut, &format!("upd_limit sender={ADMIN} funds=- n=5")); // the stored 5 stays in force
            expect_ok(ses, sut, &format!("t now={}", s + 1));
            let m = sut.last.maddr;
            expect_ok(ses, sut, &send_line(20, 2001, 1, m, None, 0));
            expect_ok(ses, sut, &format!("shuffle sender=20 funds=0:500000000"));
            expect_ok(ses, sut, &format!("burn sender={ADMIN} funds=-"));
        }
        6 => {
            // the collection changes hands: completing deposits and airdrops fail, partial deposits pass; renounced = final
            ses.begin_case(sut, &h.line(g, "special k=ownership"));
            fund_std(ses, sut);
            sources_std(ses, sut, 2);
            expect_ok(ses, sut, &CreateSpec::basic(g.cc[0], s, 7, 3, &[(2001, 1), (2002, 1)]).line());
            expect_ok(ses, sut, &format!("t now={}", s + 1));
            let m = sut.last.maddr;
            expect_ok(ses, sut, &send_line(20, 2001, 1, m, None, 0));
            expect_ok(ses, sut, &format!("c_own sender={m} act=transfer new=30"));
            expect_ok(ses, sut, &send_line(20, 2002, 1, m, None, 0)); // pending only
            expect_ok(ses, sut, "c_own sender=30 act=accept new=0");
            expect_ok(ses, sut, &send_line(20, 2001, 2, m, None, 0));
            expect_err(ses, sut, &send_line(20, 2002, 2, m, None, 0));
            expect_err(ses, sut, &airdrop((0, 5_000_000), 22));
            step(ses, sut, &format!("upd_trading sender={ADMIN} funds=- t={}", s + 10));
            expect_ok(ses, sut, "c_own sender=30 act=renounce new=0");
            expect_err(ses, sut, &send_line(20, 2002, 2, m, None, 0));
            expect_ok(ses, sut, &format!("burn sender={ADMIN} funds=-"));
            expect_ok(ses, sut, "purge sender=30 funds=-");
        }
        _ => {
            // zero creation fee (`must_pay` still wants a coin) and zero shuffle fee
            h.cfee = (0, 0);
            h.shuf = (0, 0);
            ses.begin_case(sut, &h.line(g, "special k=zero-fees"));
            fund_std(ses, sut);
            sources_std(ses, sut, 1);
            let c = CreateSpec::basic(g.cc[0], s, 5, 2, &req);
            expect_err(ses, sut, &CreateSpec { funds: "-".into(), ..c.clone() }.line());
            step(ses, sut, &CreateSpec { funds: "0:0".into(), ..c.clone() }.line());
            let ok = step(ses, sut, &CreateSpec { funds: "0:1".into(), ..c.clone() }.line());
            mk(ses, format!("special/zero-cfee/pay1-{}", if ok { "ok" } else { "err" }));
            if !ok {
                expect_ok(ses, sut, "sudo_params cfee=0:2");
                expect_ok(ses, sut, &CreateSpec { funds: "0:2".into(), ..c.clone() }.line());
            }
            let ok = step(ses, sut, "shuffle sender=20 funds=-");
            mk(ses, format!("special/zero-shuf/nofunds-{}", if ok { "ok" } else { "err" }));
            let ok = step(ses, sut, "shuffle sender=20 funds=0:5");
            mk(ses, format!("special/zero-shuf/pay5-{}", if ok { "ok" } else { "err" }));
        }
    }
    ses.end_case();
}

// ------------------------------------------------------------------------------------------------ random walks

fn fund_all(ses: &mut Session, sut: &mut S, g: &mut G, second_denom: bool) {
    step(ses, sut, &format!("fund a={ADMIN} d=0 amt=1000000000000"));
    for b in [20u64, 21, 22, STRANGER] {
        step(ses, sut, &format!("fund a={b} d=0 amt=100000000000"));
    }
    let a23 = *g.rng.pick(&[0u128, 50_000_000, 100_000_000_000, 100_000_000_000, 100_000_000_000, 100_000_000_000]);
    if a23 > 0 {
        step(ses, sut, &format!("fund a=23 d=0 amt={a23}"));
    }
    if second_denom {
        for b in [ADMIN, 20, 21] {
            step(ses, sut, &format!("fund a={b} d=1 amt=100000000000"));
        }
    }
}

const MTOK_SHAPES: [&[(u64, u64)]; 14] = [
    &[(2001, 1)],
    &[(2001, 1)],
    &[(2001, 1), (2002, 1)],
    &[(2001, 1), (2002, 2)],
    &[(2001, 2)],
    &[(2002, 1), (2001, 2)],
    &[(2001, 1), (2001, 3)],
    &[(2001, 2), (2001, 1)],
    &[(2001, 0)],
    &[(2001, 1), (2002, 0)],
    &[],
    &[(23, 1), (2001, 1)],
    &[(2009, 1), (2001, 1)],
    &[(2001, 1), (2002, 1), (2003, 1)],
];

fn valid_create(sut: &S, g: &mut G, start: u64) -> CreateSpec {
    let l = &sut.last;
    let colls: Vec<u64> = l.f_allowed.iter().cloned().filter(|c| g.cc.contains(c)).collect();
    let good: Vec<u64> = colls.iter().cloned().filter(|c| *c != g.cc[3]).collect();
    // a collection that cannot take the minter's `Mint` never mints: keep it rare
    let code = if colls.is_empty() {
        g.cc[0]
    } else if !good.is_empty() && g.rng.chance(9, 10) {
        *g.rng.pick(&good)
    } else {
        *g.rng.pick(&colls)
    };
    let ntok = (2 + g.rng.below(9)).min(l.maxtok.max(1));
    let limit = (1 + g.rng.below(3)).min(l.maxper.max(1));
    let mtok = if g.rng.chance(2, 3) { MTOK_SHAPES[g.rng.below(6) as usize].to_vec() } else { g.rng.pick(&MTOK_SHAPES).to_vec() };
    CreateSpec { sender: ADMIN, funds: fee_funds(l.cfee), code, creator: ADMIN, trading: None, uri: true, start, ntok, limit, mtok, collok: true }
}

/// one single-fault (or boundary) mutation of an otherwise valid CreateMinter
fn mutate_create(sut: &S, g: &mut G, c: &mut CreateSpec) -> &'static str {
    let l = sut.last.clone();
    let bound_t = l.offset.saturating_mul(SEC).saturating_add(c.start);
    match g.rng.below(28) {
        0 => {
            c.funds = if l.cfee.1 > 1 { format!("{}:{}", l.cfee.0, l.cfee.1 - 1) } else { "-".into() };
            "fee-1"
        }
        1 => {
            c.funds = format!("{}:{}", l.cfee.0, l.cfee.1 + 1 + g.rng.below(1000) as u128);
            "fee+"
        }
        2 => {
            c.funds = format!("{}:{}", 1 - l.cfee.0.min(1), l.cfee.1.max(1));
            "fee-denom"
        }
        3 => {
            c.funds = format!("{}:{},{}:7", l.cfee.0, l.cfee.1.max(1), 1 - l.cfee.0.min(1));
            "fee-two-coins"
        }
        4 => {
            c.funds = "-".into();
            "fee-none"
        }
        5 => {
            c.code = *g.rng.pick(&[9999u64, g.mc[0], 1]);
            "code-not-allowed"
        }
        6 => {
            c.ntok = 0;
            "ntok-0"
        }
        7 => {
            c.ntok = l.maxtok + 1;
            "ntok-max+1"
        }
        8 => {
            if l.maxtok <= 150 {
                c.ntok = l.maxtok;
            }
            "ntok-max"
        }
        9 => {
            c.limit = 0;
            "limit-0"
        }
        10 => {
            c.limit = l.maxper + 1;
            "limit-max+1"
        }
        11 => {
            c.limit = l.maxper.min(60);
            "limit-max"
        }
        12 => {
            c.limit = 4;
            "limit-4"
        }
        13 => {
            c.limit = 3;
            "limit-3"
        }
        14 => {
            c.uri = false;
            "uri"
        }
        15 => {
            c.start = l.now.saturating_sub(1);
            "start-now-1"
        }
        16 => {
            c.start = l.now;
            "start-now"
        }
        17 => {
            c.start = l.now + 1;
            "start-now+1"
        }
        18 => {
            c.trading = Some(bound_t + 1);
            "trading-bound+1"
        }
        19 => {
            c.trading = Some(bound_t);
            "trading-bound"
        }
        20 => {
            c.collok = false;
            "coll-bad"
        }
        21 => {
            c.sender = POOR;
            "sender-poor"
        }
        22 => {
            c.creator = STRANGER;
            "creator-other"
        }
        23 => {
            c.trading = Some(c.start.saturating_sub(10));
            "trading-early"
        }
        24 => {
            c.start = GENESIS - 1;
            "start-genesis-1"
        }
        25 => {
            c.ntok = 100 + g.rng.below(40);
            c.limit = *g.rng.pick(&[3u64, 4, 5]);
            "ntok-big"
        }
        26 => {
            c.funds = format!("{}:0", l.cfee.0);
            "fee-zero-coin"
        }
        _ => {
            c.code = g.cc[3];
            "coll-metadata"
        }
    }
}

fn interesting_instants(sut: &S) -> Vec<u64> {
    let l = &sut.last;
    let mut v = vec![];
    if l.exists {
        v.push(l.start);
        v.push(l.start.saturating_add(l.offset.saturating_mul(SEC)));
        if let Some(t) = l.trading {
            v.push(t);
        }
    }
    v.sort();
    v.dedup();
    v
}
fn sender_or_stranger(g: &mut G, proper: u64) -> u64 {
    if g.rng.chance(1, 9) {
        *g.rng.pick(&[STRANGER, 21])
    } else {
        proper
    }
}
fn np_funds(g: &mut G) -> &'static str {
    if g.rng.chance(1, 14) {
        "0:1"
    } else {
        "-"
    }
}
fn do_time(ses: &mut Session, sut: &mut S, g: &mut G) {
    let now = sut.last.now;
    let inst = interesting_instants(sut);
    let mut cands: Vec<u64> = inst.iter().flat_map(|t| [t.saturating_sub(1), *t, t + 1]).filter(|t| *t > now).collect();
    cands.sort();
    cands.dedup();
    let t = if !cands.is_empty() && g.rng.chance(3, 5) {
        cands[(g.rng.below(4) as usize).min(cands.len() - 1)]
    } else if g.rng.chance(1, 10) {
        now.saturating_sub(1 + g.rng.below(5)) // the clock never runs backwards: refused on both sides
    } else if g.rng.chance(1, 10) {
        now // next block, same time
    } else {
        now + 1 + g.rng.below(300)
    };
    step(ses, sut, &format!("t now={t}"));
}

/// a deposit: mostly by an owner towards the minter; `fault` adds one deviation
fn do_send(ses: &mut Session, sut: &mut S, g: &mut G, fault: bool) {
    let l = sut.last.clone();
    let target = if l.exists { l.maddr } else { 1000 };
    // all source tokens held by accounts
    let mut held: Vec<(u64, u64, u64)> = vec![];
    for (c, v) in &l.src_toks {
        for (id, o) in v {
            if *o < 1000 {
                held.push((*c, *id, *o));
            }
        }
    }
    if held.is_empty() {
        step(ses, sut, &send_line(20, 2001, 1, target, None, 0));
        return;
    }
    // prefer a token that moves some recipient towards a mint
    let useful: Vec<(u64, u64, u64)> = held.iter().cloned().filter(|(c, _, o)| matches!(l.req_of(*c), Some(n) if l.dep_of(*o, *c) < n) && l.ma_of(*o) < l.limit).collect();
    let (c, id, o) = if !useful.is_empty() && g.rng.chance(4, 5) { *g.rng.pick(&useful) } else { *g.rng.pick(&held) };
    let rcpt = match g.rng.below(8) {
        0 => Some(*g.rng.pick(&BUYERS)),
        1 => Some(o),
        2 if g.rng.chance(1, 3) => Some(*g.rng.pick(&[STRANGER, ADMIN, l.maddr.max(1)])),
        _ => None,
    };
    if !fault {
        step(ses, sut, &send_line(o, c, id, target, rcpt, 0));
        return;
    }
    let line = match g.rng.below(8) {
        0 => send_line(*g.rng.pick(&[STRANGER, 20, 21, 22]), c, id, target, rcpt, 0), // most likely not the owner
        1 => send_line(o, c, id, *g.rng.pick(&[1000u64, 22, 2001, 2002, l.caddr.max(1), 2009]), rcpt, 0),
        2 => send_line(o, c, id, target, rcpt, 1 + g.rng.below(3)),
        3 => {
            let free: Vec<u64> = (1..=IDS + 9).filter(|i| l.src_owner(c, *i).is_none()).collect();
            send_line(o, c, *g.rng.pick(&free), target, rcpt, 0)
        }
        4 => send_line(o, *g.rng.pick(&[2009u64, 23, 2003]), id, target, rcpt, 0),
        5 => {
            // same token twice in a row (the second has no owner any more, or is a surplus)
            step(ses, sut, &send_line(o, c, id, target, rcpt, 0));
            send_line(o, c, id, target, rcpt, 0)
        }
        6 => {
            // a foreign collection's token
            match held.iter().find(|(x, _, _)| l.req_of(*x).is_none()) {
                Some((x, i, w)) => send_line(*w, *x, *i, target, rcpt, 0),
                None => send_line(o, c, id, target, Some(STRANGER), 0),
            }
        }
        _ => send_line(o, c, id, target, rcpt, 0),
    };
    step(ses, sut, &line);
}

fn do_src_give(ses: &mut Session, sut: &mut S, g: &mut G) {
    let l = sut.last.clone();
    let c = if l.deployed.is_empty() || g.rng.chance(1, 12) { *g.rng.pick(&SRCS) } else { *g.rng.pick(&l.deployed) };
    let free: Vec<u64> = (1..=IDS).filter(|i| l.src_owner(c, *i).is_none()).collect();
    let id = if free.is_empty() || g.rng.chance(1, 10) { 1 + g.rng.below(IDS) } else { *g.rng.pick(&free) };
    let to = if g.rng.chance(1, 15) && l.exists { l.maddr } else if g.rng.chance(1, 10) { STRANGER } else { *g.rng.pick(&BUYERS) };
    step(ses, sut, &format!("src_give coll={c} id={id} to={to}"));
}
fn do_src_transfer(ses: &mut Session, sut: &mut S, g: &mut G) {
    let l = sut.last.clone();
    let mut held: Vec<(u64, u64, u64)> = vec![];
    for (c, v) in &l.src_toks {
        for (id, o) in v {
            held.push((*c, *id, *o));
        }
    }
    if held.is_empty() {
        step(ses, sut, "src_transfer sender=20 coll=2001 id=1 to=21");
        return;
    }
    let (c, id, o) = *g.rng.pick(&held);
    let s = if g.rng.chance(1, 5) { *g.rng.pick(&[STRANGER, 20, 21]) } else { o };
    let to = if g.rng.chance(1, 8) && l.exists { l.maddr } else { *g.rng.pick(&[20u64, 21, 22, 23, 30]) };
    step(ses, sut, &format!("src_transfer sender={s} coll={c} id={id} to={to}"));
}
fn do_receive(ses: &mut Session, sut: &mut S, g: &mut G) {
    let l = sut.last.clone();
    let from = *g.rng.pick(&BUYERS);
    if l.exists && g.rng.chance(1, 4) {
        // the harness speaking as a source contract: a token parked at the minter if there is one
        let mut parked: Vec<(u64, u64)> = vec![];
        for (c, v) in &l.src_toks {
            for (id, o) in v {
                if *o == l.maddr {
                    parked.push((*c, *id));
                }
            }
        }
        let (c, id) = if !parked.is_empty() && g.rng.chance(4, 5) { *g.rng.pick(&parked) } else { (*g.rng.pick(&[2001u64, 2002]), 1 + g.rng.below(IDS)) };
        let rcpt = if g.rng.chance(1, 3) { Some(*g.rng.pick(&BUYERS)) } else { None };
        step(ses, sut, &recv_line(c, from, id, rcpt, 0));
        return;
    }
    let caller = *g.rng.pick(&[23u64, 23, STRANGER, ADMIN, 20, 2009]);
    let rcpt = if g.rng.chance(1, 3) { Some(*g.rng.pick(&BUYERS)) } else { None };
    let bad = if g.rng.chance(1, 6) { 1 + g.rng.below(3) } else { 0 };
    step(ses, sut, &recv_line(caller, from, 1 + g.rng.below(IDS), rcpt, bad));
}

fn do_sudo_params(ses: &mut Session, sut: &mut S, g: &mut G) {
    let l = sut.last.clone();
    let line = match g.rng.below(20) {
        0 => format!("sudo_params airp=0:{}", g.rng.pick(&[0u128, 1, 3, 40, 7_000_000, 50_000_000])),
        1 => format!("sudo_params airp=1:{}", g.rng.pick(&[0u128, 5, 4_000_000])),
        2 => format!("sudo_params shuf={}", g.rng.pick(&["0:0", "0:1", "0:500000000", "1:5", "1:0"])),
        3 => format!("sudo_params cfee={}", g.rng.pick(&["1:1000", "0:5000000000", "0:2", "0:1", "0:0", "1:0"])),
        4 => format!("sudo_params frozen={}", g.rng.below(2)),
        5 => {
            let c = *g.rng.pick(&[g.cc[0], g.cc[1], g.cc[2], g.cc[3], 9999, g.mc[0]]);
            format!("sudo_params addc={c},{c},{}", g.rng.pick(&[g.cc[0], 7777]))
        }
        6 => format!("sudo_params rmc={}", g.rng.pick(&[g.cc[0], g.cc[1], g.cc[3], 7777])),
        7 => format!("sudo_params addc={} rmc={}", g.cc[2], g.cc[2]),
        8 => format!("sudo_params offset={}", g.rng.pick(&[0u64, 1, 2, 60, 604_800])),
        9 => format!("sudo_params maxtok={}", g.rng.pick(&[1u64, 5, 12, 150, 10_000])),
        10 | 11 => format!("sudo_params maxper={}", g.rng.pick(&[1u64, 2, 3, 5, 50])),
        12 | 13 => format!("sudo_params airbps={}", g.rng.pick(&[0u64, 1, 2500, 5000, 9999, 10_000, 10_001])),
        14 => format!("sudo_params code={}", g.rng.pick(&[g.mc[0], g.mc[0], 9999, g.non_minter[0], g.non_minter[3]])),
        15 => "sudo_params".to_string(),
        16 => format!("sudo_params airbps={} shuf=1:9 maxtok=77", l.airbps + 1), // one bad denom: nothing at all is saved
        17 => format!("sudo_params airp=0:0 airbps={}", g.rng.pick(&[0u64, 10_000])),
        18 => format!("sudo_params maxper={} airp=1:1", l.maxper + 1),
        _ => format!("sudo_params code={} frozen=0 cfee={} offset={} maxtok={} maxper={} airp={} airbps={} shuf={} addc=- rmc=-", l.f_code, rc(l.cfee), l.offset, l.maxtok, l.maxper, rc(l.airp), l.airbps, rc(l.shuf)),
    };
    step(ses, sut, &line);
}

fn do_coll_op(ses: &mut Session, sut: &mut S, g: &mut G) {
    let l = sut.last.clone();
    if !l.exists {
        step(ses, sut, &format!("c_freeze sender={ADMIN}"));
        return;
    }
    let owner_of_some = l.toks.first().cloned();
    match g.rng.below(12) {
        0 | 1 => {
            if let Some((id, o)) = if l.toks.is_empty() { None } else { Some(*g.rng.pick(&l.toks)) } {
                let s = if g.rng.chance(1, 5) { STRANGER } else { o };
                step(ses, sut, &format!("c_transfer sender={s} id={id} to={}", g.rng.pick(&[20u64, 21, 30, 22])));
            } else {
                step(ses, sut, "c_transfer sender=20 id=1 to=21");
            }
        }
        2 => {
            if let Some((id, o)) = owner_of_some {
                let s = if g.rng.chance(1, 3) { STRANGER } else { o };
                step(ses, sut, &format!("c_burn sender={s} id={id}"));
            } else {
                step(ses, sut, &format!("c_burn sender=20 id={}", 1 + g.rng.below(4)));
            }
        }
        3 | 4 => {
            let s = *g.rng.pick(&[l.maddr, l.maddr, ADMIN, STRANGER]);
            let t = match g.rng.below(4) {
                0 => "-".to_string(),
                1 => l.now.to_string(),
                2 => (l.now + 1000).to_string(),
                _ => l.now.saturating_sub(5).to_string(),
            };
            step(ses, sut, &format!("c_trading sender={s} t={t}"));
        }
        5 | 6 => {
            let s = *g.rng.pick(&[l.creator, l.creator, ADMIN, STRANGER]);
            step(ses, sut, &format!("c_creator sender={s} new={}", g.rng.pick(&[ADMIN, STRANGER, 21])));
        }
        7 => {
            let s = *g.rng.pick(&[l.creator, l.creator, STRANGER]);
            step(ses, sut, &format!("c_freeze sender={s}"));
        }
        _ => {
            let own = l.owner.unwrap_or(l.maddr);
            match g.rng.below(6) {
                0 | 1 => {
                    let s = if g.rng.chance(1, 4) { STRANGER } else { own };
                    step(ses, sut, &format!("c_own sender={s} act=transfer new={}", g.rng.pick(&[STRANGER, 21, l.maddr])));
                }
                2 | 3 => {
                    let s = l.pending.unwrap_or(STRANGER);
                    step(ses, sut, &format!("c_own sender={s} act=accept new=0"));
                }
                4 => {
                    step(ses, sut, "c_own sender=22 act=accept new=0");
                }
                _ => {
                    let s = if g.rng.chance(1, 2) { STRANGER } else { own };
                    if g.rng.chance(1, 4) {
                        step(ses, sut, &format!("c_own sender={s} act=renounce new=0"));
                    } else {
                        step(ses, sut, &format!("c_own sender={s} act=transfer new={}", l.maddr));
                    }
                }
            }
        }
    }
}


// ------------------------------------------------------------------------------------------------ SYSTEM generators (new in compsystm)

/// step + mark `<class>/<ok|err>`
fn xstep(ses: &mut Session, sut: &mut S, line: &str, class: &str) -> bool {
    let ok = step(ses, sut, line);
    mk(ses, format!("{class}/{}", if ok { "ok" } else { "err" }));
    ok
}

/// who may currently move token `id` of collection `c` is not tracked by `Last`; the generators remember what they granted
fn exp_pick(g: &mut G, l: &Last) -> String {
    match g.rng.below(7) {
        0 => "-".into(),
        1 => "n".into(),
        2 => format!("h{}", l.height + 1 + g.rng.below(3)),
        3 => format!("h{}", l.height), // already expired: refused
        4 => format!("t{}", l.now + 1 + g.rng.below(400)),
        5 => format!("t{}", l.now), // already expired
        _ => format!("t{}", l.start + 1 + g.rng.below(50)),
    }
}

/// one random collection message on a source collection or on the target
fn do_x_op(ses: &mut Session, sut: &mut S, g: &mut G) {
    let l = sut.last.clone();
    let mut colls: Vec<u64> = l.deployed.clone();
    if l.exists {
        colls.push(l.caddr);
    }
    if colls.is_empty() || g.rng.chance(1, 25) {
        colls.push(*g.rng.pick(&[2009u64, 23, 1000]));
    }
    let c = *g.rng.pick(&colls);
    let toks: Vec<(u64, u64)> = if l.exists && c == l.caddr { l.toks.clone() } else { l.src_toks.get(&c).cloned().unwrap_or_default() };
    let (id, o) = if toks.is_empty() || g.rng.chance(1, 12) { (1 + g.rng.below(IDS + 1), *g.rng.pick(&BUYERS)) } else { *g.rng.pick(&toks) };
    let actor = match g.rng.below(6) {
        0 => *g.rng.pick(&BUYERS),
        1 => STRANGER,
        _ => o,
    };
    let funds = if g.rng.chance(1, 20) { "0:1" } else { "-" };
    let other = *g.rng.pick(&[20u64, 21, 22, 23, 30]);
    let kind = if l.exists && c == l.caddr { "tgt".to_string() } else { l.src_kind.get(&c).cloned().unwrap_or("none".into()) };
    let pre = format!("coll={c} s={actor} funds={funds}");
    match g.rng.below(20) {
        0..=3 => {
            let sp = if g.rng.chance(1, 10) && l.exists { l.maddr } else { other };
            xstep(ses, sut, &format!("x_approve {pre} sp={sp} id={id} exp={}", exp_pick(g, &l)), &format!("x/{kind}/approve"));
        }
        4..=5 => {
            xstep(ses, sut, &format!("x_approve_all {pre} op={other} exp={}", exp_pick(g, &l)), &format!("x/{kind}/approve_all"));
        }
        6 => {
            xstep(ses, sut, &format!("x_revoke {pre} sp={other} id={id}"), &format!("x/{kind}/revoke"));
        }
        7 => {
            xstep(ses, sut, &format!("x_revoke_all {pre} op={other}"), &format!("x/{kind}/revoke_all"));
        }
        8..=10 => {
            let to = if g.rng.chance(1, 10) && l.exists { l.maddr } else { other };
            xstep(ses, sut, &format!("x_transfer {pre} to={to} id={id}"), &format!("x/{kind}/transfer"));
        }
        11..=12 => {
            xstep(ses, sut, &format!("x_burn {pre} id={id}"), &format!("x/{kind}/burn"));
        }
        13 => {
            // a receiver that is not the minter: the factory, an account, another collection (none has a hook)
            let to = *g.rng.pick(&[1000u64, 22, 2001, 2002]);
            let to = if l.exists && to == l.maddr { 1000 } else { to };
            xstep(ses, sut, &format!("x_send {pre} to={to} id={id}"), &format!("x/{kind}/send"));
        }
        14 => {
            let by = *g.rng.pick(&[SRCMINT, SRCMINT, STRANGER, l.maddr.max(1)]);
            // on the TARGET never an id the minter can still hand out: a refused transaction yields no `picked=` witness
            let nid = if kind == "tgt" { 100_001 + g.rng.below(3) } else { IDS + 1 + g.rng.below(3) };
            xstep(ses, sut, &format!("x_mint coll={c} s={by} funds=- id={nid} owner={other} uri={} ext={}", if g.rng.chance(1, 2) { "-".to_string() } else { g.rng.below(5).to_string() }, g.rng.below(3)), &format!("x/{kind}/mint"));
        }
        15 => {
            let by = *g.rng.pick(&[SRCMINT, ADMIN, STRANGER]);
            xstep(ses, sut, &format!("x_uci coll={c} s={by} funds=- desc=- image=- ext=- ec={} roy=- creator={}", g.rng.pick(&["-", "0", "1"]), g.rng.pick(&["-", "21", "91"])), &format!("x/{kind}/uci"));
        }
        16 => {
            let by = *g.rng.pick(&[SRCMINT, ADMIN, STRANGER]);
            let line = match g.rng.below(4) {
                0 => format!("x_freeze coll={c} s={by} funds=-"),
                1 => format!("x_ustt coll={c} s={by} funds=- t={}", l.now + 5),
                2 => format!("x_own_transfer coll={c} s={by} funds=- to={other} exp=-"),
                _ => format!("x_own_accept coll={c} s={other} funds=-"),
            };
            xstep(ses, sut, &line, &format!("x/{kind}/admin"));
        }
        17 => {
            let line = match g.rng.below(4) {
                0 => format!("x_freeze_meta coll={c} s={SRCMINT} funds=-"),
                1 => format!("x_utm coll={c} s={SRCMINT} funds=- id={id} uri=7"),
                2 => format!("x_enable coll={c} s={SRCMINT} funds=-"),
                _ => format!("x_extension coll={c} s={actor} funds=-"),
            };
            xstep(ses, sut, &line, &format!("x/{kind}/upd"));
        }
        _ => {
            // next block(s): height and time move (approvals / operator grants expire)
            let h = l.height + g.rng.below(3);
            let t = if g.rng.chance(1, 12) { l.now.saturating_sub(1) } else { l.now + g.rng.below(200) };
            xstep(ses, sut, &format!("blk h={h} t={t}"), "x/blk");
        }
    }
}

/// a deposit by somebody who is (perhaps) not the owner: approved spender, operator, stranger
fn do_send_by_other(ses: &mut Session, sut: &mut S, g: &mut G) {
    let l = sut.last.clone();
    if !l.exists {
        return;
    }
    let mut held: Vec<(u64, u64, u64)> = vec![];
    for (c, v) in &l.src_toks {
        for (id, o) in v {
            if *o < 1000 {
                held.push((*c, *id, *o));
            }
        }
    }
    if held.is_empty() {
        return;
    }
    let (c, id, o) = *g.rng.pick(&held);
    let by = *g.rng.pick(&[20u64, 21, 22, 23, 30]);
    // make the sender an approved spender / operator first (2 of 3)
    match g.rng.below(3) {
        0 => {
            xstep(ses, sut, &format!("x_approve coll={c} s={o} funds=- sp={by} id={id} exp={}", exp_pick(g, &l)), "x/src/approve-for-deposit");
        }
        1 => {
            xstep(ses, sut, &format!("x_approve_all coll={c} s={o} funds=- op={by} exp={}", exp_pick(g, &l)), "x/src/operator-for-deposit");
        }
        _ => {}
    }
    let rcpt = match g.rng.below(4) {
        0 => Some(o),
        1 => Some(*g.rng.pick(&BUYERS)),
        _ => None,
    };
    let who = if by == o { "owner" } else { "other" };
    xstep(ses, sut, &send_line(by, c, id, l.maddr, rcpt, 0), &format!("sys/send-by/{who}"));
}

/// Deterministic SYSTEM tour: source collections of kind `sk` (2001, 2002) + an sg721-nt source (2003); target kind `ck`.
/// Approved spenders, operators, expiries by height and by time, holder traffic between deposits, the start boundary,
/// sell-out by a completing deposit, the per-address limit, MintTo / MintFor / Shuffle in between.
fn sys_tour(ses: &mut Session, sut: &mut S, g: &mut G, sk: &str, ck: usize) {
    let now = GENESIS + 2_000_000 + 1000 * ck as u64;
    let s = now + 5000;
    let h = Hdr::std(now, g.mc[0], &g.cc);
    let mints = ck != 3;
    ses.begin_case(sut, &h.line(g, &format!("systour sk={sk} ck={ck}")));
    fund_std(ses, sut);
    let t = format!("sys/{sk}/ck{ck}");
    // ---- source collections
    xstep(ses, sut, &format!("src_new coll=2001 kind={sk} s=20 minter={SRCMINT}"), &format!("{t}/src_new/by-account")); // sg721 wants a contract
    xstep(ses, sut, &format!("src_new coll=2001 kind={sk} s=1000 minter={SRCMINT}"), &format!("{t}/src_new/fresh"));
    xstep(ses, sut, &format!("src_new coll=2001 kind={sk} s=1000 minter={SRCMINT}"), &format!("{t}/src_new/taken"));
    xstep(ses, sut, &format!("src_new coll=2002 kind={sk} s=1000 minter={SRCMINT}"), &format!("{t}/src_new/fresh"));
    xstep(ses, sut, &format!("src_new coll=2003 kind=nt s=1000 minter={SRCMINT}"), &format!("{t}/src_new/nt"));
    for c in [2001u64, 2002] {
        for id in 1..=IDS {
            expect_ok(ses, sut, &format!("src_give coll={c} id={id} to={}", if id <= 5 { 20 } else { 21 }));
        }
    }
    expect_ok(ses, sut, "src_give coll=2003 id=1 to=20");
    xstep(ses, sut, "src_give coll=2001 id=9 to=20 s=30", &format!("{t}/src_give/stranger")); // only the source's minter mints
    // ---- the minter: 2001 x1 + 2002 x1, three tokens, limit 2
    expect_ok(ses, sut, &CreateSpec::basic(g.cc[ck], s, 3, 2, &[(2001, 1), (2002, 1)]).line());
    let m = sut.last.maddr;
    let tg = sut.last.caddr;
    let hh = sut.last.height;
    // ---- approvals and operators granted before the start
    xstep(ses, sut, &format!("x_approve coll=2001 s=20 funds=- sp=22 id=1 exp=-"), &format!("{t}/approve/owner"));
    xstep(ses, sut, &format!("x_approve coll=2001 s=30 funds=- sp=22 id=2 exp=-"), &format!("{t}/approve/stranger"));
    xstep(ses, sut, &format!("x_approve_all coll=2001 s=20 funds=- op=23 exp=h{}", hh + 3), &format!("{t}/approve_all/height"));
    xstep(ses, sut, &format!("x_approve coll=2002 s=20 funds=- sp=22 id=1 exp=t{}", s + 50), &format!("{t}/approve/time"));
    xstep(ses, sut, &format!("x_approve coll=2002 s=20 funds=- sp=22 id=4 exp=n"), &format!("{t}/approve/never"));
    xstep(ses, sut, &format!("x_revoke coll=2002 s=20 funds=- sp=22 id=4"), &format!("{t}/revoke/owner"));
    xstep(ses, sut, &format!("x_approve coll=2001 s=23 funds=- sp=30 id=3 exp=-"), &format!("{t}/approve/by-operator")); // an operator may approve
    // ---- the start boundary: −1 ns, 0, +1 ns
    expect_ok(ses, sut, &format!("t now={}", s - 1));
    xstep(ses, sut, &send_line(20, 2001, 5, m, None, 0), &format!("{t}/deposit/start-1"));
    expect_ok(ses, sut, &format!("t now={s}"));
    xstep(ses, sut, &send_line(20, 2001, 5, m, None, 0), &format!("{t}/deposit/start+0"));
    expect_ok(ses, sut, &format!("t now={}", s + 1));
    // ---- who may deposit
    xstep(ses, sut, &send_line(30, 2001, 2, m, None, 0), &format!("{t}/deposit/stranger"));
    xstep(ses, sut, &send_line(21, 2001, 2, m, Some(21), 0), &format!("{t}/deposit/other-holder"));
    // approved spender, recipient omitted: the credit goes to the SPENDER (cw721 reports the message sender)
    xstep(ses, sut, &send_line(22, 2001, 1, m, None, 0), &format!("{t}/deposit/spender/rcpt-omitted"));
    // operator, recipient given
    xstep(ses, sut, &send_line(23, 2001, 2, m, Some(20), 0), &format!("{t}/deposit/operator/rcpt-given"));
    // the spender approved BY THE OPERATOR
    xstep(ses, sut, &send_line(30, 2001, 3, m, Some(30), 0), &format!("{t}/deposit/spender-of-operator"));
    // the operator grant expires by height
    xstep(ses, sut, &format!("blk h={} t={}", hh + 3, s + 2), &format!("{t}/blk"));
    xstep(ses, sut, &send_line(23, 2001, 4, m, Some(20), 0), &format!("{t}/deposit/operator-expired"));
    // surplus for 20 (already holds 1 of 1 of 2001)
    xstep(ses, sut, &send_line(20, 2001, 4, m, None, 0), &format!("{t}/deposit/surplus"));
    // wrong collection: the nt source is not listed (and sg721-nt has no SendNft)
    xstep(ses, sut, &send_line(20, 2003, 1, m, None, 0), &format!("{t}/deposit/unlisted-nt"));
    // ---- holder traffic between deposits
    xstep(ses, sut, &format!("x_transfer coll=2002 s=20 funds=- to=21 id=2"), &format!("{t}/holder/transfer"));
    xstep(ses, sut, &format!("x_burn coll=2002 s=20 funds=- id=3"), &format!("{t}/holder/burn"));
    xstep(ses, sut, &send_line(20, 2002, 3, m, None, 0), &format!("{t}/deposit/burned-token"));
    xstep(ses, sut, &send_line(20, 2002, 2, m, None, 0), &format!("{t}/deposit/transferred-away"));
    xstep(ses, sut, &send_line(22, 2002, 4, m, None, 0), &format!("{t}/deposit/revoked-spender"));
    // the spender of 2002#1 completes ITS OWN requirement (22 holds the 2001 credit): mint to 22
    xstep(ses, sut, &send_line(22, 2002, 1, m, None, 0), &format!("{t}/deposit/spender/completes"));
    // 21 completes for 20 with the transferred token: mint to 20
    xstep(ses, sut, &send_line(21, 2002, 2, m, Some(20), 0), &format!("{t}/deposit/holder/completes-for-other"));
    // time-bound approval: 2002#5 approved until s+50, used at s+50 exactly (expired) and re-approved
    xstep(ses, sut, &format!("x_approve coll=2002 s=20 funds=- sp=22 id=5 exp=t{}", s + 50), &format!("{t}/approve/time"));
    xstep(ses, sut, &format!("blk h={} t={}", hh + 4, s + 49), &format!("{t}/blk"));
    xstep(ses, sut, &send_line(22, 2002, 5, m, Some(30), 0), &format!("{t}/deposit/spender/time-1"));
    xstep(ses, sut, &format!("blk h={} t={}", hh + 5, s + 50), &format!("{t}/blk"));
    xstep(ses, sut, &format!("x_approve coll=2002 s=20 funds=- sp=22 id=4 exp=t{}", s + 50), &format!("{t}/approve/expired-now"));
    // ---- admin traffic in between: Shuffle, MintFor of the last id; then 30 completes at the sell-out
    xstep(ses, sut, &format!("shuffle sender=21 funds=0:500000000"), &format!("{t}/shuffle"));
    if let Some(id) = sut.last.pos.last().map(|p| p.1) {
        if sut.last.left > 1 {
            xstep(ses, sut, &format!("mint_for sender={ADMIN} funds=0:5000000 id={id} rcpt=23"), &format!("{t}/mint_for"));
        }
    }
    while sut.last.left > 1 {
        if !xstep(ses, sut, &format!("mint_to sender={ADMIN} funds=0:5000000 rcpt=23"), &format!("{t}/mint_to")) {
            break;
        }
    }
    // 30 holds 2001 (spender-of-operator) + 2002 (time-1) credits? it needs one of each: whichever is missing is deposited now
    let l = sut.last.clone();
    if l.dep_of(30, 2001) == 0 {
        xstep(ses, sut, &send_line(21, 2001, 6, m, Some(30), 0), &format!("{t}/deposit/fill-2001"));
    }
    if l.dep_of(30, 2002) == 0 {
        xstep(ses, sut, &send_line(21, 2002, 6, m, Some(30), 0), &format!("{t}/deposit/fill-2002"));
    }
    let l = sut.last.clone();
    mk(ses, format!("{t}/at-sellout/left{}", l.left.min(2)));
    // after the sell-out: a partial deposit is still taken and burned, a completing one is refused
    xstep(ses, sut, &send_line(21, 2001, 7, m, None, 0), &format!("{t}/deposit/after-sellout/partial"));
    xstep(ses, sut, &send_line(21, 2002, 7, m, None, 0), &format!("{t}/deposit/after-sellout/completing"));
    // ---- per-address limit of the recipient (23 received the airdrops)
    xstep(ses, sut, &send_line(21, 2001, 8, m, Some(23), 0), &format!("{t}/deposit/recipient-at-limit"));
    // ---- the target collection: holders of the merged tokens use approvals too
    if let Some((id, o)) = sut.last.toks.first().cloned() {
        xstep(ses, sut, &format!("x_approve coll={tg} s={o} funds=- sp=21 id={id} exp=-"), &format!("{t}/target/approve"));
        xstep(ses, sut, &format!("x_transfer coll={tg} s=21 funds=- to=30 id={id}"), &format!("{t}/target/transfer-by-spender"));
        // a merged token sent to the minter: the target collection is not a listed source
        xstep(ses, sut, &send_line(30, tg, id, m, None, 0), &format!("{t}/target/send-to-minter"));
        xstep(ses, sut, &format!("x_burn coll={tg} s=30 funds=- id={id}"), &format!("{t}/target/burn"));
    }
    // direct calls of the hook by users
    xstep(ses, sut, &recv_line(20, 20, 8, None, 0), &format!("{t}/receive/user"));
    xstep(ses, sut, &recv_line(2001, 21, 8, None, 0), &format!("{t}/receive/as-collection/not-owned-by-minter"));
    let _ = mints;
    ses.end_case();
}

/// 0 no minter, 1 not yet open (now <= start), 2 open, 3 nothing left
fn phase_of(l: &Last) -> u8 {
    if !l.exists {
        0
    } else if l.left == 0 {
        3
    } else if l.now <= l.start {
        1
    } else {
        2
    }
}

fn do_mint_to(ses: &mut Session, sut: &mut S, g: &mut G) {
    let l = sut.last.clone();
    let s = sender_or_stranger(g, if l.exists { l.admin } else { ADMIN });
    let funds = if g.rng.chance(1, 6) { mut_funds(&mut g.rng, l.airp) } else { funds_str(Some(l.airp)) };
    step(ses, sut, &format!("mint_to sender={s} funds={funds} rcpt={}", g.rng.pick(&[20u64, 21, 22, 30, 23])));
}

/// one random step of the walk
fn rand_op(ses: &mut Session, sut: &mut S, g: &mut G) {
    let l = sut.last.clone();
    let admin = if l.exists { l.admin } else { ADMIN };
    let phase = phase_of(&l);
    if g.rng.chance(2, 9) {
        do_x_op(ses, sut, g);
        return;
    }
    if phase >= 2 && g.rng.chance(1, 9) {
        do_send_by_other(ses, sut, g);
        return;
    }
    let mut r = g.rng.below(100);
    for _ in 0..4 {
        let futile = match (phase, r) {
            (0, 10..=34) | (0, 43..=79) | (0, 86..=91) | (0, 96..=99) => true,
            (1, 10..=34) | (1, 43..=45) | (1, 57..=59) | (1, 96..=99) => true,
            (2, 62..=65) | (2, 57..=59) => true,
            (3, 46..=56) | (3, 60..=65) | (3, 74..=77) => true,
            _ => false,
        };
        if futile && g.rng.chance(5, 6) {
            r = g.rng.below(100);
        } else {
            break;
        }
    }
    if phase == 1 && r <= 9 && g.rng.chance(2, 3) {
        // go to the opening: exactly, or one ns around it (the hook wants now > start)
        let t = match g.rng.below(6) {
            0 => l.start.saturating_sub(1),
            1 => l.start,
            _ => l.start + 1,
        };
        step(ses, sut, &format!("t now={}", t.max(l.now)));
        return;
    }
    match r {
        0..=9 => do_time(ses, sut, g),
        10..=34 | 96..=99 => {
            let fault = g.rng.chance(1, 5);
            do_send(ses, sut, g, fault);
        }
        35..=39 => do_src_give(ses, sut, g),
        40..=42 => do_src_transfer(ses, sut, g),
        43..=45 => do_receive(ses, sut, g),
        46..=52 => do_mint_to(ses, sut, g),
        53..=56 => {
            let s = sender_or_stranger(g, admin);
            let funds = if g.rng.chance(1, 6) { mut_funds(&mut g.rng, l.airp) } else { funds_str(Some(l.airp)) };
            let id = match g.rng.below(8) {
                0 => 0,
                1 => l.ntok + 1,
                2 => 1 + g.rng.below(l.ntok.max(1)),
                _ => {
                    if l.pos.is_empty() {
                        1
                    } else {
                        g.rng.pick(&l.pos).1
                    }
                }
            };
            step(ses, sut, &format!("mint_for sender={s} funds={funds} id={id} rcpt={}", g.rng.pick(&[20u64, 21, 22, 30])));
        }
        57..=59 => {
            let f = np_funds(g);
            step(ses, sut, &format!("purge sender={} funds={f}", g.rng.pick(&[STRANGER, ADMIN, 20])));
        }
        60..=61 => {
            let s = sender_or_stranger(g, admin);
            let f = np_funds(g);
            // closes the sale for good: not too early in the walk
            if phase <= 2 && g.rng.chance(3, 4) {
                do_time(ses, sut, g);
            } else {
                step(ses, sut, &format!("burn sender={s} funds={f}"));
            }
        }
        62..=65 => {
            let s = sender_or_stranger(g, admin);
            let f = np_funds(g);
            let c: Vec<u64> = vec![l.now.saturating_sub(1), l.now, l.now + 1, l.start, l.start + 1, l.start.saturating_sub(1), l.start + 37, GENESIS - 1, GENESIS];
            step(ses, sut, &format!("upd_start sender={s} funds={f} t={}", g.rng.pick(&c)));
        }
        66..=69 => {
            let s = sender_or_stranger(g, admin);
            let f = np_funds(g);
            let b = l.start.saturating_add(l.offset.saturating_mul(SEC));
            let t = match g.rng.below(9) {
                0 => "-".to_string(),
                1 => l.now.to_string(),
                2 => l.now.saturating_sub(1).to_string(),
                3 => (l.now + 1).to_string(),
                4 => b.to_string(),
                5 => (b + 1).to_string(),
                6 => b.saturating_sub(1).to_string(),
                7 => l.start.to_string(),
                _ => (l.now + g.rng.below(5000)).to_string(),
            };
            step(ses, sut, &format!("upd_trading sender={s} funds={f} t={t}"));
        }
        70..=73 => {
            let s = sender_or_stranger(g, admin);
            let f = np_funds(g);
            let n = *g.rng.pick(&[0u64, 1, 1, 2, 2, 3, 4, 5, l.maxper, l.maxper + 1, three_pct(l.ntok), three_pct(l.ntok) + 1]);
            step(ses, sut, &format!("upd_limit sender={s} funds={f} n={n}"));
        }
        74..=77 => {
            let s = *g.rng.pick(&[STRANGER, 20, 21, admin]);
            let funds = if g.rng.chance(1, 3) { mut_funds(&mut g.rng, l.shuf) } else { funds_str(Some(l.shuf)) };
            step(ses, sut, &format!("shuffle sender={s} funds={funds}"));
        }
        78..=79 => {
            step(ses, sut, &format!("sudo_status v={} b={} e={}", g.rng.below(2), g.rng.below(2), g.rng.below(2)));
        }
        80..=85 => do_sudo_params(ses, sut, g),
        86..=91 => do_coll_op(ses, sut, g),
        92..=93 => {
            let a = *g.rng.pick(&[20u64, 21, 22, 23, 30, 10]);
            step(ses, sut, &format!("fund a={a} d={} amt={}", g.rng.below(2), g.rng.pick(&[0u128, 1, 100_000_000, 1_000_000_000])));
        }
        94 => {
            step(ses, sut, &format!("inst_direct sender={}", g.rng.pick(&[ADMIN, STRANGER])));
        }
        _ => {
            // another source contract appears
            // (never a number the minter's requirement list already names: its address string was fixed at creation, and
            // cw-multi-test hands out addresses in sequence)
            let cands: Vec<u64> = [2001u64, 2002, 2003].iter().cloned().filter(|c| !l.deployed.contains(c) && l.req_of(*c).is_none()).collect();
            if let Some(c) = cands.first() {
                step(ses, sut, &format!("src_new coll={c} kind={} s=1000 minter={SRCMINT}", g.rng.pick(&["base", "updatable", "onchain"])));
            } else {
                do_src_give(ses, sut, g);
            }
        }
    }
}

/// probes at the current instant that do not move the schedule when they succeed
fn battery(ses: &mut Session, sut: &mut S, g: &mut G) {
    let l = sut.last.clone();
    if !l.exists {
        return;
    }
    do_send(ses, sut, g, false);
    step(ses, sut, &format!("upd_start sender={} funds=- t={}", l.admin, l.start));
    if g.rng.chance(1, 2) {
        do_mint_to(ses, sut, g);
    }
    match g.rng.below(3) {
        0 => {
            step(ses, sut, &format!("upd_limit sender={} funds=- n={}", l.admin, l.limit));
        }
        1 => {
            let t = l.trading.unwrap_or(l.now).max(l.now);
            step(ses, sut, &format!("upd_trading sender={} funds=- t={t}", l.admin));
        }
        _ => {
            step(ses, sut, &format!("upd_trading sender={} funds=- t={}", l.admin, l.now));
        }
    }
}

fn random_case(ses: &mut Session, sut: &mut S, g: &mut G, idx: u64) {
    let early = g.rng.chance(1, 40);
    let now = if early { 5 + g.rng.below(1000) } else { GENESIS + 1_000_000 + g.rng.below(100_000) };
    let s = if early { GENESIS + g.rng.below(2000) } else { now + 300 + g.rng.below(2000) };
    let mut h = Hdr::std(now, g.mc[0], &g.cc);
    match g.rng.below(20) {
        0 => h.code = 9999,
        1 => h.code = *g.rng.pick(&g.non_minter),
        _ => {}
    }
    if g.rng.chance(1, 6) {
        h.cfee = *g.rng.pick(&[(1u64, 1000u128), (0, 2), (0, 1), (0, 0), (0, 3), (1, 0), (1, 1000)]);
    }
    h.offset = *g.rng.pick(&[0u64, 1, 60, 604_800, 604_800]);
    if g.rng.chance(1, 4) {
        h.maxtok = *g.rng.pick(&[3u64, 5, 12, 150]);
    }
    if g.rng.chance(1, 5) {
        h.maxper = *g.rng.pick(&[1u64, 2, 3, 5]);
    }
    if g.rng.chance(1, 3) {
        h.airp = *g.rng.pick(&[(0u64, 0u128), (0, 0), (0, 1), (0, 7_000_000), (0, 50_000_000), (0, 3), (1, 40)]);
    }
    if g.rng.chance(1, 3) {
        h.airbps = *g.rng.pick(&[0u64, 1, 2500, 10_000, 10_000, 10_001]);
    }
    if g.rng.chance(1, 4) {
        h.shuf = *g.rng.pick(&[(0u64, 0u128), (0, 1), (0, 77), (1, 5)]);
    }
    if g.rng.chance(1, 15) {
        h.frozen = true;
    }
    if g.rng.chance(1, 10) {
        h.allowed = match g.rng.below(4) {
            0 => vec![],
            1 => vec![g.cc[0], g.cc[0], g.mc[0]],
            2 => vec![g.cc[1], 9999, g.cc[1], g.cc[2]],
            _ => vec![g.cc[3]],
        };
    }
    let needs_d1 = h.cfee.0 == 1 || h.airp.0 == 1 || g.rng.chance(1, 5);
    ses.begin_case(sut, &h.line(g, &format!("random idx={idx}")));
    fund_all(ses, sut, g, needs_d1);
    // source collections and their tokens
    let kinds = ["base", "base", "updatable", "onchain", "base", "updatable", "onchain", "nt"];
    step(ses, sut, &format!("src_new coll=2001 kind={} s=1000 minter={SRCMINT}", kinds[g.rng.below(7) as usize]));
    if g.rng.chance(9, 10) {
        step(ses, sut, &format!("src_new coll=2002 kind={} s=1000 minter={SRCMINT}", kinds[g.rng.below(7) as usize]));
    }
    if g.rng.chance(1, 2) {
        step(ses, sut, &format!("src_new coll=2003 kind={} s=1000 minter={SRCMINT}", kinds[g.rng.below(8) as usize]));
    }
    for c in sut.last.deployed.clone() {
        for id in 1..=IDS {
            if g.rng.chance(5, 6) {
                let to = if g.rng.chance(1, 2) { 20 } else { *g.rng.pick(&BUYERS) };
                step(ses, sut, &format!("src_give coll={c} id={id} to={to}"));
            }
        }
    }
    // ops without a minter
    if g.rng.chance(1, 4) {
        for _ in 0..(1 + g.rng.below(3)) {
            rand_op(ses, sut, g);
        }
    }
    if g.rng.chance(1, 3) {
        do_sudo_params(ses, sut, g);
    }
    // creation attempts: faults first, then repairs of the factory, then a plainly valid one
    for attempt in 0..5 {
        if sut.last.exists {
            break;
        }
        let start = s.max(sut.last.now);
        let mut c = valid_create(sut, g, start);
        if attempt < 2 && g.rng.chance(1, 3) {
            let what = mutate_create(sut, g, &mut c);
            ses.count(&format!("create-mutation:{what}"));
        }
        if attempt >= 3 {
            c.mtok = MTOK_SHAPES[g.rng.below(4) as usize].to_vec();
        }
        if step(ses, sut, &c.line()) {
            break;
        }
        // repair what the factory refuses
        let l = sut.last.clone();
        if !g.mc.contains(&l.f_code) {
            step(ses, sut, &format!("sudo_params code={}", g.mc[0]));
        }
        if l.f_frozen {
            step(ses, sut, "sudo_params frozen=0");
        }
        if !l.f_allowed.iter().any(|c| g.cc[..3].contains(c)) {
            step(ses, sut, &format!("sudo_params addc={}", fmt_list(&g.cc)));
        }
        if attempt >= 1 && l.cfee.1 < 2 {
            step(ses, sut, "sudo_params cfee=0:5000000000");
        }
        if attempt >= 1 && l.maxper == 0 {
            step(ses, sut, "sudo_params maxper=3");
        }
    }
    // a late switch of the factory's code id must not change what the existing minter is
    if sut.last.exists && g.rng.chance(1, 6) {
        step(ses, sut, &format!("sudo_params code={}", g.rng.pick(&[9999u64, g.non_minter[1]])));
    }
    let steps = 16 + g.rng.below(24);
    let sweep = g.rng.chance(1, 5);
    if sweep && sut.last.exists {
        // boundary sweep: t-1, t, t+1 around every instant, in order
        let mut points: Vec<u64> = vec![];
        for t in interesting_instants(sut) {
            points.extend([t.saturating_sub(1), t, t + 1]);
        }
        points.sort();
        points.dedup();
        let mut n = 0;
        for p in points {
            if p < sut.last.now || n > 9 {
                continue;
            }
            n += 1;
            step(ses, sut, &format!("t now={p}"));
            battery(ses, sut, g);
            if g.rng.chance(1, 3) {
                rand_op(ses, sut, g);
            }
        }
    } else {
        for _ in 0..steps {
            rand_op(ses, sut, g);
            if sut.last.exists && phase_of(&sut.last) >= 3 && g.rng.chance(1, 4) {
                break;
            }
        }
    }
    // finale: sell out through airdrops (or burn what is left), then purge / shuffle / deposits on the closed minter
    if sut.last.exists && g.rng.chance(1, 2) {
        let small = sut.last.left <= 12;
        if small && g.rng.chance(2, 3) {
            let mut guard = 0;
            while sut.last.left != 0 && guard < 14 {
                guard += 1;
                let l = sut.last.clone();
                let ok = step(ses, sut, &format!("mint_to sender={} funds={} rcpt={}", l.admin, funds_str(Some(l.airp)), g.rng.pick(&[20u64, 21, 22])));
                if !ok {
                    break;
                }
            }
        } else {
            let l = sut.last.clone();
            step(ses, sut, &format!("burn sender={} funds=-", l.admin));
        }
        step(ses, sut, &format!("purge sender={STRANGER} funds=-"));
        let l = sut.last.clone();
        if l.now <= l.start {
            step(ses, sut, &format!("t now={}", l.start + 1));
        }
        for _ in 0..3 {
            do_send(ses, sut, g, false);
        }
        step(ses, sut, &format!("shuffle sender=20 funds={}", funds_str(Some(l.shuf))));
        step(ses, sut, &format!("burn sender={} funds=-", l.admin));
        step(ses, sut, &format!("purge sender={STRANGER} funds=-"));
        do_mint_to(ses, sut, g);
    }
    ses.end_case();
}

fn main() {
    let mut ses = Session::new("compsystm");
    let mut sut = S::new();
    if ses.maybe_replay(&mut sut) {
        ses.finish(&mut sut);
    }
    let w = World::new(GENESIS);
    let mut g = G {
        rng: ses.rng.fork(),
        mc: vec![w.codes.minters[MinterKind::TokenMerge.idx()]],
        cc: vec![w.codes.sg721_base, w.codes.sg721_updatable, w.codes.sg721_nt, w.codes.sg721_metadata_onchain],
        non_minter: vec![w.codes.sg721_base, w.codes.token_merge_factory, w.codes.wl[0], w.codes.minters[0], w.codes.minters[6]],
    };
    drop(w);
    // ---- coverage floor (met by the deterministic tours, whatever the seed)
    for ck in 0..4 {
        ses.require(format!("create/ok/ck{ck}"));
    }
    for p in [
        "create/err/", "createfee/ok/exact/d0", "createfee/ok/over/d0", "createfee/err/under/d0", "createfee/err/denom/d0", "createfee/err/two/", "createfee/err/none/",
        "createfee/ok/exact/d1", "createfee/ok/over/d1", "createfee/err/under/d1", "createfee/err/denom/d1",
        "creategate/err/frozen", "creategate/err/notallowed", "creategate/err/nonminter", "creategate/ok/open",
        "createmt/ok/n2", "createmt/ok/n2-dup", "createmt/ok/n1-zero", "createmt/ok/n0", "createmt/ok/n3-zero-eoa",
        "createlimit/err/big/over", "createlimit/ok/big/within", "createlimit/err/small/over",
        "inst_direct/err/",
        "send/ok/partial/self", "send/ok/partial/rcpt/", "send/ok/mint/self", "send/ok/mint/rcpt/", "send/err/before-start", "send/err/at-start", "send/err/limit", "send/err/surplus",
        "send/err/foreign", "send/err/soldout", "send/err/wrong-contract-factory", "send/err/wrong-contract-eoa", "send/err/wrong-contract-src", "send/err/wrong-contract-coll",
        "send/err/wrong-contract-none", "send/err/msgbad/", "send/err/msgbad1", "send/err/msgbad2", "send/err/msgbad3", "send/err/non-owner", "send/err/nocoll", "send/err/nominter",
        "send/err/mint-unparsable", "send/ok/partial/self/ck3", "send/err/coll-not-owned",
        "merge/ok/colls2/total3", "merge/ok/colls1/total1", "merge/ledger-reset",
        "receive/err/listed-eoa", "receive/err/stranger", "receive/err/admin", "receive/err/listed-none",
        "mint_to/ok/", "mint_to/err/any/other", "mint_to/err/any/admin/over", "mint_to/err/any/admin/under", "mint_to/err/any/admin/exact/left0",
        "mint_for/ok/avail", "mint_for/err/id0", "mint_for/err/idbig", "mint_for/err/sold",
        "airdrop/ok/bps0/pn/exact", "airdrop/ok/bps10000/pn/exact", "airdrop/ok/bpsmid/pn/exact", "airdrop/err/bpsover/", "airdrop/ok/bpsmid/p0/none", "airdrop/err/bpsmid/p0/over",
        "purge/ok/f0/left0", "purge/err/f0/leftn", "purge/err/f1/",
        "upd_start/ok/fine", "upd_start/err/after-start", "upd_start/err/past", "upd_start/err/before-genesis", "upd_start/err/non-admin", "upd_start/err/funds",
        "upd_trading/ok/some", "upd_trading/ok/none", "upd_trading/err/too-late", "upd_trading/err/beyond", "upd_trading/err/non-admin",
        "upd_limit/ok/fine-small", "upd_limit/ok/fine-big", "upd_limit/err/zero", "upd_limit/err/over-max", "upd_limit/err/dyn-small", "upd_limit/err/dyn-big", "upd_limit/err/non-admin",
        "tour/gov-lowered-maxper/upd_limit-err",
        "shuffle/ok/exact/other", "shuffle/ok/exact/admin", "shuffle/ok/over/", "shuffle/err/under/", "shuffle/err/soldout/", "shuffle/err/none/",
        "burn/ok/fine", "burn/err/soldout", "burn/err/non-admin",
        "sudo_status/ok/", "sudo_params/ok/code", "sudo_params/ok/frozen", "sudo_params/ok/rmc", "sudo_params/ok/addc+rmc", "sudo_params/ok/maxper", "sudo_params/ok/airbps",
        "sudo_params/ok/offset", "sudo_params/ok/cfee", "sudo_params/err/maxtok+shuf+frozen", "receive/ok/listed-src/partial", "receive/err/listed-src/surplus", "receive/err/src/foreign", "sudo_params-nonnative/err/airp", "sudo_params-nonnative/err/shuf",
        "c_transfer/ok/", "c_transfer/err/ck2", "c_burn/ok/", "c_trading/ok/", "c_creator/ok/", "c_freeze/ok/",
        "src_new/ok/", "src_give/ok/fresh", "src_give/err/exists", "src_give/err/nocoll", "src_transfer/ok/owner/to-eoa", "src_transfer/ok/owner/to-minter", "src_transfer/err/non-owner", "src_transfer/err/nocoll",
    ] {
        ses.require(p);
    }
    for act in ["transfer", "accept", "renounce"] {
        ses.require(format!("*/ok/ck0/{act}*"));
    }

    for ck in 0..4 {
        for shape in 0..2 {
            tour(&mut ses, &mut sut, &mut g, ck, shape);
        }
    }
    tour_listed_eoa(&mut ses, &mut sut, &mut g);
    for k in 0..6 {
        tour_lists(&mut ses, &mut sut, &mut g, k);
    }
    for k in 0..8 {
        special_case(&mut ses, &mut sut, &mut g, k);
    }
    // ---- SYSTEM coverage floor (deterministic system tours)
    for sk in ["base", "updatable", "onchain"] {
        for x in ["deposit/spender/rcpt-omitted/ok", "deposit/operator/rcpt-given/ok", "deposit/spender-of-operator/ok", "deposit/operator-expired/err", "deposit/spender/completes/ok", "src_new/fresh/ok"] {
            ses.require(format!("sys/{sk}/ck0/{x}"));
        }
    }
    for x in [
        "deposit/stranger/err", "deposit/other-holder/err", "deposit/start-1/err", "deposit/start+0/err", "deposit/surplus/err", "deposit/unlisted-nt/err", "deposit/burned-token/err",
        "deposit/transferred-away/err", "deposit/revoked-spender/err", "deposit/holder/completes-for-other/ok", "deposit/spender/time-1/ok", "deposit/after-sellout/partial/ok",
        "deposit/after-sellout/completing/err", "at-sellout/left0", "target/approve/ok", "target/transfer-by-spender/ok", "target/send-to-minter/err", "target/burn/ok", "receive/user/err",
        "receive/as-collection/not-owned-by-minter/err", "src_new/by-account/err", "src_new/taken/err", "src_new/nt/ok", "src_give/stranger/err", "approve/stranger/err", "approve/by-operator/ok",
        "approve/expired-now/err", "holder/transfer/ok", "holder/burn/ok", "ck3/deposit/spender/completes/err",
    ] {
        ses.require(format!("*{x}*"));
    }
    for x in ["x/base/approve/ok", "x/updatable/approve/ok", "x/onchain/approve/ok", "x/tgt/approve/ok", "x/base/transfer/ok", "x/tgt/transfer/ok", "x/base/burn/ok", "x/tgt/burn/ok", "x/blk/ok", "x/blk/err",
        "x/base/send/err", "x/base/mint/ok", "x/base/mint/err", "sys/send-by/other/ok", "sys/send-by/other/err", "sys/send-by/owner/ok"] {
        ses.require(x);
    }
    for (i, sk) in ["base", "updatable", "onchain"].iter().enumerate() {
        for ck in [0usize, 1] {
            sys_tour(&mut ses, &mut sut, &mut g, sk, (ck + i) % 2);
        }
    }
    sys_tour(&mut ses, &mut sut, &mut g, "base", 3);
    sys_tour(&mut ses, &mut sut, &mut g, "updatable", 2);
    let n = ses.scale(340, 3600);
    for idx in 0..n {
        random_case(&mut ses, &mut sut, &mut g, idx);
    }
    ses.finish(&mut sut);
}
//GEN-END
