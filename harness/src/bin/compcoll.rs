//! Composite correspondence for the SG-721 collection family (DESIGN 3.4): the REAL sg721-base / -nt / -updatable /
//! -metadata-onchain entry points under cw-multi-test against the composite Lean model `LP.CF`
//! (lean/LaunchpadModel/Model/CollectionFull.lean, driver lean/LaunchpadModel/Driver/CompColl.lean).
//!
//! ok/err must agree on EVERY op and the complete observable state (every public query, bank balances of every account
//! of the case, the typed storage items) is compared after every op; query lines compare the canonical answer.
//! No monitors here (the per-property bins own them). Nothing is taken from the op's outcome: the only witnesses are
//! `iv=`/`ev=` (`Url::parse` on the strings of the line), `recv=` (what the receiving stub does with this payload),
//! `self=` (the address the chain will allocate) — all computed BEFORE the call.
//! Protocol and observation format: docs/COMPOSITE_COLLECTION.md section 3.
use std::collections::{BTreeMap, BTreeSet, HashMap};

use cosmwasm_schema::cw_serde;
use cosmwasm_std::{
    to_json_binary, Addr, Binary, BlockInfo, Coin, Decimal, Deps, DepsMut, Empty, Env, MessageInfo, Order, Reply, Response, StdError, StdResult,
    SubMsg, Timestamp, Uint128, WasmMsg,
};
use cw_multi_test::{BankSudo, ContractWrapper, Executor, SudoMsg};
use cw_storage_plus::Item;
use lp_harness::boxes::{self, custom_mock_app, App, Boxed};
use lp_harness::world::*;
use lp_harness::*;
use serde_json::{json, Map, Value};

// ------------------------------------------------------------------------------------------------ stub contract

#[cw_serde]
pub enum StubExec {
    /// forward a message to another contract as a sub-message, paying `funds` from the stub's OWN balance
    Forward { to: String, msg: Binary, funds: Vec<Coin> },
    /// instantiate a contract (the collection) as a sub-message, so that `info.sender` is this contract
    Inst { code_id: u64, msg: Binary, admin: Option<String>, funds: Vec<Coin> },
    /// cw721 receiver hook; refuses the token when the payload is `fail`
    ReceiveNft(cw721::Cw721ReceiveMsg),
}

const LAST_INST: Item<String> = Item::new("last_inst");

fn stub_instantiate(_d: DepsMut, _e: Env, _i: MessageInfo, _m: Empty) -> StdResult<Response> {
    Ok(Response::new())
}
fn stub_execute(_d: DepsMut, _e: Env, _i: MessageInfo, m: StubExec) -> StdResult<Response> {
    match m {
        StubExec::Forward { to, msg, funds } => Ok(Response::new().add_message(WasmMsg::Execute { contract_addr: to, msg, funds })),
        StubExec::Inst { code_id, msg, admin, funds } => Ok(Response::new()
            .add_submessage(SubMsg::reply_on_success(WasmMsg::Instantiate { admin, code_id, msg, funds, label: "collection".into() }, 1))),
        StubExec::ReceiveNft(r) => {
            if r.msg.as_slice() == b"fail" {
                Err(StdError::generic_err("stub refuses this token"))
            } else {
                Ok(Response::new())
            }
        }
    }
}
fn stub_reply(d: DepsMut, _e: Env, m: Reply) -> StdResult<Response> {
    let r = cw_utils::parse_reply_instantiate_data(m).map_err(|e| StdError::generic_err(e.to_string()))?;
    LAST_INST.save(d.storage, &r.contract_address)?;
    Ok(Response::new())
}
fn stub_query(d: Deps, _e: Env, _m: Empty) -> StdResult<Binary> {
    to_json_binary(&LAST_INST.may_load(d.storage)?)
}
fn stub_box() -> Boxed {
    Box::new(ContractWrapper::new(stub_execute, stub_instantiate, stub_query).with_reply(stub_reply))
}

// ------------------------------------------------------------------------------------------------ naming

const CREATORS: [u64; 2] = [10, 11];
const HOLDERS: [u64; 4] = [20, 21, 22, 23];
const STRANGER: u64 = 30;
const PAYEES: [u64; 2] = [40, 41];
const ADMIN: u64 = 50;
const INVALID: [u64; 4] = [900, 901, 902, 903];
const STUB_A: u64 = 1000;
const STUB_B: u64 = 1001;
/// the address cw-multi-test gives the third contract of a case (the collection)
const COLL: u64 = 1002;
const POOL: u64 = 4;
const DAY_NS: u64 = 86_400_000_000_000;
const T0: u64 = 1_700_000_000_000_000_000;
const KINDS: [&str; 4] = ["base", "nt", "updatable", "onchain"];
const FEE: u128 = 1_500_000_000;
const ACCTS: &str = "10,11,20,21,22,23,30,40,41,50,4,1000,1001,1002";

/// id -> address string. 900..=999 are malformed strings (rejected by `addr_validate`); everything else as `world::addr`.
fn name(id: u64) -> String {
    match id {
        n if (900..1000).contains(&n) => match n % 4 {
            0 => "ab".to_string(),        // too short
            1 => format!("Acct{:05}", n), // not normalised (upper case)
            2 => "x".repeat(100),         // too long
            _ => String::new(),           // empty
        },
        n => addr(n),
    }
}
fn name_id(s: &str) -> u64 {
    // the four malformed strings the generators use (ids 900..=903)
    for n in INVALID {
        if s == name(n) {
            return n;
        }
    }
    if let Some(k) = s.strip_prefix("acct").and_then(|k| k.parse::<u64>().ok()) {
        k
    } else {
        addr_id(s)
    }
}
fn ad(id: u64) -> Addr {
    Addr::unchecked(name(id))
}

fn url_str(id: u64) -> String {
    let n = id / 6;
    match id % 6 {
        0 => format!("https://example.com/{n}"),
        1 => format!("ipfs://bafy{n}/img.png"),
        2 => format!("not-a-url-{n}"),
        3 => format!("//missing-scheme/{n}"),
        4 => format!("http://[::1/{n}"),
        _ => format!("data:text/plain,{n}"),
    }
}
fn url_valid(id: u64) -> bool {
    url::Url::parse(&url_str(id)).is_ok()
}
fn desc_str(id: u64, len: u64) -> String {
    let len = len as usize;
    if len < 6 {
        return "x".repeat(len);
    }
    let head = format!("{:06}", id % 1_000_000);
    let rest = len - 6;
    let s = if id % 2 == 1 && rest % 2 == 0 { head + &"é".repeat(rest / 2) } else { head + &"x".repeat(rest) };
    assert_eq!(s.len(), len);
    s
}
fn desc_back(s: &str) -> (u64, u64) {
    let len = s.len() as u64;
    let id = if s.len() >= 6 { s.get(..6).and_then(|h| h.parse::<u64>().ok()).unwrap_or(999_999) } else { 0 };
    (id, len)
}
fn uri_str(id: u64) -> String {
    format!("ipfs://meta/{id}.json")
}
fn uri_back(s: &str) -> u64 {
    s.strip_prefix("ipfs://meta/").and_then(|r| r.strip_suffix(".json")).and_then(|n| n.parse().ok()).unwrap_or(999_999)
}
fn exp_json(e: &str) -> Value {
    match e {
        "-" => Value::Null,
        "n" => json!({"never": {}}),
        x if x.starts_with('h') => json!({"at_height": x[1..].parse::<u64>().unwrap()}),
        x if x.starts_with('t') => json!({"at_time": x[1..].to_string()}),
        _ => panic!("bad exp {e}"),
    }
}
fn exp_back(e: &cw_utils::Expiration) -> String {
    match e {
        cw_utils::Expiration::Never {} => "n".into(),
        cw_utils::Expiration::AtHeight(h) => format!("h{h}"),
        cw_utils::Expiration::AtTime(t) => format!("t{}", t.nanos()),
    }
}
fn exp_of_json(v: &Value) -> String {
    exp_back(&serde_json::from_value::<cw_utils::Expiration>(v.clone()).expect("expiration"))
}
fn share_str(atomics: u128) -> String {
    Decimal::new(Uint128::new(atomics)).to_string()
}
fn kind_of_name(n: &str) -> String {
    match n {
        "crates.io:sg721-base" | "sg721-base" => "base",
        "crates.io:sg721-nt" => "nt",
        "crates.io:sg721-updatable" | "sg721-updatable" => "updatable",
        "crates.io:sg721-metadata-onchain" => "onchain",
        x => x,
    }
    .to_string()
}
fn dash(v: Vec<String>, sep: &str) -> String {
    if v.is_empty() {
        "-".to_string()
    } else {
        v.join(sep)
    }
}
fn ob(b: &Option<bool>) -> &'static str {
    match b {
        None => "-",
        Some(true) => "1",
        Some(false) => "0",
    }
}
/// approvals of a cw721 answer, canonical: sorted by spender id, `sp@exp+…`
fn approvals_of(v: &Value) -> Vec<(u64, String)> {
    let mut a: Vec<(u64, String)> = v.as_array().map(|x| x.iter().map(|ap| (name_id(ap["spender"].as_str().unwrap()), exp_of_json(&ap["expires"]))).collect()).unwrap_or_default();
    a.sort();
    a
}
fn render_approvals(a: &[(u64, String)]) -> String {
    dash(a.iter().map(|(s, e)| format!("{s}@{e}")).collect(), "+")
}

// ------------------------------------------------------------------------------------------------ observations

#[derive(Clone, PartialEq, Debug, Default)]
struct Tok {
    id: u64,
    owner: u64,
    uri: Option<u64>,
    ext: u64,
    approvals: Vec<(u64, String)>,
    live: Vec<u64>,
}
#[derive(Clone, PartialEq, Debug, Default)]
struct Obs {
    this: u64,
    kind: String,
    ver: String,
    nm: (u64, u64),
    owner: Option<u64>,
    pending: Option<u64>,
    pexp: Option<String>,
    leg: Option<u64>,
    fz: bool,
    rua: u64,
    creator: u64,
    desc: (u64, u64),
    img: u64,
    ext: Option<u64>,
    ec: Option<bool>,
    stt: Option<u64>,
    roy: Option<(u64, u128)>,
    n: u64,
    toks: Vec<Tok>,
    /// (granter, operator, expiry, not expired in the current block)
    ops: Vec<(u64, u64, String, bool)>,
    fm: bool,
    ue: bool,
}
impl Obs {
    fn tok(&self, id: u64) -> Option<&Tok> {
        self.toks.iter().find(|t| t.id == id)
    }
    fn render(&self) -> String {
        let toks: Vec<String> = self
            .toks
            .iter()
            .map(|t| {
                format!(
                    "{}/{}/{}/{}/{}/{}",
                    t.id,
                    t.owner,
                    fmt_opt(&t.uri),
                    t.ext,
                    render_approvals(&t.approvals),
                    dash(t.live.iter().map(|s| s.to_string()).collect(), "+")
                )
            })
            .collect();
        let ops: Vec<String> = self.ops.iter().map(|(o, p, e, l)| format!("{o}>{p}@{e}/{}", *l as u8)).collect();
        format!(
            "C={} k={} v={} nm={}/{} own={}/{}/{} leg={} fz={} rua={} cr={} desc={}:{} img={} ext={} ec={} stt={} roy={} n={} toks={} ops={} fm={} ue={}",
            self.this,
            self.kind,
            self.ver,
            self.nm.0,
            self.nm.1,
            fmt_opt(&self.owner),
            fmt_opt(&self.pending),
            self.pexp.clone().unwrap_or("-".into()),
            fmt_opt(&self.leg),
            self.fz as u8,
            self.rua,
            self.creator,
            self.desc.0,
            self.desc.1,
            self.img,
            fmt_opt(&self.ext),
            ob(&self.ec),
            fmt_opt(&self.stt),
            self.roy.map(|(p, s)| format!("{p}:{s}")).unwrap_or("-".into()),
            self.n,
            dash(toks, ";"),
            dash(ops, ","),
            self.fm as u8,
            self.ue as u8
        )
    }
}

// ------------------------------------------------------------------------------------------------ world

struct World {
    app: App,
    codes: BTreeMap<&'static str, u64>,
    coll: Option<Addr>,
    urls: HashMap<String, u64>,
    blk: (u64, u64),
}

impl World {
    fn new(h: u64, t: u64) -> World {
        let mut app = custom_mock_app();
        let mut codes = BTreeMap::new();
        codes.insert("base", app.store_code(boxes::sg721_base()));
        codes.insert("nt", app.store_code(boxes::sg721_nt()));
        codes.insert("updatable", app.store_code(boxes::sg721_updatable()));
        codes.insert("onchain", app.store_code(boxes::sg721_metadata_onchain()));
        let stub_code = app.store_code(stub_box());
        let sa = app.instantiate_contract(stub_code, a(ADMIN), &Empty {}, &[], "stub-a", None).unwrap();
        let sb = app.instantiate_contract(stub_code, a(ADMIN), &Empty {}, &[], "stub-b", None).unwrap();
        assert_eq!((sa.as_str(), sb.as_str()), (addr(STUB_A).as_str(), addr(STUB_B).as_str()), "cw-multi-test contract naming changed");
        let mut w = World { app, codes, coll: None, urls: HashMap::new(), blk: (h, t) };
        w.set_block(h, t);
        for id in 0..60 {
            w.urls.insert(url_str(id), id);
        }
        w
    }
    fn url_id(&self, s: &str) -> u64 {
        *self.urls.get(s).unwrap_or(&999_999)
    }
    fn set_block(&mut self, h: u64, t: u64) {
        self.blk = (h, t);
        self.app.set_block(BlockInfo { height: h, time: Timestamp::from_nanos(t), chain_id: "verif-1".into() });
    }
    fn is_stub(id: u64) -> bool {
        id == STUB_A || id == STUB_B
    }
    /// run `msg` against `target` with `sender` (a stub contract forwards it as a sub-message and pays from its own balance)
    fn send(&mut self, sender: u64, target: &Addr, msg: &Value, funds: &[Coin]) -> bool {
        if Self::is_stub(sender) {
            let fwd = StubExec::Forward { to: target.to_string(), msg: to_json_binary(msg).unwrap(), funds: funds.to_vec() };
            self.app.execute_contract(a(ADMIN), ad(sender), &fwd, &[]).is_ok()
        } else {
            self.app.execute_contract(ad(sender), target.clone(), msg, funds).is_ok()
        }
    }
    fn instantiate(&mut self, kind: &str, sender: u64, msg: &Value, funds: &[Coin]) -> bool {
        let code_id = self.codes[kind];
        if Self::is_stub(sender) {
            let stub = ad(sender);
            let m = StubExec::Inst { code_id, msg: to_json_binary(msg).unwrap(), admin: Some(addr(ADMIN)), funds: funds.to_vec() };
            match self.app.execute_contract(a(ADMIN), stub.clone(), &m, &[]) {
                Ok(_) => {
                    let last: Option<String> = self.app.wrap().query_wasm_smart(stub, &Empty {}).expect("stub query");
                    self.coll = Some(Addr::unchecked(last.expect("stub recorded the instantiated address")));
                    true
                }
                Err(_) => false,
            }
        } else {
            match self.app.instantiate_contract(code_id, ad(sender), msg, funds, "collection", Some(addr(ADMIN))) {
                Ok(c) => {
                    self.coll = Some(c);
                    true
                }
                Err(_) => false,
            }
        }
    }
    fn q(&self, msg: &Value) -> Result<Value, String> {
        let c = self.coll.as_ref().ok_or("no collection")?;
        self.app.wrap().query_wasm_smart::<Value>(c.to_string(), msg).map_err(|e| e.to_string())
    }
    fn qx(&self, msg: Value) -> Value {
        self.q(&msg).unwrap_or_else(|e| panic!("query {msg} failed: {e}"))
    }
    fn cw2(&self) -> Option<(String, String)> {
        let c = self.coll.as_ref()?;
        let st = self.app.contract_storage(c);
        cw2::get_contract_version(&*st).ok().map(|v| (v.contract, v.version))
    }
    fn balance(&self, id: u64, d: u64) -> u128 {
        self.app.wrap().query_balance(name(id), denom(d)).map(|c| c.amount.u128()).unwrap_or(0)
    }
    /// total of a denom over all accounts of the bank module (cw-multi-test 1.2 has no supply query)
    fn supply(&self, d: u64) -> u128 {
        let dn = denom(d);
        self.app.read_module(|_r, _a, st| {
            let mut pre: Vec<u8> = vec![0, 4];
            pre.extend_from_slice(b"bank");
            pre.extend_from_slice(&[0, 8]);
            pre.extend_from_slice(b"balances");
            let mut end = pre.clone();
            *end.last_mut().unwrap() += 1;
            let mut tot = 0u128;
            for (_k, v) in st.range(Some(&pre), Some(&end), Order::Ascending) {
                let coins: Vec<Coin> = serde_json::from_slice(&v).unwrap_or_default();
                tot += coins.iter().filter(|c| c.denom == dn).map(|c| c.amount.u128()).sum::<u128>();
            }
            tot
        })
    }

    fn observe(&self) -> Option<Obs> {
        let coll = self.coll.as_ref()?;
        let mut o = Obs::default();
        o.this = name_id(coll.as_str());
        let (cname, cver) = self.cw2().expect("cw2 record");
        o.kind = kind_of_name(&cname);
        o.ver = cver;
        let mut owners: BTreeSet<String> = BTreeSet::new();
        {
            let st = self.app.contract_storage(coll);
            let own = cw_ownable::get_ownership(&*st).expect("cw_ownable ownership");
            o.owner = own.owner.as_ref().map(|a| name_id(a.as_str()));
            o.pending = own.pending_owner.as_ref().map(|a| name_id(a.as_str()));
            o.pexp = own.pending_expiry.as_ref().map(exp_back);
            let c = sg721_base::Sg721Contract::<cw721_base::Extension>::default();
            o.fz = c.frozen_collection_info.load(&*st).expect("frozen_collection_info");
            o.rua = c.royalty_updated_at.load(&*st).expect("royalty_updated_at").nanos();
            for r in c.parent.operators.range(&*st, None, None, Order::Ascending) {
                let ((ow, op), e) = r.expect("operators entry");
                owners.insert(ow.to_string());
                o.ops.push((name_id(ow.as_str()), name_id(op.as_str()), exp_back(&e), false));
            }
            o.leg = Item::<Addr>::new("minter").may_load(&*st).ok().flatten().map(|a| name_id(a.as_str()));
        }
        // which operator grants are alive in this block: the contract's own `AllOperators {include_expired: false}`
        for ow in owners {
            let r = self.qx(json!({"all_operators": {"owner": ow, "include_expired": false, "limit": 100}}));
            for x in r["operators"].as_array().unwrap() {
                let (g, p) = (name_id(&ow), name_id(x["spender"].as_str().unwrap()));
                for e in o.ops.iter_mut().filter(|e| e.0 == g && e.1 == p) {
                    e.3 = true;
                }
            }
        }
        o.ops.sort();
        if o.kind == "updatable" {
            o.fm = self.qx(json!({"freeze_token_metadata": {}}))["frozen"].as_bool().expect("FreezeTokenMetadata query");
            o.ue = self.qx(json!({"enable_updatable": {}}))["enabled"].as_bool().expect("EnableUpdatable query");
        }
        let ci = self.qx(json!({"collection_info": {}}));
        o.creator = name_id(ci["creator"].as_str().unwrap());
        o.desc = desc_back(ci["description"].as_str().unwrap());
        o.img = self.url_id(ci["image"].as_str().unwrap());
        o.ext = ci["external_link"].as_str().map(|s| self.url_id(s));
        o.ec = ci["explicit_content"].as_bool();
        o.stt = ci["start_trading_time"].as_str().map(|s| s.parse().unwrap());
        o.roy = if ci["royalty_info"].is_null() {
            None
        } else {
            let sh: Decimal = ci["royalty_info"]["share"].as_str().unwrap().parse().unwrap();
            Some((name_id(ci["royalty_info"]["payment_address"].as_str().unwrap()), sh.atomics().u128()))
        };
        let cinfo = self.qx(json!({"contract_info": {}}));
        let num = |s: &str, p: &str| s.strip_prefix(p).and_then(|n| n.parse::<u64>().ok()).unwrap_or(999_999);
        o.nm = (num(cinfo["name"].as_str().unwrap(), "Collection"), num(cinfo["symbol"].as_str().unwrap(), "SYM"));
        o.n = self.qx(json!({"num_tokens": {}}))["count"].as_u64().unwrap();
        // `Minter {}` and `Ownership {}` must agree with the typed item
        let mq = self.qx(json!({"minter": {}}))["minter"].as_str().map(name_id);
        assert_eq!(mq, o.owner, "Minter query differs from the ownership item");
        let mut ids: Vec<String> = vec![];
        let mut after: Option<String> = None;
        loop {
            let r = self.qx(json!({"all_tokens": {"start_after": after, "limit": 100}}));
            let page: Vec<String> = r["tokens"].as_array().unwrap().iter().map(|x| x.as_str().unwrap().to_string()).collect();
            if page.is_empty() {
                break;
            }
            after = page.last().cloned();
            ids.extend(page);
        }
        for tid in ids {
            let ow = self.qx(json!({"owner_of": {"token_id": tid, "include_expired": true}}));
            let lv = self.qx(json!({"owner_of": {"token_id": tid}}));
            let ni = self.qx(json!({"nft_info": {"token_id": tid}}));
            let ext = ni["extension"]["name"].as_str().and_then(|s| s.strip_prefix('n')).and_then(|n| n.parse().ok()).unwrap_or(0);
            o.toks.push(Tok {
                id: tid.parse().unwrap_or(999_999),
                owner: name_id(ow["owner"].as_str().unwrap()),
                uri: ni["token_uri"].as_str().map(uri_back),
                ext,
                approvals: approvals_of(&ow["approvals"]),
                live: approvals_of(&lv["approvals"]).into_iter().map(|x| x.0).collect(),
            });
        }
        o.toks.sort_by_key(|t| t.id);
        Some(o)
    }
}

// ------------------------------------------------------------------------------------------------ message surface (run time)

fn exec_schema(kind: &str) -> Value {
    use cosmwasm_schema::schema_for;
    let r = match kind {
        "base" => schema_for!(sg721::ExecuteMsg<cw721_base::Extension, Empty>),
        "onchain" => schema_for!(sg721::ExecuteMsg<sg_metadata::Metadata, Empty>),
        "nt" => schema_for!(sg721_nt::msg::ExecuteMsg<cw721_base::Extension>),
        _ => schema_for!(sg721_updatable::msg::ExecuteMsg<cw721_base::Extension, Empty>),
    };
    serde_json::to_value(&r).expect("schema to json")
}

/// (variant name, schema of its payload; None for a unit variant serialised as a bare string)
fn schema_variants(root: &Value) -> Vec<(String, Option<Value>)> {
    let mut out = vec![];
    let mut alts: Vec<Value> = vec![];
    for k in ["oneOf", "anyOf"] {
        if let Some(a) = root[k].as_array() {
            alts.extend(a.iter().cloned());
        }
    }
    if alts.is_empty() {
        alts.push(root.clone());
    }
    for alt in alts {
        if let Some(en) = alt["enum"].as_array() {
            for e in en {
                if let Some(s) = e.as_str() {
                    out.push((s.to_string(), None));
                }
            }
        } else if let Some(req) = alt["required"].as_array() {
            if let Some(name) = req.first().and_then(|x| x.as_str()) {
                out.push((name.to_string(), Some(alt["properties"][name].clone())));
            }
        }
    }
    out.sort_by(|a, b| a.0.cmp(&b.0));
    out.dedup_by(|a, b| a.0 == b.0);
    out
}

/// protocol op(s) of a schema variant
fn known_variant(name: &str) -> Option<&'static [&'static str]> {
    Some(match name {
        "transfer_nft" => &["transfer"],
        "send_nft" => &["send"],
        "approve" => &["approve"],
        "revoke" => &["revoke"],
        "approve_all" => &["approve_all"],
        "revoke_all" => &["revoke_all"],
        "mint" => &["mint"],
        "burn" => &["burn"],
        "extension" => &["extension"],
        "update_collection_info" => &["uci"],
        "update_start_trading_time" => &["ustt"],
        "freeze_collection_info" => &["freeze"],
        "update_ownership" => &["own_transfer", "own_accept", "own_renounce"],
        "freeze_token_metadata" => &["freeze_meta"],
        "update_token_metadata" => &["utm"],
        "enable_updatable" => &["enable"],
        _ => return None,
    })
}
const ALL_OPS: [&str; 18] = [
    "transfer", "send", "approve", "revoke", "approve_all", "revoke_all", "mint", "burn", "extension", "uci", "ustt", "freeze", "own_transfer", "own_accept",
    "own_renounce", "freeze_meta", "utm", "enable",
];

#[derive(Clone, Default)]
struct Surface {
    /// per kind: protocol ops whose variant exists in that kind's `ExecuteMsg` schema
    has: BTreeMap<String, BTreeSet<String>>,
    /// per kind: variants the protocol has no name for
    unknown: BTreeMap<String, Vec<String>>,
    uci_field: BTreeMap<String, String>,
    freeze_unit: BTreeMap<String, bool>,
}
impl Surface {
    fn load() -> Surface {
        let mut s = Surface::default();
        for kind in KINDS {
            let root = exec_schema(kind);
            let vars = schema_variants(&root);
            let mut has = BTreeSet::new();
            let mut unk = vec![];
            for (n, _) in &vars {
                match known_variant(n) {
                    Some(ops) => has.extend(ops.iter().map(|x| x.to_string())),
                    None => unk.push(n.clone()),
                }
            }
            s.has.insert(kind.into(), has);
            s.unknown.insert(kind.into(), unk);
            let uf = vars
                .iter()
                .find(|(n, _)| n == "update_collection_info")
                .and_then(|(_, p)| p.as_ref())
                .and_then(|p| p["required"].as_array().and_then(|r| r.first()).and_then(|x| x.as_str()).map(String::from))
                .unwrap_or_else(|| "collection_info".into());
            s.uci_field.insert(kind.into(), uf);
            s.freeze_unit.insert(kind.into(), vars.iter().any(|(n, p)| n == "freeze_collection_info" && p.is_none()));
        }
        s
    }
}

fn opt_s(line: &str, key: &str) -> Option<String> {
    let v = kv(line, key)?;
    if v == "-" {
        None
    } else {
        Some(v.to_string())
    }
}
fn funds_of(line: &str) -> Vec<Coin> {
    coins_of(&kv_pairs(line, "funds").unwrap_or_default())
}
fn roy_json(line: &str) -> Value {
    match opt_s(line, "roy") {
        None => Value::Null,
        Some(v) => {
            let (p, s) = v.split_once(':').unwrap();
            json!({"payment_address": name(p.parse().unwrap()), "share": share_str(s.parse().unwrap())})
        }
    }
}
fn ec_json(line: &str) -> Value {
    match kv(line, "ec").unwrap() {
        "-" => Value::Null,
        "1" => json!(true),
        _ => json!(false),
    }
}
fn desc_of(line: &str) -> Option<String> {
    opt_s(line, "desc").map(|v| {
        let (x, y) = v.split_once(':').unwrap();
        desc_str(x.parse().unwrap(), y.parse().unwrap())
    })
}

/// JSON of the message for protocol line `line`, as a client of the collection kind `cur_kind` would encode it
fn build_msg(op: &str, line: &str, cur_kind: &str, sf: &Surface) -> Option<Value> {
    let id = || kv_u64(line, "id").unwrap().to_string();
    let adr = |key: &str| name(kv_u64(line, key).unwrap());
    let msg: Value = match op {
        "transfer" => json!({"transfer_nft": {"recipient": adr("to"), "token_id": id()}}),
        "send" => {
            let fail = kv_u64(line, "payload").unwrap() == 0;
            json!({"send_nft": {"contract": adr("to"), "token_id": id(), "msg": Binary::from(if fail { &b"fail"[..] } else { &b"fine"[..] })}})
        }
        "approve" => json!({"approve": {"spender": adr("sp"), "token_id": id(), "expires": exp_json(kv(line, "exp").unwrap())}}),
        "revoke" => json!({"revoke": {"spender": adr("sp"), "token_id": id()}}),
        "approve_all" => json!({"approve_all": {"operator": adr("op"), "expires": exp_json(kv(line, "exp").unwrap())}}),
        "revoke_all" => json!({"revoke_all": {"operator": adr("op")}}),
        "mint" => {
            let ext = kv_u64(line, "ext").unwrap();
            let extension = if cur_kind == "onchain" {
                if ext > 0 {
                    json!({"name": format!("n{ext}")})
                } else {
                    json!({})
                }
            } else {
                Value::Null
            };
            json!({"mint": {"token_id": id(), "owner": adr("owner"), "token_uri": kv_opt_u64(line, "uri").unwrap().map(uri_str), "extension": extension}})
        }
        "burn" => json!({"burn": {"token_id": id()}}),
        "extension" => json!({"extension": {"msg": {}}}),
        "uci" => {
            let ci = json!({
                "description": desc_of(line),
                "image": kv_opt_u64(line, "image").unwrap().map(url_str),
                "external_link": kv_opt_u64(line, "ext").unwrap().map(url_str),
                "explicit_content": ec_json(line),
                "royalty_info": roy_json(line),
                "creator": kv_opt_u64(line, "creator").unwrap().map(name),
            });
            let mut inner = Map::new();
            inner.insert(sf.uci_field.get(cur_kind).cloned().unwrap_or_else(|| "collection_info".into()), ci);
            json!({"update_collection_info": Value::Object(inner)})
        }
        "ustt" => json!({"update_start_trading_time": kv_opt_u64(line, "t").unwrap().map(|t| t.to_string())}),
        "freeze" => {
            if sf.freeze_unit.get(cur_kind).copied().unwrap_or(false) {
                json!("freeze_collection_info")
            } else {
                json!({"freeze_collection_info": {}})
            }
        }
        "own_transfer" => json!({"update_ownership": {"transfer_ownership": {"new_owner": adr("to"), "expiry": exp_json(kv(line, "exp").unwrap())}}}),
        "own_accept" => json!({"update_ownership": "accept_ownership"}),
        "own_renounce" => json!({"update_ownership": "renounce_ownership"}),
        "freeze_meta" => json!({"freeze_token_metadata": {}}),
        "utm" => json!({"update_token_metadata": {"token_id": id(), "token_uri": kv_opt_u64(line, "uri").unwrap().map(uri_str)}}),
        "enable" => json!({"enable_updatable": {}}),
        "raw" => {
            let mut m = Map::new();
            m.insert(kv(line, "v").unwrap_or("?").to_string(), json!({}));
            Value::Object(m)
        }
        _ => return None,
    };
    Some(msg)
}

/// witness fields that depend on the line alone
fn line_witness(op: &str, line: &str) -> String {
    match op {
        "send" => {
            let to = kv_u64(line, "to").unwrap();
            let fail = kv_u64(line, "payload").unwrap() == 0;
            format!(" recv={}", (World::is_stub(to) && !fail) as u8)
        }
        "uci" | "inst" => {
            let iv = kv_opt_u64(line, "image").unwrap().map(url_valid).unwrap_or(true);
            let ev = kv_opt_u64(line, "ext").unwrap().map(url_valid).unwrap_or(true);
            format!(" iv={} ev={}", iv as u8, ev as u8)
        }
        _ => String::new(),
    }
}

// ------------------------------------------------------------------------------------------------ Sut

struct S {
    w: World,
    sf: Surface,
    hdr: String,
    accts: Vec<u64>,
    log: Vec<String>,
    cur: Option<Obs>,
    panics: u64,
    /// classes of the line just executed (for the coverage floor)
    marks: Vec<String>,
}

impl S {
    fn new(sf: Surface) -> S {
        S { w: World::new(1, 1), sf, hdr: String::new(), accts: vec![], log: vec![], cur: None, panics: 0, marks: vec![] }
    }
    fn cur_kind(&self) -> String {
        self.cur.as_ref().map(|o| o.kind.clone()).unwrap_or("base".into())
    }
    fn obs(&self) -> String {
        let c = self.cur.as_ref().map(|o| o.render()).unwrap_or("C=-".into());
        let bal: Vec<String> = self.accts.iter().map(|a| format!("{a}:{}:{}", self.w.balance(*a, 0), self.w.balance(*a, 1))).collect();
        format!("B={}/{} {c} bal={} sup={}:{}", self.w.blk.0, self.w.blk.1, bal.join(","), self.w.supply(0), self.w.supply(1))
    }
    fn reset(&mut self, header: &str) {
        let h = kv_u64(header, "h").unwrap_or(1);
        let t = kv_u64(header, "t").unwrap_or(1);
        self.w = World::new(h, t);
        self.accts = kv_list(header, "accts").unwrap_or_default().into_iter().map(|x| x as u64).collect();
        self.cur = None;
    }

    /// execute one op line on the real contracts: (tag on success, accepted)
    fn run_line(&mut self, line: &str) -> Option<(&'static str, bool)> {
        let op = line.split_whitespace().next().unwrap_or("");
        match op {
            "block" => {
                self.w.set_block(kv_u64(line, "h")?, kv_u64(line, "t")?);
                Some(("blk", true))
            }
            "fund" => {
                let (a_, d, amt) = (kv_u64(line, "a")?, kv_u64(line, "d")?, kv_u128(line, "amt")?);
                if amt > 0 {
                    self.w.app.sudo(SudoMsg::Bank(BankSudo::Mint { to_address: name(a_), amount: vec![coin_of(d, amt)] })).expect("bank mint");
                }
                Some(("fund", true))
            }
            "inst" => {
                if self.w.coll.is_some() {
                    return Some(("ok", false)); // one collection per case
                }
                let mut ci = json!({
                    "creator": name(kv_u64(line, "creator")?),
                    "description": desc_of(line).unwrap_or_default(),
                    "image": url_str(kv_u64(line, "image")?),
                    "external_link": kv_opt_u64(line, "ext")?.map(url_str),
                    "explicit_content": ec_json(line),
                    "royalty_info": roy_json(line),
                });
                ci["start_trading_time"] = match kv_opt_u64(line, "stt")? {
                    Some(t) => json!(t.to_string()),
                    None => Value::Null,
                };
                let msg = json!({"name": format!("Collection{}", kv_u64(line, "nm")?), "symbol": format!("SYM{}", kv_u64(line, "sym")?),
                    "minter": name(kv_u64(line, "minter")?), "collection_info": ci});
                let kind = kv(line, "kind")?.to_string();
                let ok = self.w.instantiate(&kind, kv_u64(line, "s")?, &msg, &funds_of(line));
                if ok {
                    assert_eq!(self.w.coll.as_ref().map(|c| name_id(c.as_str())), Some(COLL), "address allocation differs from the prediction");
                }
                Some(("ok", ok))
            }
            "migrate_upd" | "migrate_self" => {
                let Some(c) = self.w.coll.clone() else { return Some(("ok", false)) };
                let to = if op == "migrate_upd" { "updatable".to_string() } else { self.cur_kind() };
                let code = self.w.codes.get(to.as_str()).copied()?;
                Some(("ok", self.w.app.migrate_contract(a(ADMIN), c, &Empty {}, code).is_ok()))
            }
            "setver" => {
                let v = kv(line, "v")?;
                let Some(c) = self.w.coll.clone() else { return Some(("env", false)) };
                let (nm, _) = self.w.cw2().expect("cw2 record");
                let mut st = self.w.app.contract_storage_mut(&c);
                cw2::set_contract_version(&mut *st, nm, v).expect("set cw2 version");
                Some(("env", true))
            }
            "setlegacy" => {
                let v = kv_opt_u64(line, "a")?;
                let Some(c) = self.w.coll.clone() else { return Some(("env", false)) };
                let mut st = self.w.app.contract_storage_mut(&c);
                let it = Item::<Addr>::new("minter");
                match v {
                    Some(x) => it.save(&mut *st, &ad(x)).expect("save legacy minter"),
                    None => it.remove(&mut *st),
                }
                Some(("env", true))
            }
            _ => {
                let sender = kv_u64(line, "s")?;
                let msg = build_msg(op, line, &self.cur_kind(), &self.sf)?;
                let Some(coll) = self.w.coll.clone() else { return Some(("ok", false)) };
                Some(("ok", self.w.send(sender, &coll, &msg, &funds_of(line))))
            }
        }
    }

    fn rebuild(&mut self) {
        let log = std::mem::take(&mut self.log);
        let hdr = self.hdr.clone();
        self.reset(&hdr);
        for l in &log {
            let _ = catch(|| self.run_line(l));
            self.cur = self.w.observe();
        }
        self.log = log;
    }

    fn query_line(&self, op: &str, line: &str) -> Option<String> {
        if self.w.coll.is_none() {
            return Some("q err".into());
        }
        let ie = || kv_bool(line, "ie");
        let tid = || kv_u64(line, "id").map(|i| i.to_string());
        let access = |v: &Value| format!("{}/{}", name_id(v["owner"].as_str().unwrap()), render_approvals(&approvals_of(&v["approvals"])));
        let nft = |v: &Value| {
            let ext: u64 = v["extension"]["name"].as_str().and_then(|s| s.strip_prefix('n')).and_then(|n| n.parse().ok()).unwrap_or(0);
            format!("{}/{}", fmt_opt(&v["token_uri"].as_str().map(uri_back)), ext)
        };
        let ids = |v: &Value| fmt_list(&v["tokens"].as_array().unwrap().iter().map(|x| x.as_str().unwrap().parse::<u64>().unwrap_or(999_999)).collect::<Vec<_>>());
        let wrap = |r: Result<Value, String>, f: &dyn Fn(&Value) -> String| match r {
            Ok(v) => format!("q ok {}", f(&v)),
            Err(_) => "q err".to_string(),
        };
        Some(match op {
            "q_owner_of" => wrap(self.w.q(&json!({"owner_of": {"token_id": tid()?, "include_expired": ie()?}})), &access),
            "q_approval" => wrap(self.w.q(&json!({"approval": {"token_id": tid()?, "spender": name(kv_u64(line, "sp")?), "include_expired": ie()?}})), &|v| {
                format!("{}@{}", name_id(v["approval"]["spender"].as_str().unwrap()), exp_of_json(&v["approval"]["expires"]))
            }),
            "q_approvals" => wrap(self.w.q(&json!({"approvals": {"token_id": tid()?, "include_expired": ie()?}})), &|v| render_approvals(&approvals_of(&v["approvals"]))),
            "q_operators" => wrap(
                self.w.q(&json!({"all_operators": {"owner": name(kv_u64(line, "owner")?), "include_expired": ie()?,
                    "start_after": kv_opt_u64(line, "after")?.map(name), "limit": kv_opt_u64(line, "limit")?}})),
                &|v| dash(v["operators"].as_array().unwrap().iter().map(|x| format!("{}@{}", name_id(x["spender"].as_str().unwrap()), exp_of_json(&x["expires"]))).collect(), ","),
            ),
            "q_nft_info" => wrap(self.w.q(&json!({"nft_info": {"token_id": tid()?}})), &nft),
            "q_all_nft_info" => wrap(self.w.q(&json!({"all_nft_info": {"token_id": tid()?, "include_expired": ie()?}})), &|v| format!("{}/{}", access(&v["access"]), nft(&v["info"]))),
            "q_tokens" => wrap(
                self.w.q(&json!({"tokens": {"owner": name(kv_u64(line, "owner")?), "start_after": kv_opt_u64(line, "after")?.map(|x| x.to_string()), "limit": kv_opt_u64(line, "limit")?}})),
                &ids,
            ),
            "q_all_tokens" => wrap(self.w.q(&json!({"all_tokens": {"start_after": kv_opt_u64(line, "after")?.map(|x| x.to_string()), "limit": kv_opt_u64(line, "limit")?}})), &ids),
            "q_ownership" => wrap(self.w.q(&json!({"ownership": {}})), &|v| {
                format!(
                    "{}/{}/{}",
                    fmt_opt(&v["owner"].as_str().map(name_id)),
                    fmt_opt(&v["pending_owner"].as_str().map(name_id)),
                    if v["pending_expiry"].is_null() { "-".to_string() } else { exp_of_json(&v["pending_expiry"]) }
                )
            }),
            "q_upd" => {
                let e = self.w.q(&json!({"enable_updatable": {}}));
                let f = self.w.q(&json!({"freeze_token_metadata": {}}));
                let fee = self.w.q(&json!({"enable_updatable_fee": {}}));
                match (e, f, fee) {
                    (Ok(e), Ok(f), Ok(fee)) => format!("q ok e={} f={} fee={}", e["enabled"].as_bool()? as u8, f["frozen"].as_bool()? as u8, fee.as_str()?),
                    _ => "q err".into(),
                }
            }
            "q_payout" => {
                let c = self.w.coll.clone()?;
                let ci: sg721_base::msg::CollectionInfoResponse = self.w.app.wrap().query_wasm_smart(c.to_string(), &json!({"collection_info": {}})).ok()?;
                let mut res: Response = Response::new();
                let r = ci.royalty_payout(c, Uint128::new(kv_u128(line, "pay")?), Uint128::new(kv_u128(line, "fee")?), kv_opt_u128(line, "fin")?.map(Uint128::new), &mut res);
                match r {
                    Ok(amt) => format!("q ok {} {}", amt.u128(), dash(res.messages.iter().map(|m| {
                        let s = render_msg(&m.msg);
                        // `render_msg` names the recipient with `world::addr_id`; accounts are `acct{n}` there too
                        s
                    }).collect(), ",")),
                    Err(_) => "q err".into(),
                }
            }
            _ => return None,
        })
    }
}

impl Sut for S {
    fn begin(&mut self, header: &str) -> (String, String) {
        self.hdr = header.to_string();
        self.reset(header);
        self.log.clear();
        self.marks.clear();
        (header.to_string(), "case".to_string())
    }

    fn exec(&mut self, line: &str) -> (String, String) {
        self.marks.clear();
        let op = line.split_whitespace().next().unwrap_or("").to_string();
        if op.starts_with("q_") {
            let out = catch(|| self.query_line(&op, line)).ok().flatten().unwrap_or("bad-op".into());
            self.marks.push(format!("q:{}:{op}:{}", self.cur_kind(), out.split_whitespace().nth(1).unwrap_or("?")));
            return (line.to_string(), out);
        }
        let kind_before = self.cur_kind();
        let live = self.w.coll.is_some();
        let mut model_line = format!("{line}{}", line_witness(&op, line));
        if op == "inst" {
            // the chain's address allocation: the next contract of the case (two stubs exist) — known before the call
            model_line.push_str(&format!(" self={COLL}"));
        }
        let r = catch(|| self.run_line(line));
        let res = match r {
            Ok(x) => {
                self.log.push(line.to_string());
                x
            }
            Err(_) => {
                // contract panicked (`todo!()`, `unreachable!()`, `minus_seconds` underflow): a failed transaction on chain;
                // cw-multi-test's state may be half-written, so the world is rebuilt from the log
                self.panics += 1;
                self.rebuild();
                Some(("ok", false))
            }
        };
        let Some((tag, ok)) = res else {
            return (model_line, "bad-op".into());
        };
        self.cur = self.w.observe();
        if live || op == "inst" {
            let k = if op == "inst" { kv(line, "kind").unwrap_or("?").to_string() } else { kind_before };
            let opn = if op == "raw" { format!("raw-{}", kv(line, "v").unwrap_or("?")) } else { op.clone() };
            self.marks.push(format!("cov:{k}:{opn}:{}", if ok { "ok" } else { "err" }));
        }
        (model_line, format!("{} {}", if ok { tag } else { "err" }, self.obs()))
    }
}

// ------------------------------------------------------------------------------------------------ generators

struct G {
    rng: Rng,
    h: u64,
    t: u64,
}

const VERSIONS: [&str; 12] = ["3.15.0", "3.1.0", "3.0.9", "3.0.5", "3.0.0", "2.9.9", "0.16.0", "0.15.9", "99.0.0", "3.1.1", "3.16.0", "3.16.1"];

fn parse_exp(e: &str) -> Option<(char, u64)> {
    if e == "n" || e == "-" {
        None
    } else {
        Some((e.chars().next().unwrap(), e[1..].parse().unwrap()))
    }
}

fn stepm(ses: &mut Session, sut: &mut S, line: &str) -> String {
    let out = ses.step(sut, line);
    for c in sut.marks.clone() {
        ses.mark(c);
    }
    out
}

impl G {
    fn any_sender(&mut self) -> u64 {
        let all = [10, 11, 20, 21, 22, 23, 30, 40, 50, STUB_A, STUB_B];
        *self.rng.pick(&all)
    }
    fn any_target(&mut self) -> u64 {
        match self.rng.below(12) {
            0 => *self.rng.pick(&INVALID),
            1 => STUB_A,
            2 => STUB_B,
            3 => COLL,
            4 => 10,
            _ => *self.rng.pick(&HOLDERS),
        }
    }
    fn funds(&mut self) -> String {
        match self.rng.below(24) {
            0 => "0:5".into(),
            1 => "1:7".into(),
            2 => "0:0".into(),
            3 => "0:3,1:2".into(),
            4 => "0:0,1:1".into(),
            5 => "0:999999999999999999".into(),
            _ => "-".into(),
        }
    }
    fn exp(&mut self) -> String {
        match self.rng.below(10) {
            0 | 1 => "-".into(),
            2 => "n".into(),
            3 => format!("h{}", self.h),
            4 => format!("h{}", self.h + 1),
            5 => format!("h{}", self.h + self.rng.range(2, 6)),
            6 => format!("t{}", self.t),
            7 => format!("t{}", self.t + 1),
            8 => format!("t{}", self.t + self.rng.range(2, 5) * 1_000_000_000),
            _ => format!("h{}", self.h.saturating_sub(1)),
        }
    }
    fn token_id(&mut self, o: &Obs, want_existing: bool) -> u64 {
        if want_existing && !o.toks.is_empty() {
            let i = self.rng.below(o.toks.len() as u64) as usize;
            o.toks[i].id
        } else {
            let free: Vec<u64> = (1..=12).filter(|i| o.tok(*i).is_none()).collect();
            if free.is_empty() || self.rng.chance(1, 10) {
                self.rng.range(1, 14)
            } else {
                *self.rng.pick(&free)
            }
        }
    }
    /// somebody who may move token `t`: owner, an approved spender, an operator of the owner
    fn mover(&mut self, o: &Obs, t: &Tok) -> u64 {
        let mut c: Vec<u64> = vec![t.owner, t.owner];
        c.extend(t.approvals.iter().map(|x| x.0));
        c.extend(o.ops.iter().filter(|x| x.0 == t.owner).map(|x| x.1));
        *self.rng.pick(&c)
    }
    fn share(&mut self, o: &Obs) -> u128 {
        let p = 10u128.pow(16);
        let old = o.roy.map(|r| r.1).unwrap_or(0);
        let c = [old, old + 2 * p, old + 2 * p + 1, (old + 2 * p).saturating_sub(1), old.saturating_sub(p), 10 * p, 10 * p + 1, 10 * p - 1, 100 * p, 100 * p + 1, 0, old + p, self.rng.below(12) as u128 * p];
        *self.rng.pick(&c)
    }
    fn desc(&mut self) -> String {
        let len = match self.rng.below(10) {
            0 => 512,
            1 => 513,
            2 => 511,
            3 => 0,
            4 => 5,
            5 => 518,
            _ => self.rng.range(6, 80),
        };
        let id = if len < 6 { 0 } else { self.rng.range(1, 50) };
        format!("{id}:{len}")
    }
    fn url(&mut self) -> u64 {
        if !self.rng.chance(1, 8) {
            *self.rng.pick(&[0u64, 1, 5, 6, 7, 11, 12])
        } else {
            *self.rng.pick(&[2u64, 3, 4, 8, 9, 10])
        }
    }

    fn inst_line(&mut self, kind: &str, fault: bool) -> String {
        let mut s = STUB_A;
        let mut funds = "-".to_string();
        let mut minter = if self.rng.chance(1, 6) { *self.rng.pick(&[STUB_B, 20, 10]) } else { STUB_A };
        let mut creator = 10;
        let mut desc = format!("{}:{}", self.rng.range(1, 40), *self.rng.pick(&[512u64, 30, 6, 100]));
        let mut image = *self.rng.pick(&[0u64, 1, 5, 6]);
        let mut ext = if self.rng.chance(1, 2) { (*self.rng.pick(&[0u64, 7, 11])).to_string() } else { "-".into() };
        let ec = *self.rng.pick(&["-", "0", "1"]);
        let stt = if self.rng.chance(1, 2) { "-".to_string() } else { (self.t + self.rng.below(1000)).to_string() };
        let p = 10u128.pow(16);
        let mut roy = match self.rng.below(6) {
            0 => "-".to_string(),
            1 => format!("40:{}", 100 * p),
            2 => "41:0".to_string(),
            3 => format!("40:{}", 10 * p),
            _ => format!("40:{}", self.rng.below(10) as u128 * p),
        };
        if fault {
            match self.rng.below(9) {
                0 => s = *self.rng.pick(&[10, 20, 50]),
                1 => funds = "0:10".into(),
                2 => minter = *self.rng.pick(&INVALID),
                3 => creator = *self.rng.pick(&INVALID),
                4 => desc = "4:513".into(),
                5 => image = *self.rng.pick(&[2u64, 3, 4]),
                6 => ext = (*self.rng.pick(&[2u64, 3, 4])).to_string(),
                7 => roy = format!("40:{}", 100 * p + 1),
                _ => roy = format!("{}:{}", self.rng.pick(&INVALID), 5 * p),
            }
        }
        format!(
            "inst kind={kind} s={s} funds={funds} nm={} sym={} minter={minter} creator={creator} desc={desc} image={image} ext={ext} ec={ec} stt={stt} roy={roy}",
            self.rng.range(1, 9),
            self.rng.range(1, 9)
        )
    }

    /// maybe advance the clock; prefers instants the current state makes interesting (-1 / 0 / +1)
    fn clock(&mut self, o: Option<&Obs>) -> Option<String> {
        if !self.rng.chance(1, 3) {
            return None;
        }
        let mut cands_t: Vec<u64> = vec![];
        let mut cands_h: Vec<u64> = vec![];
        if let Some(o) = o {
            cands_t.push(o.rua + DAY_NS);
            let mut exps: Vec<String> = o.toks.iter().flat_map(|t| t.approvals.iter().map(|x| x.1.clone())).collect();
            exps.extend(o.ops.iter().map(|x| x.2.clone()));
            if let Some(e) = &o.pexp {
                exps.push(e.clone());
            }
            for e in exps {
                match parse_exp(&e) {
                    Some(('h', v)) => cands_h.push(v),
                    Some(('t', v)) => cands_t.push(v),
                    _ => {}
                }
            }
        }
        let r = self.rng.below(10);
        if r < 4 && !cands_t.is_empty() {
            let c = *self.rng.pick(&cands_t);
            let d = *self.rng.pick(&[0i64, -1, 1]);
            let nt = (c as i64 + d) as u64;
            self.t = if nt >= self.t { nt } else { self.t + 1 };
            self.h += 1;
        } else if r < 6 && !cands_h.is_empty() {
            let c = *self.rng.pick(&cands_h);
            let d = *self.rng.pick(&[0i64, -1, 1]);
            let nh = (c as i64 + d).max(0) as u64;
            self.h = if nh >= self.h { nh } else { self.h + 1 };
            self.t += 5_000_000_000;
        } else if r < 8 {
            self.h += 1;
            self.t += self.rng.range(1, 6) * 1_000_000_000;
        } else {
            self.h += self.rng.range(1, 20000);
            self.t += self.rng.range(1, 2 * DAY_NS);
        }
        Some(format!("block h={} t={}", self.h, self.t))
    }

    fn query_line(&mut self, o: &Obs) -> String {
        let ie = self.rng.below(2);
        let want = self.rng.chance(4, 5);
        let id = self.token_id(o, want);
        let lim = match self.rng.below(6) {
            0 => "-".to_string(),
            1 => "0".into(),
            2 => "1".into(),
            3 => "200".into(),
            _ => self.rng.range(2, 12).to_string(),
        };
        let after_tok = if self.rng.chance(1, 2) { "-".to_string() } else { self.rng.range(0, 14).to_string() };
        let owner = if self.rng.chance(1, 12) { *self.rng.pick(&INVALID) } else { *self.rng.pick(&[20u64, 21, 22, 23, 10, STUB_B]) };
        match self.rng.below(11) {
            0 => format!("q_owner_of id={id} ie={ie}"),
            1 => format!("q_approval id={id} sp={} ie={ie}", self.rng.pick(&[20u64, 21, 22, 23, 30, STUB_B, 900])),
            2 => format!("q_approvals id={id} ie={ie}"),
            3 => {
                let after = match self.rng.below(4) {
                    0 => (*self.rng.pick(&[20u64, 21, 22, 30, STUB_B, 901])).to_string(),
                    _ => "-".into(),
                };
                format!("q_operators owner={owner} ie={ie} after={after} limit={lim}")
            }
            4 => format!("q_nft_info id={id}"),
            5 => format!("q_all_nft_info id={id} ie={ie}"),
            6 => format!("q_tokens owner={owner} after={after_tok} limit={lim}"),
            7 | 8 => format!("q_all_tokens after={after_tok} limit={lim}"),
            9 => (*self.rng.pick(&["q_upd", "q_ownership"])).into(),
            _ => {
                let pay = *self.rng.pick(&[0u128, 1, 9, 10, 100, 1000, 999_999, 10u128.pow(20) + 7]);
                let fee = *self.rng.pick(&[0u128, 1, 10, pay / 2, pay, pay + 1]);
                let fin = match self.rng.below(3) {
                    0 => "-".to_string(),
                    1 => "0".into(),
                    _ => (pay / 10).to_string(),
                };
                format!("q_payout pay={pay} fee={fee} fin={fin}")
            }
        }
    }

    /// one message line
    fn op_line(&mut self, o: &Obs, unknown: &[String]) -> String {
        let valid = self.rng.chance(7, 10);
        let minter = o.owner;
        let creator = o.creator;
        let f = self.funds();
        let upd = o.kind == "updatable";
        if !unknown.is_empty() && self.rng.chance(1, 12) {
            return format!("raw s={} funds=- v={}", self.any_sender(), self.rng.pick(unknown));
        }
        let pick = self.rng.below(100);
        let existing = |g: &mut G| {
            let want = valid || g.rng.chance(1, 2);
            let id = g.token_id(o, want);
            let s = match o.tok(id) {
                Some(t) if valid => {
                    let t = t.clone();
                    g.mover(o, &t)
                }
                _ => g.any_sender(),
            };
            (id, s)
        };
        if pick < 16 {
            let s = if valid && minter.is_some() { minter.unwrap() } else { self.any_sender() };
            let dup = !valid && self.rng.chance(1, 2);
            let id = self.token_id(o, dup);
            let owner = if !valid && self.rng.chance(1, 4) { *self.rng.pick(&INVALID) } else { self.any_target() };
            let uri = if self.rng.chance(1, 4) { "-".to_string() } else { self.rng.range(1, 30).to_string() };
            let s2 = if dup && minter.is_some() { minter.unwrap() } else { s };
            format!("mint s={s2} funds={f} id={id} owner={owner} uri={uri} ext={}", self.rng.below(4))
        } else if pick < 25 {
            let (id, s) = existing(self);
            format!("transfer s={s} funds={f} to={} id={id}", self.any_target())
        } else if pick < 31 {
            let (id, s) = existing(self);
            let to = if valid { *self.rng.pick(&[STUB_A, STUB_B]) } else { self.any_target() };
            format!("send s={s} funds={f} to={to} id={id} payload={}", if self.rng.chance(1, 5) { 0 } else { 1 })
        } else if pick < 40 {
            let (id, mut s) = existing(self);
            if valid {
                if let Some(t) = o.tok(id) {
                    if t.approvals.iter().any(|x| x.0 == s) && s != t.owner {
                        s = t.owner;
                    }
                }
            }
            let sp = if self.rng.chance(1, 12) { *self.rng.pick(&INVALID) } else { *self.rng.pick(&[21u64, 22, 23, 30, STUB_B]) };
            if self.rng.chance(2, 3) {
                format!("approve s={s} funds={f} sp={sp} id={id} exp={}", self.exp())
            } else {
                format!("revoke s={s} funds={f} sp={sp} id={id}")
            }
        } else if pick < 47 {
            let s = if valid { *self.rng.pick(&HOLDERS) } else { self.any_sender() };
            let opr = if self.rng.chance(1, 12) { *self.rng.pick(&INVALID) } else { *self.rng.pick(&[20u64, 21, 22, 30, STUB_B]) };
            if self.rng.chance(2, 3) {
                format!("approve_all s={s} funds={f} op={opr} exp={}", self.exp())
            } else {
                format!("revoke_all s={s} funds={f} op={opr}")
            }
        } else if pick < 54 {
            let (id, s) = existing(self);
            format!("burn s={s} funds={f} id={id}")
        } else if pick < 67 {
            let s = if valid { creator } else { self.any_sender() };
            let desc = if self.rng.chance(1, 2) { "-".to_string() } else { self.desc() };
            let image = if self.rng.chance(1, 2) { "-".to_string() } else { self.url().to_string() };
            let ext = if self.rng.chance(1, 2) { "-".to_string() } else { self.url().to_string() };
            let ec = *self.rng.pick(&["-", "0", "1"]);
            let roy = match self.rng.below(6) {
                0 | 1 | 2 => "-".to_string(),
                _ => {
                    let payee = if self.rng.chance(1, 12) { *self.rng.pick(&INVALID) } else { *self.rng.pick(&PAYEES) };
                    format!("{payee}:{}", self.share(o))
                }
            };
            let cr = match self.rng.below(8) {
                0 => "11".to_string(),
                1 => "10".to_string(),
                2 if !valid => self.rng.pick(&INVALID).to_string(),
                _ => "-".to_string(),
            };
            format!("uci s={s} funds={f} desc={desc} image={image} ext={ext} ec={ec} roy={roy} creator={cr}")
        } else if pick < 71 {
            let s = if valid && minter.is_some() { minter.unwrap() } else { self.any_sender() };
            let t = if self.rng.chance(1, 4) { "-".to_string() } else { (self.t + self.rng.below(100000)).to_string() };
            format!("ustt s={s} funds={f} t={t}")
        } else if pick < 75 {
            let s = if valid && (o.fz || self.rng.chance(1, 3)) { creator } else { self.any_sender() };
            format!("freeze s={s} funds={f}")
        } else if pick < 83 {
            let r = if o.pending.is_some() && self.rng.chance(1, 2) { 3 } else { self.rng.below(6) };
            match r {
                0 | 1 | 2 => {
                    let s = if valid && minter.is_some() { minter.unwrap() } else { self.any_sender() };
                    let to = if self.rng.chance(1, 10) { *self.rng.pick(&INVALID) } else { *self.rng.pick(&[STUB_A, STUB_B, 20, 10]) };
                    format!("own_transfer s={s} funds={f} to={to} exp={}", self.exp())
                }
                3 | 4 => {
                    let s = if valid && o.pending.is_some() { o.pending.unwrap() } else { self.any_sender() };
                    format!("own_accept s={s} funds={f}")
                }
                _ => {
                    let s = if valid && minter.is_some() && self.rng.chance(1, 4) { minter.unwrap() } else { self.any_sender() };
                    format!("own_renounce s={s} funds={f}")
                }
            }
        } else if pick < 93 {
            if !upd && self.rng.chance(2, 3) {
                let s = minter.unwrap_or(STUB_A);
                let id = self.token_id(o, false);
                return format!("mint s={s} funds=- id={id} owner={} uri={} ext=1", self.rng.pick(&HOLDERS), self.rng.range(1, 30));
            }
            match self.rng.below(10) {
                0 => {
                    let s = if valid && (o.fm || self.rng.chance(1, 3)) { creator } else { self.any_sender() };
                    format!("freeze_meta s={s} funds={}", if valid { "-".to_string() } else { f.clone() })
                }
                1 | 2 => {
                    let s = if valid { creator } else { self.any_sender() };
                    let ff = match self.rng.below(8) {
                        0 => format!("0:{}", FEE - 1),
                        1 => format!("0:{}", FEE + 1),
                        2 => format!("1:{FEE}"),
                        3 => "-".to_string(),
                        4 => format!("0:{FEE},1:5"),
                        _ => format!("0:{FEE}"),
                    };
                    format!("enable s={s} funds={ff}")
                }
                _ => {
                    let s = if valid { creator } else { self.any_sender() };
                    let want = valid || self.rng.chance(1, 2);
                    let id = self.token_id(o, want);
                    let uri = if self.rng.chance(1, 5) { "-".to_string() } else { self.rng.range(31, 60).to_string() };
                    format!("utm s={s} funds={} id={id} uri={uri}", if valid { "-".to_string() } else { f.clone() })
                }
            }
        } else if pick < 94 {
            format!("extension s={} funds={f}", self.any_sender())
        } else if pick < 96 {
            format!("fund a={} d={} amt={}", self.any_sender(), self.rng.below(2), *self.rng.pick(&[1u128, 5, 100, FEE, 3 * FEE]))
        } else {
            match self.rng.below(7) {
                0 | 1 => format!("setver v={}", self.rng.pick(&VERSIONS)),
                2 => format!("setlegacy a={}", self.rng.pick(&["-", "20", "1001", "1000", "901"])),
                3 | 4 => "migrate_upd".into(),
                _ => "migrate_self".into(),
            }
        }
    }
}

fn header(kind: &str, h: u64, t: u64, tag: &str) -> String {
    format!("case accts={ACCTS} h={h} t={t} kind={kind} {tag}")
}
fn prelude(ses: &mut Session, sut: &mut S) {
    for l in [
        format!("fund a=10 d=0 amt={}", 20 * FEE),
        "fund a=10 d=1 amt=1000".to_string(),
        "fund a=11 d=0 amt=1000".to_string(),
        "fund a=20 d=0 amt=500".to_string(),
        "fund a=20 d=1 amt=500".to_string(),
        "fund a=21 d=0 amt=50".to_string(),
        "fund a=30 d=0 amt=7".to_string(),
        format!("fund a={STUB_A} d=0 amt=40"),
        format!("fund a={STUB_A} d=1 amt=9"),
    ] {
        stepm(ses, sut, &l);
    }
}

fn random_case(ses: &mut Session, sut: &mut S, g: &mut G, kind: &str, n_ops: u64, tag: &str) {
    g.h = 100 + g.rng.below(50);
    g.t = if g.rng.chance(1, 12) { DAY_NS - g.rng.below(3) } else { T0 + g.rng.below(1_000_000_000) };
    ses.begin_case(sut, &header(kind, g.h, g.t, tag));
    prelude(ses, sut);
    if g.rng.chance(1, 6) {
        stepm(ses, sut, "freeze s=10 funds=-");
        stepm(ses, sut, "q_all_tokens after=- limit=-");
    }
    let mut tries = 0;
    loop {
        let fault = tries == 0 && g.rng.chance(1, 3);
        let l = g.inst_line(kind, fault);
        let out = stepm(ses, sut, &l);
        tries += 1;
        if out.starts_with("ok") {
            break;
        }
        assert!(tries < 8, "cannot instantiate: {l} -> {out}");
    }
    let unknown = sut.sf.unknown.get(kind).cloned().unwrap_or_default();
    let early_freeze = g.rng.chance(1, 4);
    let migrate_early = kind == "base" && g.rng.chance(1, 4);
    let upgrade_mid = (kind == "updatable" || kind == "onchain") && g.rng.chance(1, 3);
    let old_release = kind == "base" && g.rng.chance(1, 6);
    let legacy = g.rng.chance(1, 8);
    for i in 0..n_ops {
        let o = sut.cur.clone();
        if let Some(b) = g.clock(o.as_ref()) {
            stepm(ses, sut, &b);
        }
        let Some(o) = sut.cur.clone() else { break };
        if old_release && i == 1 {
            stepm(ses, sut, &format!("setver v={}", g.rng.pick(&["3.0.5", "3.1.0", "3.15.0", "2.9.9"])));
            continue;
        }
        if legacy && i == 2 {
            stepm(ses, sut, &format!("setlegacy a={}", g.rng.pick(&["20", "1001"])));
            continue;
        }
        if migrate_early && i == 3 {
            stepm(ses, sut, "migrate_upd");
            continue;
        }
        if early_freeze && i == n_ops / 4 {
            stepm(ses, sut, &format!("freeze s={} funds=-", o.creator));
            continue;
        }
        if upgrade_mid && i == n_ops / 2 {
            stepm(ses, sut, &format!("setver v={}", g.rng.pick(&["3.15.0", "3.1.0", "3.0.5", "3.0.0", "2.9.9"])));
            stepm(ses, sut, "migrate_self");
            continue;
        }
        if g.rng.chance(1, 7) {
            let q = g.query_line(&o);
            stepm(ses, sut, &q);
            continue;
        }
        let line = g.op_line(&o, &unknown);
        let out = stepm(ses, sut, &line);
        // same-block repetition of the call just made
        if g.rng.chance(1, 15) {
            stepm(ses, sut, &line);
        }
        let op = line.split_whitespace().next().unwrap();
        let s = kv_u64(&line, "s");
        let who = if s.is_some() && s == o.owner {
            "minter"
        } else if s == Some(o.creator) {
            "creator"
        } else if s.is_some() && s == o.pending {
            "pending"
        } else {
            "other"
        };
        ses.mark(format!("{}:{op}:{who}:fz{}:fm{}:funds{}:{}", o.kind, o.fz as u8, o.fm as u8, (kv(&line, "funds").unwrap_or("-") != "-") as u8, &out[..2]));
    }
    ses.end_case();
}

/// deterministic tour of one collection kind: every message kind, every query, every migration branch, rejected twins.
/// (The coverage floor does not depend on the seed.)
fn tour(ses: &mut Session, sut: &mut S, kind: &str) {
    let (h, t0) = (100u64, T0);
    let p = 10u128.pow(16);
    let a = STUB_A;
    let b = STUB_B;
    let inst = |s: u64, funds: &str, extra: &str| {
        format!("inst kind={kind} s={s} funds={funds} nm=1 sym=2 minter={a} creator=10 desc=1:512 image=0 ext=7 ec=0 stt=- roy=40:{}{extra}", 5 * p)
    };
    let qs: Vec<String> = vec![
        "q_all_tokens after=- limit=-".into(),
        "q_all_tokens after=1 limit=2".into(),
        "q_all_tokens after=- limit=0".into(),
        "q_tokens owner=20 after=- limit=-".into(),
        "q_tokens owner=21 after=10 limit=5".into(),
        "q_tokens owner=900 after=- limit=-".into(),
        "q_owner_of id=1 ie=0".into(),
        "q_owner_of id=1 ie=1".into(),
        "q_owner_of id=77 ie=1".into(),
        "q_nft_info id=1".into(),
        "q_all_nft_info id=1 ie=1".into(),
        "q_approvals id=1 ie=0".into(),
        "q_approvals id=1 ie=1".into(),
        "q_approval id=1 sp=20 ie=0".into(),
        "q_approval id=1 sp=22 ie=0".into(),
        "q_approval id=1 sp=23 ie=1".into(),
        "q_operators owner=20 ie=0 after=- limit=-".into(),
        "q_operators owner=20 ie=1 after=- limit=1".into(),
        "q_operators owner=20 ie=1 after=21 limit=-".into(),
        "q_operators owner=20 ie=1 after=901 limit=-".into(),
        "q_upd".into(),
        "q_ownership".into(),
        "q_payout pay=1000 fee=10 fin=5".into(),
        "q_payout pay=1000 fee=990 fin=-".into(),
        "q_payout pay=10 fee=11 fin=-".into(),
    ];
    let mut l: Vec<String> = vec![];
    l.push("freeze s=10 funds=-".into());
    l.push("q_all_tokens after=- limit=-".into());
    l.push("setver v=3.0.5".into());
    l.push(inst(10, "-", ""));
    l.push(inst(a, "0:1", ""));
    l.push(format!("inst kind={kind} s={a} funds=- nm=1 sym=2 minter=901 creator=10 desc=1:512 image=0 ext=7 ec=0 stt=- roy=-"));
    l.push(inst(a, "-", ""));
    l.push(inst(a, "-", ""));
    for (id, owner, uri, ext) in [(1, 20, "1", 3), (2, 20, "-", 0), (10, 21, "4", 1), (3, 21, "5", 0), (4, 22, "6", 2)] {
        l.push(format!("mint s={a} funds=- id={id} owner={owner} uri={uri} ext={ext}"));
    }
    l.push(format!("mint s={a} funds=- id=1 owner=21 uri=2 ext=0"));
    l.push("mint s=30 funds=- id=5 owner=21 uri=2 ext=0".into());
    l.push(format!("mint s={a} funds=0:3 id=5 owner=23 uri=2 ext=0"));
    l.extend(qs.iter().cloned());
    l.push(format!("approve s=20 funds=- sp=22 id=1 exp=h{}", h + 2));
    l.push(format!("approve s=20 funds=- sp=23 id=1 exp=t{}", t0 + 5));
    l.push("approve s=30 funds=- sp=30 id=1 exp=-".into());
    l.push(format!("approve_all s=20 funds=- op=30 exp=t{}", t0 + 10));
    l.push("approve_all s=20 funds=0:1 op=21 exp=-".into());
    l.push(format!("approve_all s=20 funds=- op=22 exp=h{h}"));
    l.extend(qs.iter().cloned());
    l.push(format!("block h={h} t={}", t0 + 5));
    l.extend(qs.iter().cloned());
    l.push("revoke s=20 funds=- sp=23 id=1".into());
    l.push("transfer s=23 funds=- to=21 id=1".into());
    l.push("transfer s=22 funds=- to=900 id=1".into());
    l.push("transfer s=22 funds=- to=21 id=1".into());
    l.push(format!("send s=21 funds=- to={b} id=1 payload=0"));
    l.push("send s=21 funds=- to=22 id=1 payload=1".into());
    l.push(format!("send s=21 funds=- to={b} id=1 payload=1"));
    l.push(format!("transfer s={b} funds=- to=20 id=1"));
    l.push("revoke_all s=20 funds=- op=30".into());
    l.push("burn s=21 funds=- id=2".into());
    l.push("burn s=20 funds=- id=2".into());
    l.push("uci s=10 funds=- desc=2:40 image=1 ext=11 ec=1 roy=- creator=-".into());
    l.push("uci s=10 funds=- desc=2:513 image=- ext=- ec=- roy=- creator=-".into());
    l.push("uci s=10 funds=- desc=- image=2 ext=- ec=- roy=- creator=-".into());
    l.push("uci s=30 funds=- desc=3:10 image=- ext=- ec=- roy=- creator=30".into());
    l.push(format!("uci s=10 funds=- desc=- image=- ext=- ec=- roy=41:{} creator=-", 6 * p));
    l.push(format!("block h={} t={}", h + 1, t0 + DAY_NS - 1));
    l.push(format!("uci s=10 funds=- desc=- image=- ext=- ec=- roy=41:{} creator=-", 6 * p));
    l.push(format!("block h={} t={}", h + 2, t0 + DAY_NS));
    l.push(format!("uci s=10 funds=- desc=- image=- ext=- ec=- roy=41:{} creator=-", 7 * p + 1));
    l.push(format!("uci s=10 funds=- desc=- image=- ext=- ec=- roy=901:{} creator=-", 6 * p));
    l.push(format!("uci s=10 funds=0:5 desc=- image=- ext=- ec=- roy=41:{} creator=11", 7 * p));
    l.push(format!("uci s=11 funds=- desc=- image=- ext=- ec=- roy=41:{} creator=-", 6 * p));
    l.push("q_payout pay=1000 fee=10 fin=5".into());
    l.push("q_payout pay=1000 fee=931 fin=-".into());
    l.push(format!("ustt s={a} funds=- t={}", t0 + 77));
    l.push("ustt s=11 funds=- t=78".into());
    l.push(format!("ustt s={a} funds=- t=-"));
    l.push(format!("own_transfer s={a} funds=- to=901 exp=-"));
    l.push(format!("own_transfer s={a} funds=- to={b} exp=h{}", h + 3));
    l.push(format!("own_accept s={a} funds=-"));
    l.push(format!("own_accept s={b} funds=-"));
    l.push(format!("mint s={a} funds=- id=6 owner=21 uri=2 ext=0"));
    l.push(format!("mint s={b} funds=- id=6 owner=21 uri=2 ext=0"));
    l.push(format!("own_transfer s={b} funds=- to={a} exp=h{}", h + 2));
    l.push(format!("own_accept s={a} funds=-"));
    l.push(format!("own_transfer s={b} funds=- to={a} exp=-"));
    l.push(format!("own_accept s={a} funds=-"));
    l.push("utm s=11 funds=- id=1 uri=31".into());
    l.push("utm s=11 funds=- id=99 uri=31".into());
    l.push("utm s=20 funds=- id=1 uri=32".into());
    l.push("utm s=11 funds=0:1 id=1 uri=33".into());
    l.push(format!("enable s=11 funds=0:{FEE}"));
    l.push("extension s=20 funds=-".into());
    for v in sut.sf.unknown.get(kind).cloned().unwrap_or_default() {
        l.push(format!("raw s=20 funds=- v={v}"));
        l.push(format!("raw s=11 funds=- v={v}"));
    }
    // migrations: same version, older releases around the inline thresholds, legacy ownership upgrade
    l.push("migrate_self".into());
    l.push("migrate_upd".into());
    l.push("setver v=3.15.0".into());
    l.push("migrate_self".into());
    l.push("setver v=3.16.1".into());
    l.push("migrate_self".into());
    l.push("migrate_upd".into());
    l.push("setver v=0.15.9".into());
    l.push("migrate_self".into());
    l.push("migrate_upd".into());
    l.push("setver v=3.0.9".into());
    l.push("migrate_upd".into());
    l.push(format!("uci s=11 funds=- desc=- image=- ext=- ec=- roy=41:{} creator=-", 8 * p));
    l.push("setver v=2.9.9".into());
    l.push("migrate_upd".into());
    l.push("migrate_self".into());
    l.push("setlegacy a=901".into());
    l.push("migrate_upd".into());
    l.push("migrate_self".into());
    l.push(format!("own_transfer s={a} funds=- to=22 exp=-"));
    l.push("setlegacy a=20".into());
    l.push("migrate_upd".into());
    l.push("migrate_self".into());
    l.push("setlegacy a=-".into());
    l.push("mint s=20 funds=- id=7 owner=23 uri=- ext=0".into());
    l.push(format!("mint s={a} funds=- id=7 owner=23 uri=- ext=0"));
    l.push("q_upd".into());
    // sg721-updatable messages (accepted after a base -> updatable migration as well)
    l.push("utm s=11 funds=- id=1 uri=31".into());
    l.push(format!("enable s=20 funds=0:{FEE}"));
    l.push(format!("enable s=11 funds=0:{}", FEE - 1));
    l.push(format!("enable s=11 funds=1:{FEE}"));
    l.push("enable s=11 funds=-".into());
    l.push(format!("enable s=11 funds=0:{FEE},1:1"));
    l.push(format!("fund a=11 d=0 amt={}", 3 * FEE));
    l.push(format!("enable s=11 funds=0:{}", FEE + 1));
    l.push(format!("enable s=11 funds=0:{FEE}"));
    l.push("utm s=11 funds=- id=1 uri=31".into());
    l.push("utm s=11 funds=- id=1 uri=-".into());
    l.push("freeze_meta s=20 funds=-".into());
    l.push("freeze_meta s=11 funds=0:1".into());
    l.push("freeze_meta s=11 funds=-".into());
    l.push("utm s=11 funds=- id=1 uri=34".into());
    l.push("q_upd".into());
    l.push("freeze s=10 funds=-".into());
    l.push("freeze s=11 funds=-".into());
    l.push("freeze s=11 funds=-".into());
    l.push("uci s=11 funds=- desc=5:10 image=- ext=- ec=- roy=- creator=-".into());
    l.push("own_renounce s=30 funds=-".into());
    l.push("own_renounce s=20 funds=-".into());
    l.push(format!("own_renounce s={a} funds=-"));
    l.push("mint s=20 funds=- id=8 owner=23 uri=- ext=0".into());
    l.push("burn s=23 funds=- id=7".into());
    l.extend(qs.iter().cloned());
    ses.begin_case(sut, &header(kind, h, t0, "tour"));
    prelude(ses, sut);
    for x in &l {
        stepm(ses, sut, x);
    }
    ses.end_case();

    // older release below 3.1.0 in a block before 24 h: `minus_seconds` underflow, then exactly 24 h
    let l2: Vec<String> = vec![
        inst(a, "-", ""),
        format!("mint s={a} funds=- id=1 owner=20 uri=1 ext=0"),
        "setver v=3.0.5".into(),
        "migrate_upd".into(),
        "migrate_self".into(),
        format!("block h=6 t={DAY_NS}"),
        "migrate_upd".into(),
        "migrate_self".into(),
        "migrate_self".into(),
        format!("uci s=10 funds=- desc=- image=- ext=- ec=- roy=41:{} creator=-", 6 * p),
    ];
    ses.begin_case(sut, &header(kind, 5, DAY_NS - 1, "tour-early-clock"));
    for x in &l2 {
        stepm(ses, sut, x);
    }
    ses.end_case();

    // more tokens than a page; decimal-string order of the ids
    let mut l3: Vec<String> = vec![inst(a, "-", "")];
    for i in 1..=103u64 {
        l3.push(format!("mint s={a} funds=- id={i} owner={} uri=- ext=0", 20 + i % 4));
    }
    for q in ["q_all_tokens after=- limit=-", "q_all_tokens after=- limit=100", "q_all_tokens after=- limit=200", "q_all_tokens after=19 limit=30", "q_all_tokens after=55 limit=100", "q_tokens owner=21 after=- limit=100", "q_tokens owner=21 after=5 limit=7"] {
        l3.push(q.into());
    }
    ses.begin_case(sut, &header(kind, h, t0, "tour-paging"));
    for x in &l3 {
        stepm(ses, sut, x);
    }
    ses.end_case();
    ses.mark(format!("tour:{kind}"));
}

fn main() {
    let mut ses = Session::new("COMPCOLL");
    let sf = Surface::load();
    let mut sut = S::new(sf.clone());
    if ses.maybe_replay(&mut sut) {
        ses.finish(&mut sut);
    }
    let mut g = G { rng: ses.rng.fork(), h: 100, t: T0 };
    for kind in KINDS {
        tour(&mut ses, &mut sut, kind);
    }
    let per_kind = ses.scale(90, 1000);
    for kind in KINDS {
        for i in 0..per_kind {
            let n_ops = 30 + g.rng.below(60);
            random_case(&mut ses, &mut sut, &mut g, kind, n_ops, &format!("random i={i}"));
        }
    }
    // ---- coverage floor: every collection kind x every message kind of ITS schema accepted at least once (the variants are
    // enumerated from the crates' JSON schemas at run time), every message kind it lacks rejected, every query answered
    for kind in KINDS {
        ses.require(format!("tour:{kind}"));
        ses.require(format!("cov:{kind}:inst:ok"));
        ses.require(format!("cov:{kind}:inst:err"));
        for op in ALL_OPS {
            let has = sf.has[kind].contains(op);
            // `Extension` aborts (`todo!()` / `unreachable!()`) wherever it exists
            let want = if has && op != "extension" { "ok" } else { "err" };
            ses.require(format!("cov:{kind}:{op}:{want}"));
            if has {
                ses.require(format!("cov:{kind}:{op}:err"));
            }
        }
        for u in &sf.unknown[kind] {
            ses.require(format!("cov:{kind}:raw-{u}:"));
        }
        for q in ["q_owner_of", "q_approval", "q_approvals", "q_operators", "q_nft_info", "q_all_nft_info", "q_tokens", "q_all_tokens", "q_payout"] {
            ses.require(format!("q:{kind}:{q}:ok"));
            if q != "q_all_tokens" {
                ses.require(format!("q:{kind}:{q}:err"));
            }
        }
        ses.require(format!("q:{kind}:q_upd:{}", if kind == "updatable" { "ok" } else { "err" }));
        ses.require(format!("q:{kind}:q_ownership:{}", if sf.has[kind].contains("own_transfer") || kind == "nt" { "ok" } else { "err" }));
        ses.require(format!("cov:{kind}:migrate_self:err"));
        ses.require(format!("cov:{kind}:migrate_upd:err"));
        ses.require(format!("cov:{kind}:setver:ok"));
        ses.require(format!("cov:{kind}:setlegacy:ok"));
    }
    for k in ["base", "updatable"] {
        ses.require(format!("cov:{k}:migrate_upd:ok"));
    }
    for k in ["updatable", "onchain"] {
        ses.require(format!("cov:{k}:migrate_self:ok"));
    }
    ses.note(format!(
        "4 collections x (3 deterministic tours + {per_kind} random histories of 30-90 lines): every ExecuteMsg variant of each schema, 10 query kinds, migrations from older stored versions incl. the legacy-minter ownership upgrade, funds on every message kind; contract panics caught: {}",
        sut.panics
    ));
    ses.finish(&mut sut);
}
