//! Composite correspondence for the SG-721 collection family (DESIGN 3.4): the REAL sg721-base / -nt / -updatable /
//! -metadata-onchain entry points under cw-multi-test against the composite Lean model `LP.CF`
//! (lean/LaunchpadModel/Model/CollectionFull.lean, driver lean/LaunchpadModel/Driver/CompColl.lean).
//!
//! ok/err must agree on EVERY op and the complete observable state (every public query, bank balances of every account
//! of the case, the typed storage items) is compared after every op; query lines compare the canonical answer.
//! No monitors here (the per-property bins own them). Nothing is taken from the op's outcome: the only witnesses are
//! `iv=`/`ev=` (`Url::parse` on the strings of the line), `recv=` (what the receiving stub does with this payload),
//! `self=` (the address the chain will allocate) — all computed BEFORE the call.
//! Protocol and observation format: docs/COMPOSITE_COLLECTION.md section 3.
use std::collections::{BTreeMap, BTreeSet, HashMap};

use cosmwasm_schema::cw_serde;
use cosmwasm_std::{
    to_json_binary, Addr, Binary, BlockInfo, Coin, Decimal, Deps, DepsMut, Empty, Env, MessageInfo, Order, Reply, Response, StdError, StdResult,
    SubMsg, Timestamp, Uint128, WasmMsg,
};
use cw_multi_test::{BankSudo, ContractWrapper, Executor, SudoMsg};
use cw_storage_plus::Item;
use lp_harness::boxes::{self, custom_mock_app, App, Boxed};
use lp_harness::world::*;
use lp_harness::*;
use serde_json::{json, Map, Value};

// ------------------------------------------------------------------------------------------------ stub contract

#[cw_serde]
pub enum StubExec {
    /// forward a message to another contract as a sub-message, paying `funds` from the stub's OWN balance
    Forward { to: String, msg: Binary, funds: Vec<Coin> },
    /// instantiate a contract (the collection) as a sub-message, so that `info.sender` is this contract
    Inst { code_id: u64, msg: Binary, admin: Option<String>, funds: Vec<Coin> },
    /// cw721 receiver hook; refuses the token when the payload is `fail`
    ReceiveNft(cw721::Cw721ReceiveMsg),
}

const LAST_INST: Item<String> = Item::new("last_inst");

fn stub_instantiate(_d: DepsMut, _e: Env, _i: MessageInfo, _m: Empty) -> StdResult<Response> {
    Ok(Response::new())
}
fn stub_execute(_d: DepsMut, _e: Env, _i: MessageInfo, m: StubExec) -> StdResult<Response> {
    match m {
        StubExec::Forward { to, msg, funds } => Ok(Response::new().add_message(WasmMsg::Execute { contract_addr: to, msg, funds })),
        StubExec::Inst { code_id, msg, admin, funds } => Ok(Response::new()
            .add_submessage(SubMsg::reply_on_success(WasmMsg::Instantiate { admin, code_id, msg, funds, label: "collection".into() }, 1))),
        StubExec::ReceiveNft(r) => {
            if r.msg.as_slice() == b"fail" {
                Err(StdError::generic_err("stub refuses this token"))
            } else {
                Ok(Response::new())
            }
        }
    }
}
fn stub_reply(d: DepsMut, _e: Env, m: Reply) -> StdResult<Response> {
    let r = cw_utils::parse_reply_instantiate_data(m).map_err(|e| StdError::generic_err(e.to_string()))?;
    LAST_INST.save(d.storage, &r.contract_address)?;
    Ok(Response::new())
}
fn stub_query(d: Deps, _e: Env, _m: Empty) -> StdResult<Binary> {
    to_json_binary(&LAST_INST.may_load(d.storage)?)
}
fn stub_box() -> Boxed {
    Box::new(ContractWrapper::new(stub_execute, stub_instantiate, stub_query).with_reply(stub_reply))
}

// ------------------------------------------------------------------------------------------------ naming

const CREATORS: [u64; 2] = [10, 11];
const HOLDERS: [u64; 4] = [20, 21, 22, 23];
const STRANGER: u64 = 30;
const PAYEES: [u64; 2] = [40, 41];
const ADMIN: u64 = 50;
const INVALID: [u64; 4] = [900, 901, 902, 903];
const STUB_A: u64 = 1000;
const STUB_B: u64 = 1001;
/// the address cw-multi-test gives the third contract of a case (the collection)
const COLL: u64 = 1002;
const POOL: u64 = 4;
const DAY_NS: u64 = 86_400_000_000_000;
const T0: u64 = 1_700_000_000_000_000_000;
const KINDS: [&str; 4] = ["base", "nt", "updatable", "onchain"];
const FEE: u128 = 1_500_000_000;
const ACCTS: &str = "10,11,20,21,22,23,30,40,41,50,4,1000,1001,1002";

/// id -> address string. 900..=999 are malformed strings (rejected by `addr_validate`); everything else as `world::addr`.
fn name(id: u64) -> String {
    match id {
        n if (900..1000).contains(&n) => match n % 4 {
            0 => "ab".to_string(),        // too short
            1 => format!("Acct{:05}", n), // not normalised (upper case)
            2 => "x".repeat(100),         // too long
            _ => String::new(),           // empty
        },
        n => addr(n),
    }
}
fn name_id(s: &str) -> u64 {
    if let Some(k) = s.strip_prefix("acct").and_then(|k| k.parse::<u64>().ok()) {
        k
    } else {
        addr_id(s)
    }
}
fn ad(id: u64) -> Addr {
    Addr::unchecked(name(id))
}

fn url_str(id: u64) -> String {
    let n = id / 6;
    match id % 6 {
        0 => format!("https://example.com/{n}"),
        1 => format!("ipfs://bafy{n}/img.png"),
        2 => format!("not-a-url-{n}"),
        3 => format!("//missing-scheme/{n}"),
        4 => format!("http://[::1/{n}"),
        _ => format!("data:text/plain,{n}"),
    }
}
fn url_valid(id: u64) -> bool {
    url::Url::parse(&url_str(id)).is_ok()
}
fn desc_str(id: u64, len: u64) -> String {
    let len = len as usize;
    if len < 6 {
        return "x".repeat(len);
    }
    let head = format!("{:06}", id % 1_000_000);
    let rest = len - 6;
    let s = if id % 2 == 1 && rest % 2 == 0 { head + &"é".repeat(rest / 2) } else { head + &"x".repeat(rest) };
    assert_eq!(s.len(), len);
    s
}
fn desc_back(s: &str) -> (u64, u64) {
    let len = s.len() as u64;
    let id = if s.len() >= 6 { s.get(..6).and_then(|h| h.parse::<u64>().ok()).unwrap_or(999_999) } else { 0 };
    (id, len)
}
fn uri_str(id: u64) -> String {
    format!("ipfs://meta/{id}.json")
}
fn uri_back(s: &str) -> u64 {
    s.strip_prefix("ipfs://meta/").and_then(|r| r.strip_suffix(".json")).and_then(|n| n.parse().ok()).unwrap_or(999_999)
}
fn exp_json(e: &str) -> Value {
    match e {
        "-" => Value::Null,
        "n" => json!({"never": {}}),
        x if x.starts_with('h') => json!({"at_height": x[1..].parse::<u64>().unwrap()}),
        x if x.starts_with('t') => json!({"at_time": x[1..].to_string()}),
        _ => panic!("bad exp {e}"),
    }
}
fn exp_back(e: &cw_utils::Expiration) -> String {
    match e {
        cw_utils::Expiration::Never {} => "n".into(),
        cw_utils::Expiration::AtHeight(h) => format!("h{h}"),
        cw_utils::Expiration::AtTime(t) => format!("t{}", t.nanos()),
    }
}
fn exp_of_json(v: &Value) -> String {
    exp_back(&serde_json::from_value::<cw_utils::Expiration>(v.clone()).expect("expiration"))
}
fn share_str(atomics: u128) -> String {
    Decimal::new(Uint128::new(atomics)).to_string()
}
fn kind_of_name(n: &str) -> String {
    match n {
        "crates.io:sg721-base" | "sg721-base" => "base",
        "crates.io:sg721-nt" => "nt",
        "crates.io:sg721-updatable" | "sg721-updatable" => "updatable",
        "crates.io:sg721-metadata-onchain" => "onchain",
        x => x,
    }
    .to_string()
}
fn dash(v: Vec<String>, sep: &str) -> String {
    if v.is_empty() {
        "-".to_string()
    } else {
        v.join(sep)
    }
}
fn ob(b: &Option<bool>) -> &'static str {
    match b {
        None => "-",
        Some(true) => "1",
        Some(false) => "0",
    }
}
/// approvals of a cw721 answer, canonical: sorted by spender id, `sp@exp+…`
fn approvals_of(v: &Value) -> Vec<(u64, String)> {
    let mut a: Vec<(u64, String)> = v.as_array().map(|x| x.iter().map(|ap| (name_id(ap["spender"].as_str().unwrap()), exp_of_json(&ap["expires"]))).collect()).unwrap_or_default();
    a.sort();
    a
}
fn render_approvals(a: &[(u64, String)]) -> String {
    dash(a.iter().map(|(s, e)| format!("{s}@{e}")).collect(), "+")
}

// ------------------------------------------------------------------------------------------------ observations

#[derive(Clone, PartialEq, Debug, Default)]
struct Tok {
    id: u64,
    owner: u64,
    uri: Option<u64>,
    ext: u64,
    approvals: Vec<(u64, String)>,
    live: Vec<u64>,
}
#[derive(Clone, PartialEq, Debug, Default)]
struct Obs {
    this: u64,
    kind: String,
    ver: String,
    nm: (u64, u64),
    owner: Option<u64>,
    pending: Option<u64>,
    pexp: Option<String>,
    leg: Option<u64>,
    fz: bool,
    rua: u64,
    creator: u64,
    desc: (u64, u64),
    img: u64,
    ext: Option<u64>,
    ec: Option<bool>,
    stt: Option<u64>,
    roy: Option<(u64, u128)>,
    n: u64,
    toks: Vec<Tok>,
    /// (granter, operator, expiry, not expired in the current block)
    ops: Vec<(u64, u64, String, bool)>,
    fm: bool,
    ue: bool,
}
impl Obs {
    fn tok(&self, id: u64) -> Option<&Tok> {
        self.toks.iter().find(|t| t.id == id)
    }
    fn render(&self) -> String {
        let toks: Vec<String> = self
            .toks
            .iter()
            .map(|t| {
                format!(
                    "{}/{}/{}/{}/{}/{}",
                    t.id,
                    t.owner,
                    fmt_opt(&t.uri),
                    t.ext,
                    render_approvals(&t.approvals),
                    dash(t.live.iter().map(|s| s.to_string()).collect(), "+")
                )
            })
            .collect();
        let ops: Vec<String> = self.ops.iter().map(|(o, p, e, l)| format!("{o}>{p}@{e}/{}", *l as u8)).collect();
        format!(
            "C={} k={} v={} nm={}/{} own={}/{}/{} leg={} fz={} rua={} cr={} desc={}:{} img={} ext={} ec={} stt={} roy={} n={} toks={} ops={} fm={} ue={}",
            self.this,
            self.kind,
            self.ver,
            self.nm.0,
            self.nm.1,
            fmt_opt(&self.owner),
            fmt_opt(&self.pending),
            self.pexp.clone().unwrap_or("-".into()),
            fmt_opt(&self.leg),
            self.fz as u8,
            self.rua,
            self.creator,
            self.desc.0,
            self.desc.1,
            self.img,
            fmt_opt(&self.ext),
            ob(&self.ec),
            fmt_opt(&self.stt),
            self.roy.map(|(p, s)| format!("{p}:{s}")).unwrap_or("-".into()),
            self.n,
            dash(toks, ";"),
            dash(ops, ","),
            self.fm as u8,
            self.ue as u8
        )
    }
}

// ------------------------------------------------------------------------------------------------ world

struct World {
    app: App,
    codes: BTreeMap<&'static str, u64>,
    coll: Option<Addr>,
    urls: HashMap<String, u64>,
    blk: (u64, u64),
}

impl World {
    fn new(h: u64, t: u64) -> World {
        let mut app = custom_mock_app();
        let mut codes = BTreeMap::new();
        codes.insert("base", app.store_code(boxes::sg721_base()));
        codes.insert("nt", app.store_code(boxes::sg721_nt()));
        codes.insert("updatable", app.store_code(boxes::sg721_updatable()));
        codes.insert("onchain", app.store_code(boxes::sg721_metadata_onchain()));
        let stub_code = app.store_code(stub_box());
        let sa = app.instantiate_contract(stub_code, a(ADMIN), &Empty {}, &[], "stub-a", None).unwrap();
        let sb = app.instantiate_contract(stub_code, a(ADMIN), &Empty {}, &[], "stub-b", None).unwrap();
        assert_eq!((sa.as_str(), sb.as_str()), (addr(STUB_A).as_str(), addr(STUB_B).as_str()), "cw-multi-test contract naming changed");
        let mut w = World { app, codes, coll: None, urls: HashMap::new(), blk: (h, t) };
        w.set_block(h, t);
        for id in 0..60 {
            w.urls.insert(url_str(id), id);
        }
        w
    }
    fn url_id(&self, s: &str) -> u64 {
        *self.urls.get(s).unwrap_or(&999_999)
    }
    fn set_block(&mut self, h: u64, t: u64) {
        self.blk = (h, t);
        self.app.set_block(BlockInfo { height: h, time: Timestamp::from_nanos(t), chain_id: "verif-1".into() });
    }
    fn is_stub(id: u64) -> bool {
        id == STUB_A || id == STUB_B
    }
    /// run `msg` against `target` with `sender` (a stub contract forwards it as a sub-message and pays from its own balance)
    fn send(&mut self, sender: u64, target: &Addr, msg: &Value, funds: &[Coin]) -> bool {
        if Self::is_stub(sender) {
            let fwd = StubExec::Forward { to: target.to_string(), msg: to_json_binary(msg).unwrap(), funds: funds.to_vec() };
            self.app.execute_contract(a(ADMIN), ad(sender), &fwd, &[]).is_ok()
        } else {
            self.app.execute_contract(ad(sender), target.clone(), msg, funds).is_ok()
        }
    }
    fn instantiate(&mut self, kind: &str, sender: u64, msg: &Value, funds: &[Coin]) -> bool {
        let code_id = self.codes[kind];
        if Self::is_stub(sender) {
            let stub = ad(sender);
            let m = StubExec::Inst { code_id, msg: to_json_binary(msg).unwrap(), admin: Some(addr(ADMIN)), funds: funds.to_vec() };
            match self.app.execute_contract(a(ADMIN), stub.clone(), &m, &[]) {
                Ok(_) => {
                    let last: Option<String> = self.app.wrap().query_wasm_smart(stub, &Empty {}).expect("stub query");
                    self.coll = Some(Addr::unchecked(last.expect("stub recorded the instantiated address")));
                    true
                }
                Err(_) => false,
            }
        } else {
            match self.app.instantiate_contract(code_id, ad(sender), msg, funds, "collection", Some(addr(ADMIN))) {
                Ok(c) => {
                    self.coll = Some(c);
                    true
                }
                Err(_) => false,
            }
        }
    }
    fn q(&self, msg: &Value) -> Result<Value, String> {
        let c = self.coll.as_ref().ok_or("no collection")?;
        self.app.wrap().query_wasm_smart::<Value>(c.to_string(), msg).map_err(|e| e.to_string())
    }
    fn qx(&self, msg: Value) -> Value {
        self.q(&msg).unwrap_or_else(|e| panic!("query {msg} failed: {e}"))
    }
    fn cw2(&self) -> Option<(String, String)> {
        let c = self.coll.as_ref()?;
        let st = self.app.contract_storage(c);
        cw2::get_contract_version(&*st).ok().map(|v| (v.contract, v.version))
    }
    fn balance(&self, id: u64, d: u64) -> u128 {
        self.app.wrap().query_balance(name(id), denom(d)).map(|c| c.amount.u128()).unwrap_or(0)
    }
    /// total of a denom over all accounts of the bank module (cw-multi-test 1.2 has no supply query)
    fn supply(&self, d: u64) -> u128 {
        let dn = denom(d);
        self.app.read_module(|_r, _a, st| {
            let mut pre: Vec<u8> = vec![0, 4];
            pre.extend_from_slice(b"bank");
            pre.extend_from_slice(&[0, 8]);
            pre.extend_from_slice(b"balances");
            let mut end = pre.clone();
            *end.last_mut().unwrap() += 1;
            let mut tot = 0u128;
            for (_k, v) in st.range(Some(&pre), Some(&end), Order::Ascending) {
                let coins: Vec<Coin> = serde_json::from_slice(&v).unwrap_or_default();
                tot += coins.iter().filter(|c| c.denom == dn).map(|c| c.amount.u128()).sum::<u128>();
            }
            tot
        })
    }

    fn observe(&self) -> Option<Obs> {
        let coll = self.coll.as_ref()?;
        let mut o = Obs::default();
        o.this = name_id(coll.as_str());
        let (cname, cver) = self.cw2().expect("cw2 record");
        o.kind = kind_of_name(&cname);
        o.ver = cver;
        let mut owners: BTreeSet<String> = BTreeSet::new();
        {
            let st = self.app.contract_storage(coll);
            let own = cw_ownable::get_ownership(&*st).expect("cw_ownable ownership");
            o.owner = own.owner.as_ref().map(|a| name_id(a.as_str()));
            o.pending = own.pending_owner.as_ref().map(|a| name_id(a.as_str()));
            o.pexp = own.pending_expiry.as_ref().map(exp_back);
            let c = sg721_base::Sg721Contract::<cw721_base::Extension>::default();
            o.fz = c.frozen_collection_info.load(&*st).expect("frozen_collection_info");
            o.rua = c.royalty_updated_at.load(&*st).expect("royalty_updated_at").nanos();
            for r in c.parent.operators.range(&*st, None, None, Order::Ascending) {
                let ((ow, op), e) = r.expect("operators entry");
                owners.insert(ow.to_string());
                o.ops.push((name_id(ow.as_str()), name_id(op.as_str()), exp_back(&e), false));
            }
            o.leg = Item::<Addr>::new("minter").may_load(&*st).ok().flatten().map(|a| name_id(a.as_str()));
        }
        // which operator grants are alive in this block: the contract's own `AllOperators {include_expired: false}`
        for ow in owners {
            let r = self.qx(json!({"all_operators": {"owner": ow, "include_expired": false, "limit": 100}}));
            for x in r["operators"].as_array().unwrap() {
                let (g, p) = (name_id(&ow), name_id(x["spender"].as_str().unwrap()));
                for e in o.ops.iter_mut().filter(|e| e.0 == g && e.1 == p) {
                    e.3 = true;
                }
            }
        }
        o.ops.sort();
        if o.kind == "updatable" {
            o.fm = self.qx(json!({"freeze_token_metadata": {}}))["frozen"].as_bool().expect("FreezeTokenMetadata query");
            o.ue = self.qx(json!({"enable_updatable": {}}))["enabled"].as_bool().expect("EnableUpdatable query");
        }
        let ci = self.qx(json!({"collection_info": {}}));
        o.creator = name_id(ci["creator"].as_str().unwrap());
        o.desc = desc_back(ci["description"].as_str().unwrap());
        o.img = self.url_id(ci["image"].as_str().unwrap());
        o.ext = ci["external_link"].as_str().map(|s| self.url_id(s));
        o.ec = ci["explicit_content"].as_bool();
        o.stt = ci["start_trading_time"].as_str().map(|s| s.parse().unwrap());
        o.roy = if ci["royalty_info"].is_null() {
            None
        } else {
            let sh: Decimal = ci["royalty_info"]["share"].as_str().unwrap().parse().unwrap();
            Some((name_id(ci["royalty_info"]["payment_address"].as_str().unwrap()), sh.atomics().u128()))
        };
        let cinfo = self.qx(json!({"contract_info": {}}));
        let num = |s: &str, p: &str| s.strip_prefix(p).and_then(|n| n.parse::<u64>().ok()).unwrap_or(999_999);
        o.nm = (num(cinfo["name"].as_str().unwrap(), "Collection"), num(cinfo["symbol"].as_str().unwrap(), "SYM"));
        o.n = self.qx(json!({"num_tokens": {}}))["count"].as_u64().unwrap();
        // `Minter {}` and `Ownership {}` must agree with the typed item
        let mq = self.qx(json!({"minter": {}}))["minter"].as_str().map(name_id);
        let oq = self.qx(json!({"ownership": {}}));
        assert_eq!(mq, o.owner, "Minter query differs from the ownership item");
        assert_eq!(oq["owner"].as_str().map(name_id), o.owner, "Ownership query differs from the ownership item");
        assert_eq!(oq["pending_owner"].as_str().map(name_id), o.pending, "Ownership query differs from the ownership item");
        let mut ids: Vec<String> = vec![];
        let mut after: Option<String> = None;
        loop {
            let r = self.qx(json!({"all_tokens": {"start_after": after, "limit": 100}}));
            let page: Vec<String> = r["tokens"].as_array().unwrap().iter().map(|x| x.as_str().unwrap().to_string()).collect();
            if page.is_empty() {
                break;
            }
            after = page.last().cloned();
            ids.extend(page);
        }
        for tid in ids {
            let ow = self.qx(json!({"owner_of": {"token_id": tid, "include_expired": true}}));
            let lv = self.qx(json!({"owner_of": {"token_id": tid}}));
            let ni = self.qx(json!({"nft_info": {"token_id": tid}}));
            let ext = ni["extension"]["name"].as_str().and_then(|s| s.strip_prefix('n')).and_then(|n| n.parse().ok()).unwrap_or(0);
            o.toks.push(Tok {
                id: tid.parse().unwrap_or(999_999),
                owner: name_id(ow["owner"].as_str().unwrap()),
                uri: ni["token_uri"].as_str().map(uri_back),
                ext,
                approvals: approvals_of(&ow["approvals"]),
                live: approvals_of(&lv["approvals"]).into_iter().map(|x| x.0).collect(),
            });
        }
        o.toks.sort_by_key(|t| t.id);
        Some(o)
    }
}

//@@PART2@@
