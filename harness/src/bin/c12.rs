//! C12 — whitelist schedules (plain `sg-whitelist`, `sg-whitelist-flex`, `whitelist-mtree`).
//! The REAL contracts under cw-multi-test vs `LP.WlSchedule` (Lean). See /verif/docs/C12.md.
//!
//! Lines (every parameter is in the line, so a replay needs nothing else):
//!   case v=<0 plain|1 flex|2 merkle> now=<ns> <free text>
//!   t <ns>
//!   inst sender= start= end= limit= pal= members=a,b counts=n,m whale=<n|-> admins=a,b mut=<0|1> funds=d:a rootkind=<0..3> urikind=<0..4>
//!        (+ witness ` envok=<0|1>`: the SAME message with a canonical valid schedule instantiates on a scratch chain, i.e. every
//!         check that is not about the schedule passes — those checks belong to C11/C05, not to C12)
//!   start sender= t= [funds=]      end sender= t= [funds=]
//!   remove sender= members=a,b     (+ witness ` present=<0|1>`: every address is in the harness's OWN member bookkeeping, no repetition)
//!   admins sender= list=a,b        freeze sender=
//!   pal sender= n=  |  add sender= members= counts=  |  inclimit sender= n= funds=  |  x name=<variant> k=<n> sender=  |  migrate sender= from=<0|1>
//!        (+ witness ` res=<0|1>`: the outcome; these messages are environment for C12 — the schedule and the members must not move)
//!   can a=
//!
//! Answers: `<ok|err> now= s= e= act= st= en= cact= adm=<sorted set> mut= ## pal=`; only the part before ` ## ` is C12's projection.
//!
//! Round 3: (1) the message surface is enumerated at RUN TIME from the crates' JSON schemas (`schema_for!(ExecuteMsg)`); every variant
//! without a named op — and a few probes such as the unrouted `update_merkle_tree` — is sent as raw JSON (`x`) under the frame /
//! member monitors, and `migrate` is run; (2) monitor truths are independent of the queries under test: the schedule is read from
//! the contract's STORAGE (layout-free scan), the clock, the admin list and the member set are the harness's own bookkeeping of
//! what it sent; (3) non-schedule checks are witnesses, `pal=`/`can=` are behind ` ## `, the admin list is compared as a set;
//! (4) no query-shape `unwrap`: an unreadable answer is rendered `?` and becomes a disagreement, not a crash.
use cosmwasm_std::{coin, Addr, BlockInfo, Coin, Timestamp};
use cw_multi_test::{BankSudo, Executor, SudoMsg};
use lp_harness::boxes::{self, App};
use lp_harness::world::*;
use lp_harness::*;
use serde_json::{json, Map, Value};
use std::collections::BTreeSet;

const G: u64 = sg_utils::GENESIS_MINT_START_TIME;
const VN: [&str; 3] = ["whitelist", "whitelist-flex", "whitelist-merkletree"];
/// accounts that ever send messages (all funded in both denoms)
const SENDERS: [u64; 6] = [10, 11, 12, 13, 20, 21];
/// the wasm-level admin of every instantiated contract (may call `migrate`)
const WASM_ADMIN: u64 = 10;

// ------------------------------------------------------------------------------------------------ run-time message surface

/// named op -> top-level JSON key of the message it sends
const NAMED: [(&str, &str); 8] = [
    ("start", "update_start_time"),
    ("end", "update_end_time"),
    ("add", "add_members"),
    ("remove", "remove_members"),
    ("pal", "update_per_address_limit"),
    ("inclimit", "increase_member_limit"),
    ("admins", "update_admins"),
    ("freeze", "freeze"),
];
/// message names that are in NO schema today but are plausible ways to bend a schedule (sent to every variant as raw JSON):
/// the Merkle crate's unrouted `execute_update_merkle_tree`, a generic config setter, and a name nobody has
const PROBES: [&str; 4] = ["update_merkle_tree", "update_config", "update_stage_config", "no_such_message"];

fn exec_schema(v: usize) -> Value {
    use cosmwasm_schema::schema_for;
    let r = match v {
        0 => serde_json::to_value(schema_for!(sg_whitelist::msg::ExecuteMsg)),
        1 => serde_json::to_value(schema_for!(sg_whitelist_flex::msg::ExecuteMsg)),
        _ => serde_json::to_value(schema_for!(whitelist_mtree::msg::ExecuteMsg)),
    };
    r.unwrap_or(Value::Null)
}

/// (variant name in snake case, schema of its payload; None for a unit variant serialised as a bare string)
fn schema_variants(root: &Value) -> Vec<(String, Option<Value>)> {
    let mut out = vec![];
    let mut alts: Vec<Value> = vec![];
    for k in ["oneOf", "anyOf"] {
        if let Some(a) = root[k].as_array() {
            alts.extend(a.iter().cloned());
        }
    }
    if alts.is_empty() {
        alts.push(root.clone());
    }
    for alt in alts {
        if let Some(en) = alt["enum"].as_array() {
            for e in en {
                if let Some(s) = e.as_str() {
                    out.push((s.to_string(), None));
                }
            }
        } else if let Some(req) = alt["required"].as_array() {
            if let Some(name) = req.first().and_then(|x| x.as_str()) {
                out.push((name.to_string(), Some(alt["properties"][name].clone())));
            }
        }
    }
    out.sort_by(|a, b| a.0.cmp(&b.0));
    out.dedup_by(|a, b| a.0 == b.0);
    out
}

/// minimal JSON value for a schema. `k` is a TIME: every string / 64-bit integer (Timestamp = Uint64 = string) becomes `k`, so that a
/// new message carrying a start or end time gets boundary-exact values; small integers get `k % 5 + 1`.
fn fill(s: &Value, defs: &Value, k: u64, hint: &str, depth: u32) -> Value {
    if depth > 8 {
        return Value::Null;
    }
    if let Some(r) = s["$ref"].as_str() {
        let name = r.rsplit('/').next().unwrap_or("");
        return fill(&defs[name], defs, k, hint, depth + 1);
    }
    if let Some(a) = s["allOf"].as_array() {
        if let Some(f) = a.first() {
            return fill(f, defs, k, hint, depth + 1);
        }
    }
    for key in ["anyOf", "oneOf"] {
        if let Some(a) = s[key].as_array() {
            // options: fill the non-null alternative (an optional end time must be sent, not omitted)
            if let Some(f) = a.iter().find(|x| x["type"] != "null") {
                if let Some(req) = f["required"].as_array().and_then(|r| r.first()).and_then(|x| x.as_str()) {
                    let mut m = Map::new();
                    m.insert(req.to_string(), fill(&f["properties"][req], defs, k, req, depth + 1));
                    return Value::Object(m);
                }
                return fill(f, defs, k, hint, depth + 1);
            }
            return Value::Null;
        }
    }
    if let Some(en) = s["enum"].as_array() {
        return en.first().cloned().unwrap_or(Value::Null);
    }
    let ty: String = match &s["type"] {
        Value::String(t) => t.clone(),
        Value::Array(ts) => ts.iter().filter_map(|t| t.as_str()).find(|t| *t != "null").unwrap_or("").to_string(),
        _ => String::new(),
    };
    let h = hint.to_lowercase();
    match ty.as_str() {
        "integer" | "number" => {
            let small = matches!(s["format"].as_str(), Some("uint8") | Some("uint16") | Some("uint32") | Some("int32"));
            if small {
                json!(k % 5 + 1)
            } else {
                json!(k)
            }
        }
        "string" => {
            if h.contains("root") {
                // a syntactically valid root that differs from the instantiated one
                json!(format!("{:064x}", k))
            } else if h.contains("uri") || h.contains("url") {
                json!("https://example.com/tree.json")
            } else if ["addr", "recipient", "member", "contract", "owner", "sender", "admin", "operator"].iter().any(|w| h.contains(w)) {
                json!(addr(30))
            } else {
                json!(k.to_string())
            }
        }
        "boolean" => json!(k % 2 == 1),
        "array" => json!([]),
        "object" => {
            let mut m = Map::new();
            if let Some(props) = s["properties"].as_object() {
                // required AND optional properties: an optional `end_time` is exactly what must not be left out
                for (name, sch) in props {
                    m.insert(name.clone(), fill(sch, defs, k, name, depth + 1));
                }
            }
            Value::Object(m)
        }
        _ => Value::Null,
    }
}

/// raw message for `name`: from the schema when the crate has such a variant, otherwise a hand-made guess
fn x_msg(schema: &Value, name: &str, k: u64) -> Value {
    let defs = &schema["definitions"];
    if let Some((n, sch)) = schema_variants(schema).into_iter().find(|(n, _)| n == name) {
        return match sch {
            None => Value::String(n),
            Some(s) => {
                let mut m = Map::new();
                m.insert(n.clone(), fill(&s, defs, k, &n, 0));
                Value::Object(m)
            }
        };
    }
    match name {
        "update_merkle_tree" => json!({"update_merkle_tree": {"merkle_root": format!("{:064x}", k), "merkle_tree_uri": Value::Null}}),
        "update_config" | "update_stage_config" => {
            json!({name: {"start_time": k.to_string(), "end_time": k.to_string(), "stage_id": 0, "per_address_limit": 1}})
        }
        _ => json!({ name: {} }),
    }
}

// ------------------------------------------------------------------------------------------------ observations

fn opt_u64(x: &Option<u64>) -> String {
    x.map(|v| v.to_string()).unwrap_or_else(|| "?".into())
}
fn opt_b(x: &Option<bool>) -> String {
    x.map(|v| (v as u8).to_string()).unwrap_or_else(|| "?".into())
}
fn ts(v: &Value) -> Option<u64> {
    v.as_str().and_then(|s| s.parse().ok()).or_else(|| v.as_u64())
}

#[derive(Clone, Debug, PartialEq, Eq)]
struct Obs {
    /// the harness's own clock
    now: u64,
    /// `Config` query
    qs: Option<u64>,
    qe: Option<u64>,
    /// the schedule as STORED (layout-free scan of the contract's storage), independent of every query function
    raw: Option<(u64, u64)>,
    pal: Option<u64>,
    act: Option<bool>,
    st: Option<bool>,
    en: Option<bool>,
    cact: Option<bool>,
    /// AdminList query, as a sorted set
    admins: Option<Vec<u64>>,
    mutable: Option<bool>,
}

impl Obs {
    /// monitor truth: the stored schedule; the reported one only when storage could not be read
    fn sched(&self) -> Option<(u64, u64)> {
        self.raw.or(match (self.qs, self.qe) {
            (Some(s), Some(e)) => Some((s, e)),
            _ => None,
        })
    }
    fn s(&self) -> u64 {
        self.sched().map(|x| x.0).unwrap_or(0)
    }
    fn e(&self) -> u64 {
        self.sched().map(|x| x.1).unwrap_or(0)
    }
    fn render(o: &Option<Obs>) -> String {
        match o {
            None => "none".into(),
            Some(o) => format!(
                "now={} s={} e={} act={} st={} en={} cact={} adm={} mut={} ## pal={}",
                o.now,
                opt_u64(&o.qs),
                opt_u64(&o.qe),
                opt_b(&o.act),
                opt_b(&o.st),
                opt_b(&o.en),
                opt_b(&o.cact),
                o.admins.as_ref().map(|a| fmt_list(a)).unwrap_or_else(|| "?".into()),
                opt_b(&o.mutable),
                fmt_opt(&o.pal)
            ),
        }
    }
}

/// what the harness itself created / sent and saw accepted (never read back from the contract)
#[derive(Clone, Debug, Default)]
struct Ghost {
    admins: Vec<u64>,
    mutable: bool,
    members: BTreeSet<u64>,
}

struct Last {
    line: String,
    op: String,
    ok: bool,
    pre: Option<Obs>,
    post: Option<Obs>,
    /// sender was on the harness's own admin list before the op
    sender_admin: bool,
    ghost_mutable: bool,
    ghost_admins: Vec<u64>,
    /// members (own bookkeeping, before the op) the contract no longer reports after it
    lost: Vec<u64>,
    /// Merkle: the root (= the member set) before and after the op
    root: (Option<String>, Option<String>),
    wit: String,
}

struct Scratch {
    app: App,
    codes: [u64; 3],
    uses: u64,
}

struct S {
    app: App,
    v: usize,
    code: u64,
    contract: Option<Addr>,
    now: u64,
    height: u64,
    log: Vec<String>,
    last: Option<Last>,
    /// observation after the last op (the generators read it; it is also the `pre` of the next op)
    cur: Option<Obs>,
    ghost: Option<Ghost>,
    /// Merkle: the root reported after the last op
    root: Option<String>,
    scratch: Option<Scratch>,
    schemas: [Value; 3],
    /// (variant, top-level key) of every message sent, drained by `do_op` into coverage classes
    sent: Vec<String>,
    raw_unreadable: u64,
}

fn root_string(kind: u64) -> String {
    match kind {
        0 => "5ab281bca33c9819e0daa0708d20ddd8a8e5aff3f7c4c1a2a1a4c5ec3a8e8b7a".to_string(),
        1 => "zzb281bca33c9819e0daa0708d20ddd8a8e5aff3f7c4c1a2a1a4c5ec3a8e8b7a".to_string(),
        2 => "5ab281bca33c9819e0daa0708d20ddd8a8e5aff3f7c4c1a2a1a4c5ec3a8e8b".to_string(),
        _ => String::new(),
    }
}
fn uri_option(kind: u64) -> Option<String> {
    match kind {
        0 => None,
        1 => Some("https://example.com/tree.json".into()),
        2 => Some("ipfs://bafybeigdyrzt5sfp7udm7hu76uh7y26nf3efuylqabf3oclgtqy55fbzdi".into()),
        3 => Some("not a url".into()),
        _ => Some(String::new()),
    }
}

fn box_of(v: usize) -> boxes::Boxed {
    match v {
        0 => boxes::whitelist(),
        1 => boxes::whitelist_flex(),
        _ => boxes::whitelist_mtree(),
    }
}

fn fund_senders(app: &mut App) {
    for s in SENDERS {
        app.sudo(SudoMsg::Bank(BankSudo::Mint { to_address: addr(s), amount: vec![coin(1u128 << 100, denom(1)), coin(1u128 << 100, denom(0))] }))
            .expect("mint");
    }
}

fn members_json(v: usize, members: &[u128], counts: &[u128]) -> Value {
    if v == 1 {
        Value::Array(
            members
                .iter()
                .enumerate()
                .map(|(i, m)| json!({"address": addr(*m as u64), "mint_count": counts.get(i).copied().unwrap_or(1) as u64}))
                .collect(),
        )
    } else {
        Value::Array(members.iter().map(|m| json!(addr(*m as u64))).collect())
    }
}

/// the instantiate message of `line` with the given schedule
fn inst_msg(v: usize, line: &str, start: u64, end: u64) -> Value {
    let limit = kv_u64(line, "limit").unwrap_or(0);
    let pal = kv_u64(line, "pal").unwrap_or(0);
    let members = kv_list(line, "members").unwrap_or_default();
    let counts = kv_list(line, "counts").unwrap_or_default();
    let whale = kv_opt_u64(line, "whale").unwrap_or(None);
    let admins: Vec<String> = kv_list(line, "admins").unwrap_or_default().iter().map(|x| addr(*x as u64)).collect();
    let mutable = kv_bool(line, "mut").unwrap_or(true);
    let root = root_string(kv_u64(line, "rootkind").unwrap_or(0));
    let uri = uri_option(kv_u64(line, "urikind").unwrap_or(0));
    let price = json!({"denom": denom(0), "amount": "1000000"});
    match v {
        0 => json!({"members": members_json(v, &members, &counts), "start_time": start.to_string(), "end_time": end.to_string(),
            "mint_price": price, "per_address_limit": pal, "member_limit": limit, "admins": admins, "admins_mutable": mutable}),
        1 => json!({"members": members_json(v, &members, &counts), "start_time": start.to_string(), "end_time": end.to_string(),
            "mint_price": price, "member_limit": limit, "admins": admins, "admins_mutable": mutable, "whale_cap": whale}),
        _ => json!({"merkle_root": root, "merkle_tree_uri": uri, "start_time": start.to_string(), "end_time": end.to_string(),
            "mint_price": price, "per_address_limit": pal, "admins": admins, "admins_mutable": mutable}),
    }
}

impl S {
    fn new() -> S {
        S {
            app: boxes::custom_mock_app(),
            v: 0,
            code: 0,
            contract: None,
            now: 0,
            height: 1,
            log: vec![],
            last: None,
            cur: None,
            ghost: None,
            root: None,
            scratch: None,
            schemas: [exec_schema(0), exec_schema(1), exec_schema(2)],
            sent: vec![],
            raw_unreadable: 0,
        }
    }

    fn set_time(&mut self, t: u64) {
        self.now = t;
        self.height += 1;
        self.app.set_block(BlockInfo { height: self.height, time: Timestamp::from_nanos(t), chain_id: "stargaze-1".into() });
    }

    /// a query that cannot crash the run: any failure (message shape, answer shape, panic) is `None`
    fn q(&self, msg: Value) -> Option<Value> {
        let c = self.contract.clone()?;
        catch(|| self.app.wrap().query_wasm_smart::<Value>(c, &msg).ok()).ok().flatten()
    }

    /// The schedule as STORED. Layout-free: scan the contract's raw storage for the JSON object that carries both `start_time` and
    /// `end_time` (no key names, no prefixes — a renamed item or namespace does not matter). `None` if there is not exactly one.
    fn raw_schedule(&self) -> Option<(u64, u64)> {
        let c = self.contract.as_ref()?;
        let mut found: Vec<(u64, u64)> = vec![];
        for (_k, val) in self.app.dump_wasm_raw(c) {
            if val.first() != Some(&b'{') {
                continue;
            }
            let Ok(j) = serde_json::from_slice::<Value>(&val) else { continue };
            if let (Some(s), Some(e)) = (j.get("start_time").and_then(ts), j.get("end_time").and_then(ts)) {
                found.push((s, e));
            }
        }
        if found.len() == 1 {
            Some(found[0])
        } else {
            None
        }
    }

    fn obs(&mut self) -> Option<Obs> {
        self.contract.as_ref()?;
        let cfg = self.q(json!({"config": {}})).unwrap_or(Value::Null);
        let adm = self.q(json!({"admin_list": {}})).unwrap_or(Value::Null);
        let flag = |name: &str| self.q(json!({ name: {} })).and_then(|r| r[name].as_bool());
        let raw = self.raw_schedule();
        let admins = adm["admins"].as_array().map(|l| {
            let mut v: Vec<u64> = l.iter().map(|a| addr_id(a.as_str().unwrap_or("?"))).collect();
            v.sort();
            v.dedup();
            v
        });
        let o = Obs {
            now: self.now,
            qs: ts(&cfg["start_time"]),
            qe: ts(&cfg["end_time"]),
            raw,
            pal: cfg.get("per_address_limit").and_then(|x| x.as_u64()),
            act: flag("is_active"),
            st: flag("has_started"),
            en: flag("has_ended"),
            cact: cfg["is_active"].as_bool(),
            admins,
            mutable: adm["mutable"].as_bool(),
        };
        if o.raw.is_none() {
            self.raw_unreadable += 1;
        }
        Some(o)
    }

    fn has_member(&self, id: u64) -> Option<bool> {
        if self.v == 2 {
            return None;
        }
        self.q(json!({"has_member": {"member": addr(id)}})).and_then(|r| r["has_member"].as_bool())
    }

    fn exec_json(&mut self, sender: u64, msg: Value, funds: &[Coin]) -> bool {
        let Some(c) = self.contract.clone() else { return false };
        let key = match &msg {
            Value::String(s) => s.clone(),
            Value::Object(m) => m.keys().next().cloned().unwrap_or_default(),
            _ => String::new(),
        };
        self.sent.push(format!("sent:{}:{key};", VN[self.v]));
        self.app.execute_contract(a(sender), c, &msg, funds).is_ok()
    }

    /// every non-schedule instantiate check passes? Asked of the real code, on a scratch chain, with a canonical valid schedule.
    fn env_ok(&mut self, line: &str, sender: u64, funds: &[Coin]) -> bool {
        if self.scratch.as_ref().map(|s| s.uses > 4000).unwrap_or(true) {
            let mut app = boxes::custom_mock_app();
            let codes = [app.store_code(box_of(0)), app.store_code(box_of(1)), app.store_code(box_of(2))];
            fund_senders(&mut app);
            self.scratch = Some(Scratch { app, codes, uses: 0 });
        }
        let start = self.now.max(G) + 10;
        let msg = inst_msg(self.v, line, start, start + 10);
        let (now, height, v) = (self.now, self.height, self.v);
        let sc = self.scratch.as_mut().unwrap();
        sc.uses += 1;
        sc.app.set_block(BlockInfo { height, time: Timestamp::from_nanos(now), chain_id: "stargaze-1".into() });
        let code = sc.codes[v];
        match catch(|| sc.app.instantiate_contract(code, a(sender), &msg, funds, "wl", None).is_ok()) {
            Ok(r) => r,
            Err(_) => {
                self.scratch = None;
                false
            }
        }
    }

    /// returns (witness suffix, ok)
    fn run_op(&mut self, line: &str) -> (String, bool) {
        let op = line.split_whitespace().next().unwrap_or("");
        let sender = kv_u64(line, "sender").unwrap_or(0);
        let funds: Vec<Coin> = kv_pairs(line, "funds").map(|p| coins_of(&p)).unwrap_or_default();
        let ids = |key: &str| -> Vec<u64> { kv_list(line, key).unwrap_or_default().iter().map(|x| *x as u64).collect() };
        match op {
            "t" => {
                let t: u64 = line.split_whitespace().nth(1).and_then(|x| x.parse().ok()).expect("t <ns>");
                self.set_time(t);
                (String::new(), true)
            }
            "inst" => {
                let start = kv_u64(line, "start").unwrap();
                let end = kv_u64(line, "end").unwrap();
                let envok = self.env_ok(line, sender, &funds);
                let msg = inst_msg(self.v, line, start, end);
                let r = self.app.instantiate_contract(self.code, a(sender), &msg, &funds, "wl", Some(addr(WASM_ADMIN)));
                let ok = match r {
                    Ok(c) => {
                        self.contract = Some(c);
                        self.ghost = Some(Ghost {
                            admins: ids("admins"),
                            mutable: kv_bool(line, "mut").unwrap_or(true),
                            members: if self.v == 2 { BTreeSet::new() } else { ids("members").into_iter().collect() },
                        });
                        true
                    }
                    Err(_) => false,
                };
                (format!(" envok={}", envok as u8), ok)
            }
            "start" => (String::new(), self.exec_json(sender, json!({"update_start_time": kv_u64(line, "t").unwrap().to_string()}), &funds)),
            "end" => (String::new(), self.exec_json(sender, json!({"update_end_time": kv_u64(line, "t").unwrap().to_string()}), &funds)),
            "remove" => {
                let ms = ids("members");
                // `present` from the harness's OWN bookkeeping (what it instantiated / added / removed), not from HasMember
                let mut present = self.contract.is_some() && self.ghost.is_some();
                if let Some(g) = &self.ghost {
                    let mut seen = BTreeSet::new();
                    for m in &ms {
                        if !seen.insert(*m) || !g.members.contains(m) {
                            present = false;
                        }
                    }
                }
                let to_remove: Vec<String> = ms.iter().map(|m| addr(*m)).collect();
                let ok = self.exec_json(sender, json!({"remove_members": {"to_remove": to_remove}}), &funds);
                if ok {
                    if let Some(g) = self.ghost.as_mut() {
                        for m in &ms {
                            g.members.remove(m);
                        }
                    }
                }
                (format!(" present={}", present as u8), ok)
            }
            "pal" => {
                let ok = self.exec_json(sender, json!({"update_per_address_limit": kv_u64(line, "n").unwrap()}), &funds);
                (format!(" res={}", ok as u8), ok)
            }
            "admins" => {
                let l = ids("list");
                let ls: Vec<String> = l.iter().map(|x| addr(*x)).collect();
                let ok = self.exec_json(sender, json!({"update_admins": {"admins": ls}}), &funds);
                if ok {
                    if let Some(g) = self.ghost.as_mut() {
                        g.admins = l;
                    }
                }
                (String::new(), ok)
            }
            "freeze" => {
                let ok = self.exec_json(sender, json!({"freeze": {}}), &funds);
                if ok {
                    if let Some(g) = self.ghost.as_mut() {
                        g.mutable = false;
                    }
                }
                (String::new(), ok)
            }
            "add" => {
                let ms = kv_list(line, "members").unwrap();
                let cs = kv_list(line, "counts").unwrap_or_default();
                let ok = self.exec_json(sender, json!({"add_members": {"to_add": members_json(self.v, &ms, &cs)}}), &funds);
                if ok {
                    if let Some(g) = self.ghost.as_mut() {
                        g.members.extend(ms.iter().map(|m| *m as u64));
                    }
                }
                (format!(" res={}", ok as u8), ok)
            }
            "inclimit" => {
                let ok = self.exec_json(sender, json!({"increase_member_limit": kv_u64(line, "n").unwrap()}), &funds);
                (format!(" res={}", ok as u8), ok)
            }
            "x" => {
                // any other message variant, as raw JSON built from the crate's schema (or a guess for names no schema has)
                let name = kv(line, "name").unwrap_or("no_such_message").to_string();
                let k = kv_u64(line, "k").unwrap_or(0);
                let msg = x_msg(&self.schemas[self.v], &name, k);
                let ok = self.exec_json(sender, msg, &funds);
                (format!(" res={}", ok as u8), ok)
            }
            "migrate" => {
                let Some(c) = self.contract.clone() else { return (" res=0".into(), false) };
                if kv_bool(line, "from").unwrap_or(false) {
                    // pretend an older version is stored, so that the contract's migrate runs its full path (cw2's own API)
                    let name = cw2::get_contract_version(&*self.app.contract_storage(&c)).map(|v| v.contract).unwrap_or_default();
                    let _ = cw2::set_contract_version(&mut *self.app.contract_storage_mut(&c), name, "0.0.1");
                }
                self.sent.push(format!("sent:{}:migrate;", VN[self.v]));
                let ok = self.app.migrate_contract(a(sender), c, &json!({}), self.code).is_ok();
                (format!(" res={}", ok as u8), ok)
            }
            _ => panic!("unknown op line `{line}`"),
        }
    }

    fn start_world(&mut self, header: &str) {
        self.app = boxes::custom_mock_app();
        self.v = kv_u64(header, "v").expect("case v=") as usize;
        self.code = self.app.store_code(box_of(self.v));
        self.contract = None;
        self.ghost = None;
        self.root = None;
        self.height = 1;
        fund_senders(&mut self.app);
        self.set_time(kv_u64(header, "now").expect("case now="));
        self.last = None;
        self.cur = None;
    }
}

impl Sut for S {
    fn begin(&mut self, header: &str) -> (String, String) {
        self.start_world(header);
        self.log = vec![header.to_string()];
        (header.to_string(), "case".to_string())
    }

    fn exec(&mut self, line: &str) -> (String, String) {
        let op = line.split_whitespace().next().unwrap_or("").to_string();
        if op == "can" {
            let out = match &self.contract {
                None => "err none".to_string(),
                Some(_) => {
                    let r = self.q(json!({"can_execute": {"sender": addr(kv_u64(line, "a").unwrap_or(0)), "msg": {"custom": {}}}}));
                    format!("ok ## can={}", opt_b(&r.and_then(|r| r["can_execute"].as_bool())))
                }
            };
            self.last = None;
            return (line.to_string(), out);
        }
        let pre = self.cur.clone();
        let ghost_pre = self.ghost.clone().unwrap_or_default();
        let (wit, ok) = match catch(|| self.run_op(line)) {
            Ok(r) => r,
            Err(_) => {
                // a panic inside contract code = failed transaction; rebuild the world from the log
                let log = self.log.clone();
                self.start_world(&log[0]);
                for l in &log[1..] {
                    let _ = catch(|| self.run_op(l));
                }
                let w = match op.as_str() {
                    "remove" => " present=0",
                    "add" | "inclimit" | "pal" | "x" | "migrate" => " res=0",
                    "inst" => " envok=0",
                    _ => "",
                };
                (w.to_string(), false)
            }
        };
        self.log.push(line.to_string());
        let post = self.obs();
        // "members can no longer be removed": once started, everybody the harness put on the list must still be reported
        let started = pre.as_ref().and_then(|p| p.sched().map(|(s, _)| p.now >= s)).unwrap_or(false);
        let lost: Vec<u64> =
            if started && op != "inst" { ghost_pre.members.iter().copied().filter(|m| self.has_member(*m) == Some(false)).collect() } else { vec![] };
        // the Merkle whitelist's member set IS its root
        let root_pre = self.root.clone();
        self.root = if self.v == 2 { self.q(json!({"merkle_root": {}})).and_then(|r| r["merkle_root"].as_str().map(String::from)) } else { None };
        let out = format!("{} {}", if ok { "ok" } else { "err" }, Obs::render(&post));
        self.cur = post.clone();
        let sender = kv_u64(line, "sender").unwrap_or(0);
        self.last = Some(Last {
            line: line.to_string(),
            op,
            ok,
            pre,
            post,
            sender_admin: ghost_pre.admins.contains(&sender),
            ghost_mutable: ghost_pre.mutable,
            ghost_admins: ghost_pre.admins.clone(),
            lost,
            root: (root_pre, self.root.clone()),
            wit: wit.clone(),
        });
        (format!("{line}{wit}"), out)
    }

    /// Direct transcription of property C12 on the implementation's own trace (no Lean model involved). Truths: the schedule as
    /// STORED (`Obs::sched`), the harness's own clock, what the harness sent (instantiate arguments, admin list, member set).
    fn monitor(&mut self) -> Option<(String, String)> {
        let l = self.last.as_ref()?;
        let v = VN[self.v];
        let op = l.op.as_str();
        let bad = |op: &str, p: &str, w: String| Some((format!("{v}/{op}/{p}"), format!("{w}; after `{}` => {} {}", l.line, if l.ok { "ok" } else { "err" }, Obs::render(&l.post))));
        let post = l.post.as_ref()?;
        let (ps, pe) = post.sched()?;
        // "start time is never after its end time and is never before the genesis mint time"
        if ps > pe {
            return bad(op, "start-after-end", format!("stored start {ps} > end {pe}"));
        }
        if ps < G {
            return bad(op, "start-before-genesis", format!("stored start {ps} < genesis {G}"));
        }
        // the Config query must report the stored schedule (all four flag clauses are about THE whitelist's start / end)
        if let (Some((rs, re)), Some(qs), Some(qe)) = (post.raw, post.qs, post.qe) {
            if (rs, re) != (qs, qe) {
                return bad("query", "config-ne-stored", format!("Config reports ({qs},{qe}) but ({rs},{re}) is stored"));
            }
        }
        // "activity flags are consistent at every instant" — against the stored schedule and the harness's clock
        let want_act = ps <= post.now && post.now < pe;
        if let Some(x) = post.act {
            if x != want_act {
                return bad("query", "is-active", format!("IsActive={x} but start<=now<end is {want_act}"));
            }
        }
        if let Some(x) = post.st {
            if x != (post.now >= ps) {
                return bad("query", "has-started", format!("HasStarted={x} but now>=start is {}", post.now >= ps));
            }
        }
        if let Some(x) = post.en {
            if x != (post.now >= pe) {
                return bad("query", "has-ended", format!("HasEnded={x} but now>=end is {}", post.now >= pe));
            }
        }
        if let Some(x) = post.cact {
            if x != want_act {
                return bad("query", "config-is-active", format!("Config.is_active={x} but start<=now<end is {want_act}"));
            }
        }
        if op == "inst" {
            if l.ok {
                // "it is created only with a start in the future" — on what was SENT and on what was stored
                let (ss, se) = (kv_u64(&l.line, "start").unwrap_or(0), kv_u64(&l.line, "end").unwrap_or(0));
                if post.now >= ps || post.now >= ss {
                    return bad(op, "created-not-in-future", format!("created at now {} with start {ss} (stored {ps})", post.now));
                }
                if ss > se {
                    return bad(op, "start-after-end", format!("instantiate accepted start {ss} > end {se}"));
                }
                if ss < G {
                    return bad(op, "start-before-genesis", format!("instantiate accepted start {ss} < genesis {G}"));
                }
            }
            return None;
        }
        let pre = l.pre.as_ref()?;
        let (s0, e0) = pre.sched()?;
        // "Once a whitelist has started its start time cannot change, its end time can only be brought forward
        //  (never extended, never before the start), and members can no longer be removed"
        if pre.now >= s0 {
            if ps != s0 {
                return bad(op, "start-changed-after-start", format!("start {s0} -> {ps} at now {}", pre.now));
            }
            if pe > e0 {
                return bad(op, "end-extended-after-start", format!("end {e0} -> {pe} at now {}", pre.now));
            }
            if op == "remove" && l.ok && !kv_list(&l.line, "members").unwrap_or_default().is_empty() {
                return bad(op, "removed-after-start", format!("RemoveMembers accepted at now {} >= start {s0}", pre.now));
            }
            if !l.lost.is_empty() {
                return bad(op, "member-lost-after-start", format!("members {:?} are gone after a message at now {} >= start {s0}", l.lost, pre.now));
            }
            if let (Some(r0), Some(r1)) = (&l.root.0, &l.root.1) {
                if r0 != r1 {
                    return bad(op, "member-lost-after-start", format!("the Merkle root (= the member set) changed {r0} -> {r1} at now {} >= start {s0}", pre.now));
                }
            }
        }
        // nobody can un-start or re-open a whitelist (the flags themselves, independent of storage; clock not going backwards)
        if post.now >= pre.now {
            if pre.st == Some(true) && post.st == Some(false) {
                return bad("query", "started-then-unstarted", format!("HasStarted went true -> false (now {} -> {})", pre.now, post.now));
            }
            if pre.en == Some(true) && post.en == Some(false) {
                return bad("query", "ended-then-reopened", format!("HasEnded went true -> false (now {} -> {})", pre.now, post.now));
            }
        }
        // only an admin can bend the schedule / remove members — admin = the list the harness itself installed
        let sender = kv_u64(&l.line, "sender").unwrap_or(0);
        if l.ok && matches!(op, "start" | "end" | "remove" | "pal") && !l.sender_admin {
            return bad(op, "non-admin-accepted", format!("sender {sender} is not in {:?}", l.ghost_admins));
        }
        if l.ok && matches!(op, "admins" | "freeze") && !(l.sender_admin && l.ghost_mutable) {
            return bad(op, "non-admin-accepted", format!("sender {sender} may not modify the admin list {:?} (mutable={})", l.ghost_admins, l.ghost_mutable));
        }
        // frame: only UpdateStartTime / UpdateEndTime move the schedule (this covers the clock, every environment message, every
        // schema-discovered variant and migrate); a failed message changes nothing
        if !matches!(op, "start" | "end") && (ps, pe) != (s0, e0) {
            return bad(op, "schedule-changed", format!("schedule ({s0},{e0}) -> ({ps},{pe})"));
        }
        if op == "start" && pe != e0 {
            return bad(op, "schedule-changed", format!("UpdateStartTime moved end {e0} -> {pe}"));
        }
        if op == "end" && ps != s0 {
            return bad(op, "schedule-changed", format!("UpdateEndTime moved start {s0} -> {ps}"));
        }
        if !l.ok && ((ps, pe), post.pal, &post.admins, post.mutable) != ((s0, e0), pre.pal, &pre.admins, pre.mutable) {
            return bad(op, "failed-op-changed-state", "a rejected message changed the stored state".into());
        }
        None
    }
}

// ------------------------------------------------------------------------------------------------ generators

#[derive(Clone, Debug)]
struct Inst {
    sender: u64,
    start: u64,
    end: u64,
    limit: u64,
    pal: u64,
    members: Vec<u64>,
    counts: Vec<u64>,
    whale: Option<u64>,
    admins: Vec<u64>,
    mutable: bool,
    funds: Vec<(u128, u128)>,
    rootkind: u64,
    urikind: u64,
}

fn fee_for(v: usize, limit: u64) -> u128 {
    match v {
        0 => ((limit as u128 + 999) / 1000) * sg_whitelist::contract::PRICE_PER_1000_MEMBERS,
        1 => ((limit as u128 + 999) / 1000) * sg_whitelist_flex::contract::PRICE_PER_1000_MEMBERS,
        _ => whitelist_mtree::contract::CREATION_FEE,
    }
}

impl Inst {
    fn valid(v: usize, start: u64, end: u64) -> Inst {
        Inst {
            sender: 10,
            start,
            end,
            limit: 1000,
            pal: 3,
            members: vec![30, 31, 32],
            counts: vec![1, 2, 3],
            whale: None,
            admins: vec![10, 11],
            mutable: true,
            funds: vec![(0, fee_for(v, 1000))],
            rootkind: 0,
            urikind: 1,
        }
    }
    fn line(&self) -> String {
        format!(
            "inst sender={} start={} end={} limit={} pal={} members={} counts={} whale={} admins={} mut={} funds={} rootkind={} urikind={}",
            self.sender,
            self.start,
            self.end,
            self.limit,
            self.pal,
            fmt_list(&self.members),
            fmt_list(&self.counts),
            fmt_opt(&self.whale),
            fmt_list(&self.admins),
            self.mutable as u8,
            fmt_pairs(&self.funds),
            self.rootkind,
            self.urikind
        )
    }
}

/// where `x` lies relative to genesis / start / end / now (exact boundary instants get their own class)
fn cls(x: u64, o: &Obs) -> String {
    let rel = |name: &str, t: u64| -> Option<String> {
        if x == t {
            Some(name.to_string())
        } else if x.checked_add(1) == Some(t) {
            Some(format!("{name}-1"))
        } else if t.checked_add(1) == Some(x) {
            Some(format!("{name}+1"))
        } else {
            None
        }
    };
    rel("s", o.s())
        .or_else(|| rel("e", o.e()))
        .or_else(|| rel("g", G))
        .or_else(|| rel("n", o.now))
        .unwrap_or_else(|| if x < G { "ltG".into() } else if x < o.s() { "ltS".into() } else if x < o.e() { "mid".into() } else { "gtE".into() })
}
fn phase(o: &Obs) -> String {
    cls(o.now, &Obs { now: u64::MAX - 5, ..o.clone() })
}

/// step + coverage classes (op kind × variant × outcome × clock phase × argument class × sender role) + the FLOOR classes
/// (`floor:…`, `sent:…`) that `main` requires for every seed
fn do_op(ses: &mut Session, sut: &mut S, line: &str) -> bool {
    let pre = sut.cur.clone();
    let out = ses.step(sut, line);
    let ok = out.starts_with("ok");
    let oks = if ok { "ok" } else { "err" };
    let op = line.split_whitespace().next().unwrap_or("?");
    let vn = VN[sut.v];
    for s in std::mem::take(&mut sut.sent) {
        ses.mark(s);
    }
    let (adm, wit) = sut.last.as_ref().map(|l| (l.sender_admin, l.wit.clone())).unwrap_or((false, String::new()));
    if let Some(p) = pre.filter(|p| p.sched().is_some()) {
        let t = kv_u64(line, "t");
        let arg = t.map(|t| cls(t, &p)).unwrap_or_else(|| "-".into());
        let role = kv_u64(line, "sender").map(|_| if adm { "adm" } else { "non" }).unwrap_or("-");
        let shape = if p.s() == p.e() { "s=e" } else if p.s() == G { "s=g" } else { "s<e" };
        let ph = phase(&p);
        ses.mark(format!("{vn}:{op}:{oks}:ph={ph}:arg={arg}:{role}:{shape}"));
        // ---- floor classes: single-fault decisions at exact instants (only on the ordinary shape, where phases are unambiguous)
        if shape == "s<e" && p.e() > p.s() + 2 {
            match (op, t) {
                ("start", Some(t)) if t <= p.e() => ses.mark(format!("floor:{vn}:start:{oks}:ph={ph}:{role}")),
                ("end", Some(t)) if t > p.e() => ses.mark(format!("floor:{vn}:end-extend:{oks}:ph={ph}:{role}")),
                ("end", Some(t)) if t >= p.s() => ses.mark(format!("floor:{vn}:end-shorten:{oks}:ph={ph}:{role}:arg={arg}")),
                ("end", Some(_)) => ses.mark(format!("floor:{vn}:end-below-start:{oks}:ph={ph}:{role}:arg={arg}")),
                ("remove", _) if wit.contains("present=1") && kv_list(line, "members").map(|m| !m.is_empty()).unwrap_or(false) => {
                    ses.mark(format!("floor:{vn}:remove:{oks}:ph={ph}:{role}"))
                }
                ("x", _) | ("migrate", _) | ("pal", _) | ("add", _) | ("inclimit", _) => {
                    let started = if p.now >= p.s() { "started" } else { "before" };
                    let name = kv(line, "name").map(|n| format!(":{n}")).unwrap_or_default();
                    let from = kv(line, "from").map(|n| format!(":from={n}")).unwrap_or_default();
                    ses.mark(format!("floor:{vn}:{op}{name}{from}:{started}:{oks}"))
                }
                _ => {}
            }
        }
    } else if op == "inst" {
        // single-fault instantiate classes (all non-schedule checks pass = envok)
        if wit.contains("envok=1") {
            let (st, en, now) = (kv_u64(line, "start").unwrap_or(0) as i128, kv_u64(line, "end").unwrap_or(0) as i128, sut.now as i128);
            let d = |x: i128| x.clamp(-2, 2);
            ses.mark(format!("floor:{vn}:inst:{oks}:start-now={}:start-g={}:end-start={}", d(st - now), d(st - G as i128), d(en - st)));
        }
        ses.mark(format!("{vn}:inst:{oks}:pre-inst:{}", wit.trim()));
    } else {
        ses.mark(format!("{vn}:{op}:{oks}:pre-inst"));
    }
    if let Some(p) = &sut.cur {
        // every observation is a flags evaluation at a clock phase
        if p.sched().is_some() {
            ses.mark(format!("{vn}:flags:ph={}:{}", phase(p), if p.s() == p.e() { "s=e" } else { "s<e" }));
            if p.e() > p.s() + 2 && p.act.is_some() && p.st.is_some() && p.en.is_some() && p.cact.is_some() {
                ses.mark(format!("floor:{vn}:flags:ph={}", phase(p)));
            }
            ses.count(&format!("phase:{}", phase(p)));
        }
        if p.raw.is_some() {
            ses.mark(format!("floor:{vn}:raw:readable"));
        }
    }
    ok
}

/// probe the flags at the boundary instants that are still ahead of the clock (monotone)
fn probe_boundaries(ses: &mut Session, sut: &mut S) {
    let Some(o) = sut.cur.clone() else { return };
    let mut ts: Vec<u64> = vec![o.s().saturating_sub(1), o.s(), o.s().saturating_add(1), o.e().saturating_sub(1), o.e(), o.e().saturating_add(1)];
    ts.sort();
    ts.dedup();
    for t in ts {
        if t > o.now {
            do_op(ses, sut, &format!("t {t}"));
        }
    }
}

fn interesting_times(o: &Obs) -> Vec<u64> {
    let mut v = vec![];
    for t in [G, o.s(), o.e(), o.now] {
        v.extend([t.saturating_sub(1), t, t.saturating_add(1)]);
    }
    v.push(o.s() / 2 + o.e() / 2);
    v.push(o.e().saturating_add(1000));
    v.push(0);
    v.sort();
    v.dedup();
    v
}

fn main() {
    let mut ses = Session::new("C12");
    let mut sut = S::new();
    if ses.maybe_replay(&mut sut) {
        ses.finish(&mut sut);
    }
    let mut rng = ses.rng.fork();
    let thorough = ses.tier() != Tier::Quick;

    // ---------------------------------------------------------------- the message surface, enumerated at run time
    // every ExecuteMsg variant of the three crates; the ones without a named op are sent as raw JSON (`x`) to EVERY whitelist
    let named_keys: BTreeSet<&str> = NAMED.iter().map(|(_, k)| *k).collect();
    let mut extra: BTreeSet<String> = PROBES.iter().map(|s| s.to_string()).collect();
    for v in 0..3usize {
        let vars = schema_variants(&sut.schemas[v]);
        if vars.is_empty() {
            ses.note(format!("{}: ExecuteMsg schema has no variants (schema shape changed?) — surface enumeration is blind", VN[v]));
        }
        for (name, _) in vars {
            // coverage floor: every variant the crate declares must have been SENT to that crate in this run
            ses.require(format!("sent:{}:{name};", VN[v]));
            if !named_keys.contains(name.as_str()) {
                ses.note(format!("{}: ExecuteMsg variant `{name}` has no named op in c12.rs — sent as raw JSON under the frame/member monitors", VN[v]));
                ses.mark(format!("surface:{}:unknown-variant:{name}", VN[v]));
                extra.insert(name);
            }
        }
    }
    let extra: Vec<String> = extra.into_iter().collect();

    // ---------------------------------------------------------------- D. the named interleavings
    for v in 0..3usize {
        let (s, e) = (G + 100, G + 200);
        let scripts: Vec<(&str, Vec<String>)> = vec![
            ("shorten-end-then-move-start", vec![
                format!("end sender=10 t={}", s + 5), format!("start sender=10 t={}", s + 6), format!("start sender=10 t={}", s + 5),
                format!("end sender=10 t={}", s + 4), format!("start sender=10 t={}", s + 4), format!("end sender=10 t={}", s + 4),
                format!("t {}", s + 3), format!("end sender=10 t={}", s + 9), format!("t {}", s + 4), format!("end sender=10 t={}", s + 9),
                format!("end sender=10 t={}", s + 4), format!("end sender=10 t={}", s + 3), format!("t {}", s + 5),
            ]),
            ("update-exactly-at-start", vec![
                format!("t {}", s - 1), format!("start sender=10 t={}", s + 1), format!("t {}", s), "remove sender=10 members=30".into(),
                format!("start sender=10 t={}", s + 2), format!("t {}", s + 1), format!("start sender=10 t={}", s + 2), format!("start sender=10 t={}", s + 1),
                format!("end sender=10 t={}", e + 1), format!("end sender=10 t={}", e), format!("end sender=10 t={}", e - 1), "remove sender=10 members=30".into(),
                format!("end sender=10 t={}", s + 1), format!("end sender=10 t={}", s), format!("t {}", s + 2), format!("end sender=10 t={}", s + 1),
            ]),
            ("move-start-into-the-past", vec![
                format!("t {}", s - 10), format!("start sender=10 t={}", s - 50), format!("start sender=10 t={}", s), "remove sender=10 members=30".into(),
                format!("end sender=10 t={}", e + 1), format!("end sender=10 t={}", s - 51), format!("end sender=10 t={}", s - 50), format!("t {}", s - 9),
            ]),
            ("clamp-to-genesis", vec![
                "start sender=10 t=0".into(), format!("start sender=10 t={}", G - 1), "remove sender=10 members=30".into(), format!("end sender=10 t={}", G - 1),
                format!("end sender=10 t={}", G), format!("start sender=10 t={}", G + 1),
            ]),
            ("extend-before-start-not-after", vec![
                format!("end sender=10 t={}", e + 50), format!("t {}", s - 1), format!("end sender=10 t={}", e + 60), format!("t {}", s), format!("end sender=10 t={}", e + 61),
                format!("end sender=10 t={}", e + 60), format!("end sender=10 t={}", e + 59), format!("end sender=10 t={}", e + 60),
            ]),
            ("admin-handover", vec![
                format!("end sender=12 t={}", e - 1), "admins sender=11 list=12,13".into(), format!("end sender=12 t={}", e - 1), format!("end sender=10 t={}", e - 2),
                format!("start sender=11 t={}", s + 1), format!("start sender=13 t={}", s + 1), "freeze sender=10".into(), "freeze sender=12".into(),
                "admins sender=12 list=10".into(), "freeze sender=13".into(), format!("start sender=12 t={}", s + 2), "remove sender=10 members=30".into(), "remove sender=13 members=30".into(),
                "pal sender=10 n=4".into(), "pal sender=13 n=30".into(), "pal sender=13 n=31".into(), "pal sender=13 n=0".into(),
            ]),
            // the admin list as a SET: duplicates and order must not matter for who may bend the schedule
            ("admin-list-order-and-duplicates", vec![
                "admins sender=10 list=13,12,13,11".into(), format!("end sender=13 t={}", e - 1), format!("end sender=11 t={}", e - 2), format!("end sender=10 t={}", e - 3),
                "can a=13".into(), "can a=10".into(), "admins sender=12 list=-".into(), format!("start sender=12 t={}", s + 1), format!("t {}", s), format!("end sender=11 t={}", e + 5),
            ]),
            ("end-before-now-after-start", vec![
                format!("t {}", s + 50), format!("end sender=10 t={}", s + 50), format!("end sender=10 t={}", s + 51), format!("end sender=10 t={}", s + 10),
                format!("end sender=10 t={}", s), "remove sender=10 members=31".into(), "add sender=10 members=36 counts=1".into(),
            ]),
            ("membership-then-remove", vec![
                "add sender=10 members=33,34 counts=1,2".into(), "remove sender=10 members=33,35".into(), "remove sender=10 members=33".into(), "remove sender=10 members=33".into(),
                format!("inclimit sender=20 n=1001 funds=0:{}", fee_for(v, 1000)), format!("t {}", s), "remove sender=10 members=34".into(), "add sender=10 members=33 counts=1".into(),
                "remove sender=10 members=33".into(), "remove sender=10 members=30,31,32,34".into(),
            ]),
            // same block, repeated: the second identical update in one block, a shorten between two extension attempts, a removal
            // between two start updates
            ("same-block-repeats", vec![
                format!("t {}", s - 1), format!("start sender=10 t={}", s - 1), format!("start sender=10 t={}", s - 1), format!("start sender=10 t={}", s),
                "remove sender=10 members=30".into(), "remove sender=10 members=31".into(), format!("end sender=10 t={}", e + 1), format!("end sender=10 t={}", e - 1),
                format!("end sender=10 t={}", e), format!("end sender=10 t={}", e - 1), format!("end sender=10 t={}", e - 1),
            ]),
        ];
        for (name, ops) in scripts {
            ses.begin_case(&mut sut, &format!("case v={v} now={} script {name}", G + 50));
            do_op(&mut ses, &mut sut, &Inst::valid(v, s, e).line());
            for op in ops {
                do_op(&mut ses, &mut sut, &op);
            }
            probe_boundaries(&mut ses, &mut sut);
            ses.end_case();
        }
    }

    // ---------------------------------------------------------------- S. surface tour: every other entry point, at every phase
    // One case per (variant, message name): the message is sent by an admin (and by a stranger) with time-valued payloads at
    // {before start, start-1, start, mid, end, end+1}; `migrate` (same version, and from a pretended older version) likewise.
    for v in 0..3usize {
        let (s, e) = (G + 100, G + 200);
        let phases = [G + 60, s - 1, s, s + 50, e, e + 1];
        for name in extra.iter().map(|n| format!("x name={n}")).chain(["migrate".to_string()]) {
            ses.begin_case(&mut sut, &format!("case v={v} now={} surface {name}", G + 50));
            do_op(&mut ses, &mut sut, &Inst::valid(v, s, e).line());
            for now in phases {
                do_op(&mut ses, &mut sut, &format!("t {now}"));
                if name == "migrate" {
                    do_op(&mut ses, &mut sut, "migrate sender=10 from=0");
                    do_op(&mut ses, &mut sut, "migrate sender=20 from=0");
                    do_op(&mut ses, &mut sut, "migrate sender=10 from=1");
                    // the schedule must still be bendable exactly as before
                    do_op(&mut ses, &mut sut, &format!("end sender=10 t={}", e + 7));
                } else {
                    for k in [G - 1, now - 1, now + 1, s + 7, e + 7] {
                        do_op(&mut ses, &mut sut, &format!("{name} k={k} sender=10"));
                    }
                    do_op(&mut ses, &mut sut, &format!("{name} k={} sender=20", e + 9));
                }
            }
            ses.end_case();
        }
    }

    // ---------------------------------------------------------------- M. lists beyond the paging limits (26, 101 members)
    // "members can no longer be removed" on lists longer than one default page (25) and one maximal page (100): before the start a
    // 26-member removal works, from the start on nothing — not a removal, not any other message — makes a member disappear.
    for v in 0..2usize {
        let (s, e) = (G + 100, G + 200);
        let all: Vec<u64> = (100..=200).collect(); // 101 members
        let mut inst = Inst::valid(v, s, e);
        inst.members = all.clone();
        inst.counts = vec![];
        ses.begin_case(&mut sut, &format!("case v={v} now={} big-list", G + 50));
        do_op(&mut ses, &mut sut, &inst.line());
        let ok26 = do_op(&mut ses, &mut sut, &format!("remove sender=10 members={}", fmt_list(&all[..26])));
        ses.mark(format!("floor:{}:big:remove-26-before-start:{}", VN[v], ok26));
        do_op(&mut ses, &mut sut, &format!("add sender=10 members={} counts=-", fmt_list(&(201..=230).collect::<Vec<u64>>())));
        do_op(&mut ses, &mut sut, &format!("t {}", s - 1));
        do_op(&mut ses, &mut sut, &format!("remove sender=10 members={}", fmt_list(&all[26..27])));
        do_op(&mut ses, &mut sut, &format!("t {s}"));
        let r1 = do_op(&mut ses, &mut sut, &format!("remove sender=10 members={}", fmt_list(&all[27..53])));
        // … and everybody who is still on the list (own bookkeeping: 74 of the original 101 + the 30 added), in one message
        let rest: Vec<u64> = sut.ghost.as_ref().map(|g| g.members.iter().copied().collect()).unwrap_or_default();
        ses.count(&format!("big-list:members-at-start:{}", rest.len()));
        let r2 = do_op(&mut ses, &mut sut, &format!("remove sender=10 members={}", fmt_list(&rest)));
        ses.mark(format!("floor:{}:big:remove-after-start:{}:{}", VN[v], r1, r2));
        for n in &extra {
            do_op(&mut ses, &mut sut, &format!("x name={n} k={} sender=10", s + 1));
        }
        do_op(&mut ses, &mut sut, "migrate sender=10 from=1");
        do_op(&mut ses, &mut sut, "add sender=10 members=231 counts=1");
        do_op(&mut ses, &mut sut, &format!("end sender=10 t={}", s + 10));
        do_op(&mut ses, &mut sut, &format!("t {}", s + 10));
        do_op(&mut ses, &mut sut, &format!("remove sender=10 members={}", fmt_list(&all[27..28])));
        do_op(&mut ses, &mut sut, "pal sender=10 n=2");
        ses.end_case();
    }

    // ---------------------------------------------------------------- A. instantiate time grid
    for v in 0..3usize {
        for now in [G - 2, G - 1, G, G + 1, G + 50] {
            let mut starts = vec![now - 1, now, now + 1, G - 1, G, G + 1, now + 10];
            starts.sort();
            starts.dedup();
            for start in starts {
                for end in [start - 1, start, start + 1, start + 10] {
                    ses.begin_case(&mut sut, &format!("case v={v} now={now} inst-grid"));
                    let ok = do_op(&mut ses, &mut sut, &Inst::valid(v, start, end).line());
                    ses.mark(format!("{}:inst:{}:start-vs-now={}:start-vs-g={}:end-vs-start={}", VN[v], ok, (start as i128 - now as i128).clamp(-2, 2), (start as i128 - G as i128).clamp(-2, 2), (end as i128 - start as i128).clamp(-2, 2)));
                    probe_boundaries(&mut ses, &mut sut);
                    // an update right after creation (also exercises "no contract" when creation failed)
                    do_op(&mut ses, &mut sut, &format!("end sender=10 t={}", end + 1));
                    ses.end_case();
                }
            }
        }
    }

    // ---------------------------------------------------------------- B. instantiate: single faults outside the schedule
    // (environment for C12: the outcome of these checks is the `envok` witness; what is compared is that instantiate succeeds
    //  exactly when envok AND the three time checks pass)
    for v in 0..3usize {
        let base = Inst::valid(v, G + 100, G + 200);
        let fee = |l: u64| fee_for(v, l);
        let mut muts: Vec<(&str, Inst)> = vec![("valid", base.clone())];
        for l in [0u64, 1, 999, 1000, 1001, 2000, 2001, 4999, 5000, 5001] {
            muts.push(("limit", Inst { limit: l, funds: vec![(0, fee(l))], ..base.clone() }));
        }
        muts.push(("limit-fee-of-neighbour", Inst { limit: 1001, funds: vec![(0, fee(1000))], ..base.clone() }));
        for p in [0u64, 1, 29, 30, 31, 1000] {
            muts.push(("pal", Inst { pal: p, ..base.clone() }));
        }
        let f = fee(1000);
        for fu in [vec![], vec![(0u128, f - 1)], vec![(0, f + 1)], vec![(1, f)], vec![(0, f), (1, 5)], vec![(1, 5), (0, f)]] {
            muts.push(("funds", Inst { funds: fu, ..base.clone() }));
        }
        muts.push(("members-over", Inst { limit: 2, funds: vec![(0, fee(2))], members: vec![30, 31, 32], ..base.clone() }));
        muts.push(("members-dup", Inst { limit: 2, funds: vec![(0, fee(2))], members: vec![30, 30, 31], ..base.clone() }));
        muts.push(("members-eq", Inst { limit: 3, funds: vec![(0, fee(3))], members: vec![30, 31, 32], ..base.clone() }));
        muts.push(("members-none", Inst { members: vec![], counts: vec![], ..base.clone() }));
        for (w, c) in [(Some(1000u64), 1u64), (Some(1001), 1), (Some(1001), 1001), (Some(1001), 1002), (Some(999), 1)] {
            muts.push(("whale", Inst { whale: w, counts: vec![1, c, 1], ..base.clone() }));
        }
        for k in 0..4 {
            muts.push(("root", Inst { rootkind: k, ..base.clone() }));
        }
        for k in 0..5 {
            muts.push(("uri", Inst { urikind: k, ..base.clone() }));
        }
        muts.push(("admins-none", Inst { admins: vec![], ..base.clone() }));
        muts.push(("sender-not-admin", Inst { sender: 20, ..base.clone() }));
        muts.push(("immutable", Inst { mutable: false, ..base.clone() }));
        for (name, m) in muts {
            // the same single fault with a good schedule and with each of the three time faults: envok and the time checks compose
            for (tf, st, en, now) in [("sched-ok", m.start, m.end, G + 50), ("start=now", G + 50, m.end, G + 50), ("end<start", m.start, m.start - 1, G + 50)] {
                if tf != "sched-ok" && !matches!(name, "valid" | "funds" | "limit" | "root") {
                    continue;
                }
                ses.begin_case(&mut sut, &format!("case v={v} now={now} inst-fault {name} {tf}"));
                let ok = do_op(&mut ses, &mut sut, &Inst { start: st, end: en, ..m.clone() }.line());
                ses.mark(format!("{}:inst-fault:{name}:{tf}:{ok}", VN[v]));
                let s = m.admins.first().copied().unwrap_or(10);
                do_op(&mut ses, &mut sut, &format!("start sender={s} t={}", G + 120));
                do_op(&mut ses, &mut sut, &format!("can a={s}"));
                do_op(&mut ses, &mut sut, "freeze sender=10");
                do_op(&mut ses, &mut sut, "admins sender=10 list=12");
                ses.end_case();
            }
        }
    }

    // ---------------------------------------------------------------- C. update grid at exact boundary instants
    // schedules: ordinary window, start exactly at genesis, empty window (start = end), one-nanosecond window
    let schedules: [(u64, u64, u64); 4] = [(G + 50, G + 100, G + 200), (G - 5, G, G + 3), (G + 50, G + 100, G + 100), (G + 50, G + 100, G + 101)];
    for v in 0..3usize {
        for (now0, start, end) in schedules {
            let mid = (start + end) / 2;
            let mut positions = vec![start - 1, start, start + 1, mid, end - 1, end, end + 1, now0];
            positions.sort();
            positions.dedup();
            for now in positions {
                if now < now0 {
                    continue;
                }
                let mut args = vec![G - 1, G, G + 1, now - 1, now, now + 1, start - 1, start, start + 1, end - 1, end, end + 1, mid, 0, end + 1000];
                args.sort();
                args.dedup();
                let mut ops: Vec<String> = vec![];
                for sender in [10u64, 20] {
                    for a in &args {
                        ops.push(format!("start sender={sender} t={a}"));
                        ops.push(format!("end sender={sender} t={a}"));
                    }
                    ops.push(format!("remove sender={sender} members=30"));
                    ops.push(format!("remove sender={sender} members=30,32"));
                    ops.push(format!("remove sender={sender} members=-"));
                    ops.push(format!("pal sender={sender} n=5"));
                }
                ops.push("remove sender=11 members=35".to_string());
                ops.push("remove sender=11 members=30,30".to_string());
                ops.push("add sender=10 members=33,34 counts=1,1".to_string());
                ops.push(format!("inclimit sender=20 n=2000 funds=0:{}", fee_for(v, 1000)));
                ops.push("migrate sender=10 from=1".to_string());
                for n in &extra {
                    ops.push(format!("x name={n} k={} sender=10", now + 1));
                }
                for op in ops {
                    ses.begin_case(&mut sut, &format!("case v={v} now={now0} update-grid"));
                    do_op(&mut ses, &mut sut, &Inst::valid(v, start, end).line());
                    if now != now0 {
                        do_op(&mut ses, &mut sut, &format!("t {now}"));
                    }
                    do_op(&mut ses, &mut sut, &op);
                    probe_boundaries(&mut ses, &mut sut);
                    ses.end_case();
                }
            }
        }
    }

    // ---------------------------------------------------------------- E. random walks (monotone clock, boundary-biased)
    let n_walks = ses.scale(300, 20000);
    for w in 0..n_walks {
        let v = (w % 3) as usize;
        let now0 = if rng.chance(1, 4) { G - rng.range(1, 6) } else { G + rng.range(0, 60) };
        ses.begin_case(&mut sut, &format!("case v={v} now={now0} walk"));
        // time scale of the schedule: nanoseconds, seconds or hours apart (boundary probes stay at +-1 ns)
        let unit: u64 = *rng.pick(&[1u64, 1, 1_000_000_000, 3_600_000_000_000]);
        let start = now0.max(G - 1) + rng.range(1, 30) * unit;
        let end = start + if rng.chance(1, 5) { 0 } else { rng.range(1, 40) * unit };
        let mut inst = Inst::valid(v, start, end);
        if rng.chance(1, 3) {
            inst.admins = vec![10, 11, 12];
        }
        if rng.chance(1, 6) {
            inst.mutable = false;
        }
        if rng.chance(1, 10) {
            // single-fault instantiate first (off-by-one on one of the time checks), then the valid one
            let mut bad = inst.clone();
            match rng.below(3) {
                0 => bad.start = now0,
                1 => bad.end = bad.start - 1,
                _ => bad.start = G - 1,
            }
            do_op(&mut ses, &mut sut, &bad.line());
        }
        do_op(&mut ses, &mut sut, &inst.line());
        let n_ops = rng.range(10, 40);
        for _ in 0..n_ops {
            let Some(o) = sut.cur.clone() else { break };
            // clock
            if rng.chance(1, 2) {
                let cands: Vec<u64> = interesting_times(&o).into_iter().filter(|t| *t >= o.now && *t <= o.e().saturating_add(3)).collect();
                let t = if !cands.is_empty() && rng.chance(2, 3) { *rng.pick(&cands) } else { o.now + rng.range(0, 8) * unit };
                do_op(&mut ses, &mut sut, &format!("t {t}"));
            }
            let Some(o) = sut.cur.clone() else { break };
            let admins = sut.ghost.as_ref().map(|g| g.admins.clone()).unwrap_or_default();
            let sender = if rng.chance(4, 5) && !admins.is_empty() { *rng.pick(&admins) } else { *rng.pick(&SENDERS) };
            let arg = if rng.chance(7, 10) { *rng.pick(&interesting_times(&o)) } else { rng.range(G - 10, o.e().saturating_add(50 * unit).max(G)) };
            let funds = if rng.chance(1, 12) { " funds=0:7" } else { "" };
            let line = match rng.below(100) {
                0..=25 => format!("start sender={sender} t={arg}{funds}"),
                26..=51 => format!("end sender={sender} t={arg}{funds}"),
                52..=65 => {
                    let k = rng.range(0, 2);
                    let ms: Vec<u64> = (0..k).map(|_| rng.range(30, 36)).collect();
                    format!("remove sender={sender} members={}", fmt_list(&ms))
                }
                66..=73 => {
                    let k = rng.range(1, 3);
                    let ms: Vec<u64> = (0..k).map(|_| rng.range(30, 36)).collect();
                    let cs: Vec<u64> = ms.iter().map(|_| rng.range(1, 5)).collect();
                    format!("add sender={sender} members={} counts={}", fmt_list(&ms), fmt_list(&cs))
                }
                74..=78 => format!("pal sender={sender} n={}", *rng.pick(&[0u64, 1, 29, 30, 31, 7])),
                79..=83 => {
                    let mut l: Vec<u64> = vec![10, 11, 12, 13];
                    rng.shuffle(&mut l);
                    l.truncate(rng.range(0, 3) as usize);
                    format!("admins sender={sender} list={}", fmt_list(&l))
                }
                84..=85 => format!("freeze sender={sender}"),
                86..=89 => {
                    let n = *rng.pick(&[1000u64, 1001, 1500, 2000, 2001, 5000, 5001]);
                    let fee = fee_for(v, n).saturating_sub(fee_for(v, 1000));
                    let f = if fee > 0 && rng.chance(4, 5) { format!("0:{fee}") } else { "-".into() };
                    format!("inclimit sender={sender} n={n} funds={f}")
                }
                90..=94 => format!("x name={} k={arg} sender={sender}", rng.pick(&extra)),
                95..=96 => format!("migrate sender={sender} from={}", rng.below(2)),
                _ => format!("can a={sender}"),
            };
            do_op(&mut ses, &mut sut, &line);
        }
        probe_boundaries(&mut ses, &mut sut);
        ses.end_case();
    }

    // ---------------------------------------------------------------- F. every short sequence over a tiny time lattice
    // (the clock may also jump backwards here: validates the model for arbitrary block times)
    let lat: Vec<u64> = (0..4).map(|k| G - 1 + k).collect();
    let mut alphabet: Vec<String> = vec![];
    for x in &lat {
        alphabet.push(format!("t {x}"));
        alphabet.push(format!("start sender=10 t={x}"));
        alphabet.push(format!("end sender=10 t={x}"));
    }
    alphabet.push("remove sender=10 members=30".into());
    let depth = if thorough { 3 } else { 2 };
    let mut seqs: Vec<Vec<usize>> = vec![vec![]];
    for _ in 0..depth {
        let mut next = vec![];
        for s in &seqs {
            for i in 0..alphabet.len() {
                let mut s2 = s.clone();
                s2.push(i);
                next.push(s2);
            }
        }
        seqs = next;
    }
    for v in 0..3usize {
        for start in &lat[1..] {
            for end in lat.iter().filter(|e| *e >= start) {
                for seq in &seqs {
                    ses.begin_case(&mut sut, &format!("case v={v} now={} lattice", G - 2));
                    do_op(&mut ses, &mut sut, &Inst::valid(v, *start, *end).line());
                    for i in seq {
                        do_op(&mut ses, &mut sut, &alphabet[*i]);
                    }
                    ses.end_case();
                }
            }
        }
    }
    ses.count(&format!("lattice:depth{depth}:alphabet{}", alphabet.len()));

    // ---------------------------------------------------------------- coverage floor (must hold for every seed; all from the
    // deterministic sections D, S, M, A, C) — without these the run would be vacuous for a clause of the property
    for v in 0..3usize {
        let vn = VN[v];
        // creation: accepted one nanosecond into the future / at genesis / with end = start; rejected at now, genesis-1, end = start-1
        ses.require(format!("floor:{vn}:inst:ok:start-now=1:"));
        ses.require(format!("floor:{vn}:inst:err:start-now=0:"));
        ses.require(format!("floor:{vn}:inst:ok:start-now=2:start-g=0:"));
        ses.require(format!("floor:{vn}:inst:err:start-now=1:start-g=-1:"));
        ses.require(format!("floor:{vn}:inst:ok:start-now=2:start-g=2:end-start=0"));
        ses.require(format!("floor:{vn}:inst:err:start-now=2:start-g=2:end-start=-1"));
        // start update: accepted at start-1, rejected at start and after; by an admin / rejected for a stranger
        ses.require(format!("floor:{vn}:start:ok:ph=s-1:adm"));
        ses.require(format!("floor:{vn}:start:err:ph=s:adm"));
        ses.require(format!("floor:{vn}:start:err:ph=s+1:adm"));
        ses.require(format!("floor:{vn}:start:err:ph=s-1:non"));
        // end update: extension accepted at start-1, rejected at start; shortening accepted once started, down to start, not below
        ses.require(format!("floor:{vn}:end-extend:ok:ph=s-1:adm"));
        ses.require(format!("floor:{vn}:end-extend:err:ph=s:adm"));
        ses.require(format!("floor:{vn}:end-shorten:ok:ph=s:adm"));
        ses.require(format!("floor:{vn}:end-shorten:ok:ph=s:adm:arg=s"));
        ses.require(format!("floor:{vn}:end-below-start:err:ph=s:adm:arg=s-1"));
        ses.require(format!("floor:{vn}:end-extend:err:ph=s-1:non"));
        // the four flags answered at every boundary instant
        for ph in ["s-1", "s", "s+1", "e-1", "e", "e+1"] {
            ses.require(format!("floor:{vn}:flags:ph={ph}"));
        }
        // storage was readable (otherwise the monitors fell back to the Config query — see the note)
        ses.require(format!("floor:{vn}:raw:readable"));
        // every other entry point was exercised before and after the start
        ses.require(format!("floor:{vn}:migrate:from=1:started:"));
        ses.require(format!("floor:{vn}:migrate:from=0:before:"));
        for n in &extra {
            ses.require(format!("floor:{vn}:x:{n}:started:"));
            ses.require(format!("floor:{vn}:x:{n}:before:"));
        }
        ses.require(format!("sent:{vn}:migrate;"));
        if v < 2 {
            ses.require(format!("floor:{vn}:remove:ok:ph=s-1:adm"));
            ses.require(format!("floor:{vn}:remove:err:ph=s:adm"));
            ses.require(format!("floor:{vn}:remove:err:ph=s-1:non"));
            ses.require(format!("floor:{vn}:big:remove-26-before-start:true"));
            ses.require(format!("floor:{vn}:big:remove-after-start:false:false"));
            ses.require(format!("floor:{vn}:add:started:ok"));
        }
    }
    ses.require("floor:whitelist-merkletree:migrate:from=1:started:ok");

    if sut.raw_unreadable > 0 {
        ses.note(format!("stored schedule unreadable in {} observations (no single storage value with start_time and end_time): monitors fell back to the Config query there", sut.raw_unreadable));
    }
    ses.note("clock: every comparison probed at t-1ns, t, t+1ns for t in {genesis, start, end, now}; schedules incl. start=genesis, start=end, end=start+1ns");
    ses.note("three variants x (named interleavings incl. same-block repeats, surface tour of every schema variant / probe / migrate at six phases, 101-member lists, instantiate time grid, single-fault instantiate x time fault, update grid at boundary instants x admin/stranger, boundary-biased random walks, all sequences of length <= depth over a 4-instant lattice incl. backward clock jumps)");
    ses.note("monitor truths: schedule read from contract storage (layout-free scan), harness clock, harness's own admin list and member set (what it sent and saw accepted); non-schedule instantiate checks, UpdatePerAddressLimit, AddMembers, IncreaseMemberLimit, migrate and unknown variants are witnesses (environment) — only constrained not to move schedule or members");
    ses.finish(&mut sut);
}
