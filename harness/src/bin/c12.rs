//! C12 — whitelist schedules (plain `sg-whitelist`, `sg-whitelist-flex`, `whitelist-mtree`).
//! The REAL contracts under cw-multi-test vs `LP.WlSchedule` (Lean). See /verif/docs/C12.md.
//!
//! Lines (every parameter is in the line, so a replay needs nothing else):
//!   case v=<0 plain|1 flex|2 merkle> now=<ns> <free text>
//!   t <ns>
//!   inst sender= start= end= limit= pal= members=a,b counts=n,m whale=<n|-> admins=a,b mut=<0|1> funds=d:a rootkind=<0..3> urikind=<0..4>
//!        (+ witness ` root=<0|1> uri=<0|1>`: what the contract's own `verify_merkle_root` / `verify_tree_uri` say)
//!   start sender= t= [funds=]      end sender= t= [funds=]
//!   remove sender= members=a,b     (+ witness ` present=<0|1>`: HasMember for each before the call, no repetition)
//!   pal sender= n=                 admins sender= list=a,b        freeze sender=
//!   add sender= members= counts=   inclimit sender= n= funds=     (+ witness ` res=<0|1>`: the outcome; schedule must not move)
//!   can a=
use cosmwasm_std::{coin, Addr, BlockInfo, Coin, Timestamp};
use cw_multi_test::{BankSudo, Executor, SudoMsg};
use lp_harness::boxes::{self, App};
use lp_harness::world::*;
use lp_harness::*;
use serde_json::{json, Value};

const G: u64 = sg_utils::GENESIS_MINT_START_TIME;
const VN: [&str; 3] = ["whitelist", "whitelist-flex", "whitelist-merkletree"];
/// accounts that ever send messages (all funded in both denoms)
const SENDERS: [u64; 6] = [10, 11, 12, 13, 20, 21];

#[derive(Clone, Debug, PartialEq, Eq)]
struct Obs {
    now: u64,
    start: u64,
    end: u64,
    pal: Option<u64>,
    act: bool,
    st: bool,
    en: bool,
    cact: bool,
    admins: Vec<u64>,
    mutable: bool,
}

impl Obs {
    fn render(o: &Option<Obs>) -> String {
        match o {
            None => "none".into(),
            Some(o) => format!(
                "now={} s={} e={} pal={} act={} st={} en={} cact={} adm={} mut={}",
                o.now,
                o.start,
                o.end,
                fmt_opt(&o.pal),
                o.act as u8,
                o.st as u8,
                o.en as u8,
                o.cact as u8,
                fmt_list(&o.admins),
                o.mutable as u8
            ),
        }
    }
}

struct Last {
    line: String,
    op: String,
    ok: bool,
    pre: Option<Obs>,
    post: Option<Obs>,
}

struct S {
    app: App,
    v: usize,
    code: u64,
    contract: Option<Addr>,
    now: u64,
    height: u64,
    log: Vec<String>,
    last: Option<Last>,
    /// observation after the last op (the generators read it)
    cur: Option<Obs>,
}

fn ts(v: &Value) -> u64 {
    v.as_str().and_then(|s| s.parse().ok()).expect("timestamp")
}

fn root_string(kind: u64) -> String {
    match kind {
        0 => "5ab281bca33c9819e0daa0708d20ddd8a8e5aff3f7c4c1a2a1a4c5ec3a8e8b7a".to_string(),
        1 => "zzb281bca33c9819e0daa0708d20ddd8a8e5aff3f7c4c1a2a1a4c5ec3a8e8b7a".to_string(),
        2 => "5ab281bca33c9819e0daa0708d20ddd8a8e5aff3f7c4c1a2a1a4c5ec3a8e8b".to_string(),
        _ => String::new(),
    }
}
fn uri_option(kind: u64) -> Option<String> {
    match kind {
        0 => None,
        1 => Some("https://example.com/tree.json".into()),
        2 => Some("ipfs://bafybeigdyrzt5sfp7udm7hu76uh7y26nf3efuylqabf3oclgtqy55fbzdi".into()),
        3 => Some("not a url".into()),
        _ => Some(String::new()),
    }
}

impl S {
    fn new() -> S {
        S { app: boxes::custom_mock_app(), v: 0, code: 0, contract: None, now: 0, height: 1, log: vec![], last: None, cur: None }
    }

    fn set_time(&mut self, t: u64) {
        self.now = t;
        self.height += 1;
        self.app.set_block(BlockInfo { height: self.height, time: Timestamp::from_nanos(t), chain_id: "stargaze-1".into() });
    }

    fn q(&self, msg: Value) -> Value {
        let c = self.contract.as_ref().unwrap();
        self.app.wrap().query_wasm_smart::<Value>(c.clone(), &msg).unwrap_or_else(|e| panic!("query {msg} failed: {e}"))
    }

    fn obs(&self) -> Option<Obs> {
        self.contract.as_ref()?;
        let cfg = self.q(json!({"config": {}}));
        let adm = self.q(json!({"admin_list": {}}));
        Some(Obs {
            now: self.now,
            start: ts(&cfg["start_time"]),
            end: ts(&cfg["end_time"]),
            pal: cfg.get("per_address_limit").and_then(|x| x.as_u64()),
            act: self.q(json!({"is_active": {}}))["is_active"].as_bool().unwrap(),
            st: self.q(json!({"has_started": {}}))["has_started"].as_bool().unwrap(),
            en: self.q(json!({"has_ended": {}}))["has_ended"].as_bool().unwrap(),
            cact: cfg["is_active"].as_bool().unwrap(),
            admins: adm["admins"].as_array().unwrap().iter().map(|a| addr_id(a.as_str().unwrap())).collect(),
            mutable: adm["mutable"].as_bool().unwrap(),
        })
    }

    fn has_member(&self, id: u64) -> bool {
        if self.v == 2 {
            return false;
        }
        self.q(json!({"has_member": {"member": addr(id)}}))["has_member"].as_bool().unwrap()
    }

    fn members_json(&self, members: &[u128], counts: &[u128]) -> Value {
        if self.v == 1 {
            Value::Array(
                members
                    .iter()
                    .enumerate()
                    .map(|(i, m)| json!({"address": addr(*m as u64), "mint_count": counts.get(i).copied().unwrap_or(1) as u64}))
                    .collect(),
            )
        } else {
            Value::Array(members.iter().map(|m| json!(addr(*m as u64))).collect())
        }
    }

    fn exec_json(&mut self, sender: u64, msg: Value, funds: &[Coin]) -> bool {
        let Some(c) = self.contract.clone() else { return false };
        self.app.execute_contract(a(sender), c, &msg, funds).is_ok()
    }

    /// returns (witness suffix, ok)
    fn run_op(&mut self, line: &str) -> (String, bool) {
        let op = line.split_whitespace().next().unwrap_or("");
        let sender = kv_u64(line, "sender").unwrap_or(0);
        let funds: Vec<Coin> = kv_pairs(line, "funds").map(|p| coins_of(&p)).unwrap_or_default();
        match op {
            "t" => {
                let t: u64 = line.split_whitespace().nth(1).and_then(|x| x.parse().ok()).expect("t <ns>");
                self.set_time(t);
                (String::new(), true)
            }
            "inst" => {
                let start = kv_u64(line, "start").unwrap();
                let end = kv_u64(line, "end").unwrap();
                let limit = kv_u64(line, "limit").unwrap();
                let pal = kv_u64(line, "pal").unwrap();
                let members = kv_list(line, "members").unwrap();
                let counts = kv_list(line, "counts").unwrap();
                let whale = kv_opt_u64(line, "whale").unwrap();
                let admins: Vec<String> = kv_list(line, "admins").unwrap().iter().map(|x| addr(*x as u64)).collect();
                let mutable = kv_bool(line, "mut").unwrap();
                let root = root_string(kv_u64(line, "rootkind").unwrap());
                let uri = uri_option(kv_u64(line, "urikind").unwrap());
                // opaque predicates: asked of the contract's own helpers (hex decoding, Url::parse)
                let root_ok = whitelist_mtree::helpers::crypto::verify_merkle_root(&root).is_ok();
                let uri_ok = whitelist_mtree::helpers::utils::verify_tree_uri(&uri).is_ok();
                let price = json!({"denom": denom(0), "amount": "1000000"});
                let msg = match self.v {
                    0 => json!({"members": self.members_json(&members, &counts), "start_time": start.to_string(), "end_time": end.to_string(),
                        "mint_price": price, "per_address_limit": pal, "member_limit": limit, "admins": admins, "admins_mutable": mutable}),
                    1 => json!({"members": self.members_json(&members, &counts), "start_time": start.to_string(), "end_time": end.to_string(),
                        "mint_price": price, "member_limit": limit, "admins": admins, "admins_mutable": mutable, "whale_cap": whale}),
                    _ => json!({"merkle_root": root, "merkle_tree_uri": uri, "start_time": start.to_string(), "end_time": end.to_string(),
                        "mint_price": price, "per_address_limit": pal, "admins": admins, "admins_mutable": mutable}),
                };
                let r = self.app.instantiate_contract(self.code, a(sender), &msg, &funds, "wl", None);
                let ok = match r {
                    Ok(c) => {
                        self.contract = Some(c);
                        true
                    }
                    Err(_) => false,
                };
                (format!(" root={} uri={}", root_ok as u8, uri_ok as u8), ok)
            }
            "start" => (String::new(), self.exec_json(sender, json!({"update_start_time": kv_u64(line, "t").unwrap().to_string()}), &funds)),
            "end" => (String::new(), self.exec_json(sender, json!({"update_end_time": kv_u64(line, "t").unwrap().to_string()}), &funds)),
            "remove" => {
                let ms = kv_list(line, "members").unwrap();
                let mut present = self.contract.is_some();
                if present {
                    let mut seen = std::collections::BTreeSet::new();
                    for m in &ms {
                        if !seen.insert(*m) || !self.has_member(*m as u64) {
                            present = false;
                        }
                    }
                }
                let to_remove: Vec<String> = ms.iter().map(|m| addr(*m as u64)).collect();
                let ok = self.exec_json(sender, json!({"remove_members": {"to_remove": to_remove}}), &funds);
                (format!(" present={}", present as u8), ok)
            }
            "pal" => (String::new(), self.exec_json(sender, json!({"update_per_address_limit": kv_u64(line, "n").unwrap()}), &funds)),
            "admins" => {
                let l: Vec<String> = kv_list(line, "list").unwrap().iter().map(|x| addr(*x as u64)).collect();
                (String::new(), self.exec_json(sender, json!({"update_admins": {"admins": l}}), &funds))
            }
            "freeze" => (String::new(), self.exec_json(sender, json!({"freeze": {}}), &funds)),
            "add" => {
                let ms = kv_list(line, "members").unwrap();
                let cs = kv_list(line, "counts").unwrap();
                let ok = self.exec_json(sender, json!({"add_members": {"to_add": self.members_json(&ms, &cs)}}), &funds);
                (format!(" res={}", ok as u8), ok)
            }
            "inclimit" => {
                let ok = self.exec_json(sender, json!({"increase_member_limit": kv_u64(line, "n").unwrap()}), &funds);
                (format!(" res={}", ok as u8), ok)
            }
            _ => panic!("unknown op line `{line}`"),
        }
    }

    fn start_world(&mut self, header: &str) {
        self.app = boxes::custom_mock_app();
        self.v = kv_u64(header, "v").expect("case v=") as usize;
        self.code = self.app.store_code(match self.v {
            0 => boxes::whitelist(),
            1 => boxes::whitelist_flex(),
            _ => boxes::whitelist_mtree(),
        });
        self.contract = None;
        self.height = 1;
        for s in SENDERS {
            self.app
                .sudo(SudoMsg::Bank(BankSudo::Mint { to_address: addr(s), amount: vec![coin(1u128 << 100, denom(1)), coin(1u128 << 100, denom(0))] }))
                .expect("mint");
        }
        self.set_time(kv_u64(header, "now").expect("case now="));
        self.last = None;
        self.cur = None;
    }
}

impl Sut for S {
    fn begin(&mut self, header: &str) -> (String, String) {
        self.start_world(header);
        self.log = vec![header.to_string()];
        (header.to_string(), "case".to_string())
    }

    fn exec(&mut self, line: &str) -> (String, String) {
        let op = line.split_whitespace().next().unwrap_or("").to_string();
        if op == "can" {
            let out = match &self.contract {
                None => "err none".to_string(),
                Some(_) => {
                    let r = self.q(json!({"can_execute": {"sender": addr(kv_u64(line, "a").unwrap()), "msg": {"custom": {}}}}));
                    format!("ok can={}", r["can_execute"].as_bool().unwrap() as u8)
                }
            };
            self.last = None;
            return (line.to_string(), out);
        }
        let pre = self.obs();
        let (wit, ok) = match catch(|| self.run_op(line)) {
            Ok(r) => r,
            Err(_) => {
                // a panic inside contract code = failed transaction; rebuild the world from the log
                let log = self.log.clone();
                self.start_world(&log[0]);
                for l in &log[1..] {
                    let _ = catch(|| self.run_op(l));
                }
                let w = match op.as_str() {
                    "remove" => " present=0",
                    "add" | "inclimit" => " res=0",
                    "inst" => " root=1 uri=1",
                    _ => "",
                };
                (w.to_string(), false)
            }
        };
        self.log.push(line.to_string());
        let post = self.obs();
        let out = format!("{} {}", if ok { "ok" } else { "err" }, Obs::render(&post));
        self.cur = post.clone();
        self.last = Some(Last { line: line.to_string(), op, ok, pre, post });
        (format!("{line}{wit}"), out)
    }

    /// Direct transcription of property C12 on the implementation's own observations (no Lean model involved).
    fn monitor(&mut self) -> Option<(String, String)> {
        let l = self.last.as_ref()?;
        let v = VN[self.v];
        let op = l.op.as_str();
        let bad = |op: &str, p: &str, w: String| Some((format!("{v}/{op}/{p}"), format!("{w}; after `{}` => {} {}", l.line, if l.ok { "ok" } else { "err" }, Obs::render(&l.post))));
        let post = l.post.as_ref()?;
        // "start time is never after its end time and is never before the genesis mint time"
        if post.start > post.end {
            return bad(op, "start-after-end", format!("start {} > end {}", post.start, post.end));
        }
        if post.start < G {
            return bad(op, "start-before-genesis", format!("start {} < genesis {}", post.start, G));
        }
        // "activity flags are consistent at every instant"
        let want_act = post.start <= post.now && post.now < post.end;
        if post.act != want_act {
            return bad("query", "is-active", format!("IsActive={} but start<=now<end is {}", post.act, want_act));
        }
        if post.st != (post.now >= post.start) {
            return bad("query", "has-started", format!("HasStarted={} but now>=start is {}", post.st, post.now >= post.start));
        }
        if post.en != (post.now >= post.end) {
            return bad("query", "has-ended", format!("HasEnded={} but now>=end is {}", post.en, post.now >= post.end));
        }
        if post.cact != post.act {
            return bad("query", "config-is-active", format!("Config.is_active={} but IsActive={}", post.cact, post.act));
        }
        if op == "inst" {
            if l.ok {
                // "it is created only with a start in the future"
                if post.now >= post.start {
                    return bad(op, "created-not-in-future", format!("created at now {} with start {}", post.now, post.start));
                }
            }
            return None;
        }
        let pre = l.pre.as_ref()?;
        // "Once a whitelist has started its start time cannot change, its end time can only be brought forward
        //  (never extended, never before the start), and members can no longer be removed"
        if pre.now >= pre.start {
            if post.start != pre.start {
                return bad(op, "start-changed-after-start", format!("start {} -> {} at now {}", pre.start, post.start, pre.now));
            }
            if post.end > pre.end {
                return bad(op, "end-extended-after-start", format!("end {} -> {} at now {}", pre.end, post.end, pre.now));
            }
            if op == "remove" && l.ok && !kv_list(&l.line, "members").unwrap_or_default().is_empty() {
                return bad(op, "removed-after-start", format!("RemoveMembers accepted at now {} >= start {}", pre.now, pre.start));
            }
        }
        // only an admin can bend the schedule / remove members (updates by non-admins must fail)
        let sender = kv_u64(&l.line, "sender").unwrap_or(0);
        let is_admin = pre.admins.contains(&sender);
        if l.ok && matches!(op, "start" | "end" | "remove" | "pal") && !is_admin {
            return bad(op, "non-admin-accepted", format!("sender {sender} is not in {:?}", pre.admins));
        }
        if l.ok && matches!(op, "admins" | "freeze") && !(is_admin && pre.mutable) {
            return bad(op, "non-admin-accepted", format!("sender {sender} may not modify the admin list {:?} (mutable={})", pre.admins, pre.mutable));
        }
        // frame: only UpdateStartTime / UpdateEndTime move the schedule; a failed message changes nothing
        if !matches!(op, "start" | "end") && (post.start, post.end) != (pre.start, pre.end) {
            return bad(op, "schedule-changed", format!("schedule ({},{}) -> ({},{})", pre.start, pre.end, post.start, post.end));
        }
        if op == "start" && post.end != pre.end {
            return bad(op, "schedule-changed", format!("UpdateStartTime moved end {} -> {}", pre.end, post.end));
        }
        if op == "end" && post.start != pre.start {
            return bad(op, "schedule-changed", format!("UpdateEndTime moved start {} -> {}", pre.start, post.start));
        }
        if !l.ok && (post.start, post.end, post.pal, &post.admins, post.mutable) != (pre.start, pre.end, pre.pal, &pre.admins, pre.mutable) {
            return bad(op, "failed-op-changed-state", "a rejected message changed the stored state".into());
        }
        None
    }
}

// ------------------------------------------------------------------------------------------------ generators

#[derive(Clone, Debug)]
struct Inst {
    sender: u64,
    start: u64,
    end: u64,
    limit: u64,
    pal: u64,
    members: Vec<u64>,
    counts: Vec<u64>,
    whale: Option<u64>,
    admins: Vec<u64>,
    mutable: bool,
    funds: Vec<(u128, u128)>,
    rootkind: u64,
    urikind: u64,
}

fn fee_for(v: usize, limit: u64) -> u128 {
    match v {
        0 => ((limit as u128 + 999) / 1000) * sg_whitelist::contract::PRICE_PER_1000_MEMBERS,
        1 => ((limit as u128 + 999) / 1000) * sg_whitelist_flex::contract::PRICE_PER_1000_MEMBERS,
        _ => whitelist_mtree::contract::CREATION_FEE,
    }
}

impl Inst {
    fn valid(v: usize, start: u64, end: u64) -> Inst {
        Inst {
            sender: 10,
            start,
            end,
            limit: 1000,
            pal: 3,
            members: vec![30, 31, 32],
            counts: vec![1, 2, 3],
            whale: None,
            admins: vec![10, 11],
            mutable: true,
            funds: vec![(0, fee_for(v, 1000))],
            rootkind: 0,
            urikind: 1,
        }
    }
    fn line(&self) -> String {
        format!(
            "inst sender={} start={} end={} limit={} pal={} members={} counts={} whale={} admins={} mut={} funds={} rootkind={} urikind={}",
            self.sender,
            self.start,
            self.end,
            self.limit,
            self.pal,
            fmt_list(&self.members),
            fmt_list(&self.counts),
            fmt_opt(&self.whale),
            fmt_list(&self.admins),
            self.mutable as u8,
            fmt_pairs(&self.funds),
            self.rootkind,
            self.urikind
        )
    }
}

/// where `x` lies relative to genesis / start / end / now (exact boundary instants get their own class)
fn cls(x: u64, o: &Obs) -> String {
    let rel = |name: &str, t: u64| -> Option<String> {
        if x == t {
            Some(name.to_string())
        } else if x.checked_add(1) == Some(t) {
            Some(format!("{name}-1"))
        } else if t.checked_add(1) == Some(x) {
            Some(format!("{name}+1"))
        } else {
            None
        }
    };
    rel("s", o.start)
        .or_else(|| rel("e", o.end))
        .or_else(|| rel("g", G))
        .or_else(|| rel("n", o.now))
        .unwrap_or_else(|| if x < G { "ltG".into() } else if x < o.start { "ltS".into() } else if x < o.end { "mid".into() } else { "gtE".into() })
}
fn phase(o: &Obs) -> String {
    cls(o.now, &Obs { now: u64::MAX - 5, ..o.clone() })
}

/// step + coverage class (op kind × variant × outcome × clock phase × argument class × sender role)
fn do_op(ses: &mut Session, sut: &mut S, line: &str) -> bool {
    let pre = sut.cur.clone();
    let out = ses.step(sut, line);
    let ok = out.starts_with("ok");
    let op = line.split_whitespace().next().unwrap_or("?");
    if let Some(p) = pre {
        let arg = kv_u64(line, "t").map(|t| cls(t, &p)).unwrap_or_else(|| "-".into());
        let role = kv_u64(line, "sender").map(|s| if p.admins.contains(&s) { "adm" } else { "non" }).unwrap_or("-");
        let shape = if p.start == p.end { "s=e" } else if p.start == G { "s=g" } else { "s<e" };
        ses.mark(format!("{}:{op}:{}:ph={}:arg={arg}:{role}:{shape}", VN[sut.v], if ok { "ok" } else { "err" }, phase(&p)));
    } else {
        ses.mark(format!("{}:{op}:{}:pre-inst", VN[sut.v], if ok { "ok" } else { "err" }));
    }
    if let Some(p) = &sut.cur {
        // every observation is a flags evaluation at a clock phase
        ses.mark(format!("{}:flags:ph={}:{}", VN[sut.v], phase(p), if p.start == p.end { "s=e" } else { "s<e" }));
        ses.count(&format!("phase:{}", phase(p)));
    }
    ok
}

/// probe the flags at the boundary instants that are still ahead of the clock (monotone)
fn probe_boundaries(ses: &mut Session, sut: &mut S) {
    let Some(o) = sut.cur.clone() else { return };
    let mut ts: Vec<u64> = vec![o.start.saturating_sub(1), o.start, o.start.saturating_add(1), o.end.saturating_sub(1), o.end, o.end.saturating_add(1)];
    ts.sort();
    ts.dedup();
    for t in ts {
        if t > o.now {
            do_op(ses, sut, &format!("t {t}"));
        }
    }
}

fn interesting_times(o: &Obs) -> Vec<u64> {
    let mut v = vec![];
    for t in [G, o.start, o.end, o.now] {
        v.extend([t.saturating_sub(1), t, t.saturating_add(1)]);
    }
    v.push(o.start / 2 + o.end / 2);
    v.push(o.end.saturating_add(1000));
    v.push(0);
    v.sort();
    v.dedup();
    v
}

fn main() {
    let mut ses = Session::new("C12");
    let mut sut = S::new();
    if ses.maybe_replay(&mut sut) {
        ses.finish(&mut sut);
    }
    let mut rng = ses.rng.fork();
    let thorough = ses.tier() != Tier::Quick;

    // ---------------------------------------------------------------- D. the named interleavings
    for v in 0..3usize {
        let (s, e) = (G + 100, G + 200);
        let scripts: Vec<(&str, Vec<String>)> = vec![
            ("shorten-end-then-move-start", vec![
                format!("end sender=10 t={}", s + 5), format!("start sender=10 t={}", s + 6), format!("start sender=10 t={}", s + 5),
                format!("end sender=10 t={}", s + 4), format!("start sender=10 t={}", s + 4), format!("end sender=10 t={}", s + 4),
                format!("t {}", s + 3), format!("end sender=10 t={}", s + 9), format!("t {}", s + 4), format!("end sender=10 t={}", s + 9),
                format!("end sender=10 t={}", s + 4), format!("end sender=10 t={}", s + 3), format!("t {}", s + 5),
            ]),
            ("update-exactly-at-start", vec![
                format!("t {}", s - 1), format!("start sender=10 t={}", s + 1), format!("t {}", s), "remove sender=10 members=30".into(),
                format!("start sender=10 t={}", s + 2), format!("t {}", s + 1), format!("start sender=10 t={}", s + 2), format!("start sender=10 t={}", s + 1),
                format!("end sender=10 t={}", e + 1), format!("end sender=10 t={}", e), format!("end sender=10 t={}", e - 1), "remove sender=10 members=30".into(),
                format!("end sender=10 t={}", s + 1), format!("end sender=10 t={}", s), format!("t {}", s + 2), format!("end sender=10 t={}", s + 1),
            ]),
            ("move-start-into-the-past", vec![
                format!("t {}", s - 10), format!("start sender=10 t={}", s - 50), format!("start sender=10 t={}", s), "remove sender=10 members=30".into(),
                format!("end sender=10 t={}", e + 1), format!("end sender=10 t={}", s - 51), format!("end sender=10 t={}", s - 50), format!("t {}", s - 9),
            ]),
            ("clamp-to-genesis", vec![
                "start sender=10 t=0".into(), format!("start sender=10 t={}", G - 1), "remove sender=10 members=30".into(), format!("end sender=10 t={}", G - 1),
                format!("end sender=10 t={}", G), format!("start sender=10 t={}", G + 1),
            ]),
            ("extend-before-start-not-after", vec![
                format!("end sender=10 t={}", e + 50), format!("t {}", s - 1), format!("end sender=10 t={}", e + 60), format!("t {}", s), format!("end sender=10 t={}", e + 61),
                format!("end sender=10 t={}", e + 60), format!("end sender=10 t={}", e + 59), format!("end sender=10 t={}", e + 60),
            ]),
            ("admin-handover", vec![
                format!("end sender=12 t={}", e - 1), "admins sender=11 list=12,13".into(), format!("end sender=12 t={}", e - 1), format!("end sender=10 t={}", e - 2),
                format!("start sender=11 t={}", s + 1), format!("start sender=13 t={}", s + 1), "freeze sender=10".into(), "freeze sender=12".into(),
                "admins sender=12 list=10".into(), "freeze sender=13".into(), format!("start sender=12 t={}", s + 2), "remove sender=10 members=30".into(), "remove sender=13 members=30".into(),
                "pal sender=10 n=4".into(), "pal sender=13 n=30".into(), "pal sender=13 n=31".into(), "pal sender=13 n=0".into(),
            ]),
            ("end-before-now-after-start", vec![
                format!("t {}", s + 50), format!("end sender=10 t={}", s + 50), format!("end sender=10 t={}", s + 51), format!("end sender=10 t={}", s + 10),
                format!("end sender=10 t={}", s), "remove sender=10 members=31".into(), "add sender=10 members=36 counts=1".into(),
            ]),
            ("membership-then-remove", vec![
                "add sender=10 members=33,34 counts=1,2".into(), "remove sender=10 members=33,35".into(), "remove sender=10 members=33".into(), "remove sender=10 members=33".into(),
                format!("inclimit sender=20 n=1001 funds=0:{}", fee_for(v, 1000)), format!("t {}", s), "remove sender=10 members=34".into(), "add sender=10 members=33 counts=1".into(),
            ]),
        ];
        for (name, ops) in scripts {
            ses.begin_case(&mut sut, &format!("case v={v} now={} script {name}", G + 50));
            do_op(&mut ses, &mut sut, &Inst::valid(v, s, e).line());
            for op in ops {
                do_op(&mut ses, &mut sut, &op);
            }
            probe_boundaries(&mut ses, &mut sut);
            ses.end_case();
        }
    }

    // ---------------------------------------------------------------- A. instantiate time grid
    for v in 0..3usize {
        for now in [G - 2, G - 1, G, G + 1, G + 50] {
            let mut starts = vec![now - 1, now, now + 1, G - 1, G, G + 1, now + 10];
            starts.sort();
            starts.dedup();
            for start in starts {
                for end in [start - 1, start, start + 1, start + 10] {
                    ses.begin_case(&mut sut, &format!("case v={v} now={now} inst-grid"));
                    let ok = do_op(&mut ses, &mut sut, &Inst::valid(v, start, end).line());
                    ses.mark(format!("{}:inst:{}:start-vs-now={}:start-vs-g={}:end-vs-start={}", VN[v], ok, (start as i128 - now as i128).clamp(-2, 2), (start as i128 - G as i128).clamp(-2, 2), (end as i128 - start as i128).clamp(-2, 2)));
                    probe_boundaries(&mut ses, &mut sut);
                    // an update right after creation (also exercises "no contract" when creation failed)
                    do_op(&mut ses, &mut sut, &format!("end sender=10 t={}", end + 1));
                    ses.end_case();
                }
            }
        }
    }

    // ---------------------------------------------------------------- B. instantiate: single faults outside the schedule
    for v in 0..3usize {
        let base = Inst::valid(v, G + 100, G + 200);
        let fee = |l: u64| fee_for(v, l);
        let mut muts: Vec<(&str, Inst)> = vec![("valid", base.clone())];
        for l in [0u64, 1, 999, 1000, 1001, 2000, 2001, 4999, 5000, 5001] {
            muts.push(("limit", Inst { limit: l, funds: vec![(0, fee(l))], ..base.clone() }));
        }
        muts.push(("limit-fee-of-neighbour", Inst { limit: 1001, funds: vec![(0, fee(1000))], ..base.clone() }));
        for p in [0u64, 1, 29, 30, 31, 1000] {
            muts.push(("pal", Inst { pal: p, ..base.clone() }));
        }
        let f = fee(1000);
        for (n, fu) in [("none", vec![]), ("less", vec![(0u128, f - 1)]), ("more", vec![(0, f + 1)]), ("denom", vec![(1, f)]), ("two", vec![(0, f), (1, 5)]), ("two-r", vec![(1, 5), (0, f)])] {
            let _ = n;
            muts.push(("funds", Inst { funds: fu, ..base.clone() }));
        }
        muts.push(("members-over", Inst { limit: 2, funds: vec![(0, fee(2))], members: vec![30, 31, 32], ..base.clone() }));
        muts.push(("members-dup", Inst { limit: 2, funds: vec![(0, fee(2))], members: vec![30, 30, 31], ..base.clone() }));
        muts.push(("members-eq", Inst { limit: 3, funds: vec![(0, fee(3))], members: vec![30, 31, 32], ..base.clone() }));
        muts.push(("members-none", Inst { members: vec![], counts: vec![], ..base.clone() }));
        for (w, c) in [(Some(1000u64), 1u64), (Some(1001), 1), (Some(1001), 1001), (Some(1001), 1002), (Some(999), 1)] {
            muts.push(("whale", Inst { whale: w, counts: vec![1, c, 1], ..base.clone() }));
        }
        for k in 0..4 {
            muts.push(("root", Inst { rootkind: k, ..base.clone() }));
        }
        for k in 0..5 {
            muts.push(("uri", Inst { urikind: k, ..base.clone() }));
        }
        muts.push(("admins-none", Inst { admins: vec![], ..base.clone() }));
        muts.push(("sender-not-admin", Inst { sender: 20, ..base.clone() }));
        muts.push(("immutable", Inst { mutable: false, ..base.clone() }));
        for (name, m) in muts {
            ses.begin_case(&mut sut, &format!("case v={v} now={} inst-fault {name}", G + 50));
            let ok = do_op(&mut ses, &mut sut, &m.line());
            ses.mark(format!("{}:inst-fault:{name}:{ok}", VN[v]));
            let s = m.admins.first().copied().unwrap_or(10);
            do_op(&mut ses, &mut sut, &format!("start sender={s} t={}", G + 120));
            do_op(&mut ses, &mut sut, &format!("can a={s}"));
            do_op(&mut ses, &mut sut, "freeze sender=10");
            do_op(&mut ses, &mut sut, "admins sender=10 list=12");
            ses.end_case();
        }
    }

    // ---------------------------------------------------------------- C. update grid at exact boundary instants
    // schedules: ordinary window, start exactly at genesis, empty window (start = end), one-nanosecond window
    let schedules: [(u64, u64, u64); 4] = [(G + 50, G + 100, G + 200), (G - 5, G, G + 3), (G + 50, G + 100, G + 100), (G + 50, G + 100, G + 101)];
    for v in 0..3usize {
        for (now0, start, end) in schedules {
            let mid = (start + end) / 2;
            let mut positions = vec![start - 1, start, start + 1, mid, end - 1, end, end + 1, now0];
            positions.sort();
            positions.dedup();
            for now in positions {
                if now < now0 {
                    continue;
                }
                let mut args = vec![G - 1, G, G + 1, now - 1, now, now + 1, start - 1, start, start + 1, end - 1, end, end + 1, mid, 0, end + 1000];
                args.sort();
                args.dedup();
                let mut ops: Vec<String> = vec![];
                for sender in [10u64, 20] {
                    for a in &args {
                        ops.push(format!("start sender={sender} t={a}"));
                        ops.push(format!("end sender={sender} t={a}"));
                    }
                    ops.push(format!("remove sender={sender} members=30"));
                    ops.push(format!("remove sender={sender} members=30,32"));
                    ops.push(format!("remove sender={sender} members=-"));
                    ops.push(format!("pal sender={sender} n=5"));
                }
                ops.push("remove sender=11 members=35".to_string());
                ops.push("remove sender=11 members=30,30".to_string());
                ops.push("add sender=10 members=33,34 counts=1,1".to_string());
                ops.push(format!("inclimit sender=20 n=2000 funds=0:{}", fee_for(v, 1000)));
                for op in ops {
                    ses.begin_case(&mut sut, &format!("case v={v} now={now0} update-grid"));
                    do_op(&mut ses, &mut sut, &Inst::valid(v, start, end).line());
                    if now != now0 {
                        do_op(&mut ses, &mut sut, &format!("t {now}"));
                    }
                    do_op(&mut ses, &mut sut, &op);
                    probe_boundaries(&mut ses, &mut sut);
                    ses.end_case();
                }
            }
        }
    }

    // ---------------------------------------------------------------- E. random walks (monotone clock, boundary-biased)
    let n_walks = ses.scale(300, 20000);
    for w in 0..n_walks {
        let v = (w % 3) as usize;
        let now0 = if rng.chance(1, 4) { G - rng.range(1, 6) } else { G + rng.range(0, 60) };
        ses.begin_case(&mut sut, &format!("case v={v} now={now0} walk"));
        // time scale of the schedule: nanoseconds, seconds or hours apart (boundary probes stay at +-1 ns)
        let unit: u64 = *rng.pick(&[1u64, 1, 1_000_000_000, 3_600_000_000_000]);
        let start = now0.max(G - 1) + rng.range(1, 30) * unit;
        let end = start + if rng.chance(1, 5) { 0 } else { rng.range(1, 40) * unit };
        let mut inst = Inst::valid(v, start, end);
        if rng.chance(1, 3) {
            inst.admins = vec![10, 11, 12];
        }
        if rng.chance(1, 6) {
            inst.mutable = false;
        }
        if rng.chance(1, 10) {
            // single-fault instantiate first (off-by-one on one of the time checks), then the valid one
            let mut bad = inst.clone();
            match rng.below(3) {
                0 => bad.start = now0,
                1 => bad.end = bad.start - 1,
                _ => bad.start = G - 1,
            }
            do_op(&mut ses, &mut sut, &bad.line());
        }
        do_op(&mut ses, &mut sut, &inst.line());
        let n_ops = rng.range(10, 40);
        for _ in 0..n_ops {
            let Some(o) = sut.cur.clone() else { break };
            // clock
            if rng.chance(1, 2) {
                let cands: Vec<u64> = interesting_times(&o).into_iter().filter(|t| *t >= o.now && *t <= o.end.saturating_add(3)).collect();
                let t = if !cands.is_empty() && rng.chance(2, 3) { *rng.pick(&cands) } else { o.now + rng.range(0, 8) * unit };
                do_op(&mut ses, &mut sut, &format!("t {t}"));
            }
            let Some(o) = sut.cur.clone() else { break };
            let sender = if rng.chance(4, 5) && !o.admins.is_empty() { *rng.pick(&o.admins) } else { *rng.pick(&SENDERS) };
            let arg = if rng.chance(7, 10) { *rng.pick(&interesting_times(&o)) } else { rng.range(G - 10, o.end.saturating_add(50 * unit).max(G)) };
            let funds = if rng.chance(1, 12) { " funds=0:7" } else { "" };
            let line = match rng.below(100) {
                0..=27 => format!("start sender={sender} t={arg}{funds}"),
                28..=55 => format!("end sender={sender} t={arg}{funds}"),
                56..=69 => {
                    let k = rng.range(0, 2);
                    let ms: Vec<u64> = (0..k).map(|_| rng.range(30, 36)).collect();
                    format!("remove sender={sender} members={}", fmt_list(&ms))
                }
                70..=77 => {
                    let k = rng.range(1, 3);
                    let ms: Vec<u64> = (0..k).map(|_| rng.range(30, 36)).collect();
                    let cs: Vec<u64> = ms.iter().map(|_| rng.range(1, 5)).collect();
                    format!("add sender={sender} members={} counts={}", fmt_list(&ms), fmt_list(&cs))
                }
                78..=83 => format!("pal sender={sender} n={}", *rng.pick(&[0u64, 1, 29, 30, 31, 7])),
                84..=88 => {
                    let mut l: Vec<u64> = vec![10, 11, 12, 13];
                    rng.shuffle(&mut l);
                    l.truncate(rng.range(0, 3) as usize);
                    format!("admins sender={sender} list={}", fmt_list(&l))
                }
                89..=90 => format!("freeze sender={sender}"),
                91..=94 => {
                    let n = *rng.pick(&[1000u64, 1001, 1500, 2000, 2001, 5000, 5001]);
                    let fee = fee_for(v, n).saturating_sub(fee_for(v, 1000));
                    let f = if fee > 0 && rng.chance(4, 5) { format!("0:{fee}") } else { "-".into() };
                    format!("inclimit sender={sender} n={n} funds={f}")
                }
                _ => format!("can a={sender}"),
            };
            do_op(&mut ses, &mut sut, &line);
        }
        probe_boundaries(&mut ses, &mut sut);
        ses.end_case();
    }

    // ---------------------------------------------------------------- F. every short sequence over a tiny time lattice
    // (the clock may also jump backwards here: validates the model for arbitrary block times)
    let lat: Vec<u64> = (0..4).map(|k| G - 1 + k).collect();
    let mut alphabet: Vec<String> = vec![];
    for x in &lat {
        alphabet.push(format!("t {x}"));
        alphabet.push(format!("start sender=10 t={x}"));
        alphabet.push(format!("end sender=10 t={x}"));
    }
    alphabet.push("remove sender=10 members=30".into());
    let depth = if thorough { 3 } else { 2 };
    let mut seqs: Vec<Vec<usize>> = vec![vec![]];
    for _ in 0..depth {
        let mut next = vec![];
        for s in &seqs {
            for i in 0..alphabet.len() {
                let mut s2 = s.clone();
                s2.push(i);
                next.push(s2);
            }
        }
        seqs = next;
    }
    for v in 0..3usize {
        for start in &lat[1..] {
            for end in lat.iter().filter(|e| *e >= start) {
                for seq in &seqs {
                    ses.begin_case(&mut sut, &format!("case v={v} now={} lattice", G - 2));
                    do_op(&mut ses, &mut sut, &Inst::valid(v, *start, *end).line());
                    for i in seq {
                        do_op(&mut ses, &mut sut, &alphabet[*i]);
                    }
                    ses.end_case();
                }
            }
        }
    }
    ses.count(&format!("lattice:depth{depth}:alphabet{}", alphabet.len()));

    ses.note("clock: every comparison probed at t-1ns, t, t+1ns for t in {genesis, start, end, now}; schedules incl. start=genesis, start=end, end=start+1ns");
    ses.note("three variants x (instantiate time grid, single-fault instantiate, update grid at boundary instants x admin/stranger, named interleavings, boundary-biased random walks, all sequences of length <= depth over a 4-instant lattice incl. backward clock jumps)");
    ses.note("membership is environment: `present` = HasMember of every listed address before RemoveMembers; AddMembers / IncreaseMemberLimit outcome witnessed, schedule must stay put");
    ses.finish(&mut sut);
}
