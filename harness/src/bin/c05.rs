//! C05 — privileged operations succeed only for the principal that owns them.
//!
//! The ENUMERATION: every contract kind of the workspace (4 factories, 11 minters created through their factories,
//! 4 collection kinds, 7 whitelists, splits + cw4-group) × every `ExecuteMsg` variant (taken from the repo's own typed
//! enums through wildcard-free matches: a new message kind breaks compilation) × caller ∈ {every account role, every
//! contract of the world} × state class (fresh, started, sold out, after hand-over, frozen, renounced), executed with
//! otherwise valid arguments and funds against the REAL contracts and compared with `LP.Priv.step` (Lean).
//!
//! Monitors (direct transcription of the property, independent of the Lean model; they use the Rust-side table
//! `rust_principal` and the authorisation state observed on the real contracts BEFORE the call):
//!   * a caller that is not the row's principal succeeded;
//!   * a failed call changed the raw storage of ANY contract of the app or any balance;
//!   * an `execute` / user `instantiate` changed factory Params or minter Status;
//!   * a user account instantiated a minter or a collection directly;
//!   * the whitelist admin list changed after `mutable` became false.
use cosmwasm_std::{Addr, Empty};
use lp_harness::minters::*;
use lp_harness::world::{addr, addr_id};
use lp_harness::*;
use serde_json::{json, Value};
use std::collections::{BTreeMap, BTreeSet};

// ------------------------------------------------------------------------------------------------ roles

const CREATOR: u64 = 10; // collection creator = minter admin at creation
const WL_ADMIN: u64 = 11;
const NEW_CREATOR: u64 = 12;
const WL_ADMIN2: u64 = 13;
const SPLITS_ADMIN: u64 = 14;
const MEMBER1: u64 = 15;
const MEMBER2: u64 = 16;
const NEW_OWNER: u64 = 17;
const NEW_SPLITS_ADMIN: u64 = 18;
const GROUP_ADMIN: u64 = 19;
const BUYER: u64 = 20;
const NEW_MEMBER: u64 = 21;
const STRANGER: u64 = 99;
const ROLES: [u64; 13] =
    [CREATOR, WL_ADMIN, NEW_CREATOR, WL_ADMIN2, SPLITS_ADMIN, MEMBER1, MEMBER2, NEW_OWNER, NEW_SPLITS_ADMIN, GROUP_ADMIN, BUYER, NEW_MEMBER, STRANGER];
const DAY: u64 = 86_400_000_000_000;
const HOUR: u64 = 3_600_000_000_000;

const ALL_COLL: [CollKind; 4] = [CollKind::Base, CollKind::Updatable, CollKind::Nt, CollKind::MetadataOnchain];
const ALL_FACT: [FactoryKind; 4] = [FactoryKind::Base, FactoryKind::Vending, FactoryKind::OpenEdition, FactoryKind::TokenMerge];

fn mk_tok(k: MinterKind) -> &'static str {
    match k {
        MinterKind::Vending => "m.vending",
        MinterKind::VendingFeatured => "m.vending_featured",
        MinterKind::VendingFlex => "m.vending_flex",
        MinterKind::VendingFlexFeatured => "m.vending_flex_featured",
        MinterKind::VendingMerkle => "m.vending_merkle",
        MinterKind::VendingMerkleFeatured => "m.vending_merkle_featured",
        MinterKind::OpenEdition => "m.oe",
        MinterKind::OpenEditionFlex => "m.oe_flex",
        MinterKind::OpenEditionMerkle => "m.oe_merkle",
        MinterKind::TokenMerge => "m.tm",
        MinterKind::Base => "m.base",
    }
}
fn ck_tok(k: CollKind) -> &'static str {
    match k {
        CollKind::Base => "c.base",
        CollKind::Updatable => "c.updatable",
        CollKind::Nt => "c.nt",
        CollKind::MetadataOnchain => "c.onchain",
    }
}
fn wk_tok(k: WlKind) -> &'static str {
    match k {
        WlKind::Plain => "w.plain",
        WlKind::Flex => "w.flex",
        WlKind::Tiered => "w.tiered",
        WlKind::TieredFlex => "w.tiered_flex",
        WlKind::Merkle => "w.merkle",
        WlKind::TieredMerkle => "w.tiered_merkle",
        WlKind::Immutable => "w.immutable",
    }
}
fn fk_tok(k: FactoryKind) -> &'static str {
    match k {
        FactoryKind::Base => "f.base",
        FactoryKind::Vending => "f.vending",
        FactoryKind::OpenEdition => "f.oe",
        FactoryKind::TokenMerge => "f.tm",
    }
}
fn parse_mk(s: &str) -> Option<MinterKind> {
    ALL_MINTERS.iter().copied().find(|k| mk_tok(*k) == s)
}
fn parse_ck(s: &str) -> Option<CollKind> {
    ALL_COLL.iter().copied().find(|k| ck_tok(*k) == s)
}
fn parse_wk(s: &str) -> Option<WlKind> {
    ALL_WL.iter().copied().find(|k| wk_tok(*k) == s)
}
fn is_tiered(k: WlKind) -> bool {
    matches!(k, WlKind::Tiered | WlKind::TieredFlex | WlKind::TieredMerkle)
}

// ------------------------------------------------------------------------------------------------ typed message surface
//
// One wildcard-free `match` per ExecuteMsg / SudoMsg enum of the repo: the variant-name function and the list of
// names come from the same arms, so adding, removing or renaming a message kind in /repo breaks compilation here.

macro_rules! names {
    ($fname:ident, $cname:ident, $ty:ty, { $($pat:pat => $name:literal),* $(,)? }) => {
        #[allow(dead_code)]
        fn $fname(m: &$ty) -> &'static str { match m { $($pat => $name),* } }
        #[allow(dead_code)]
        const $cname: &[&str] = &[$($name),*];
    };
}

macro_rules! vending_names {
    ($f:ident, $c:ident, $k:ident) => {
        names!($f, $c, $k::msg::ExecuteMsg, {
            $k::msg::ExecuteMsg::Mint { .. } => "mint",
            $k::msg::ExecuteMsg::SetWhitelist { .. } => "set_whitelist",
            $k::msg::ExecuteMsg::Purge {} => "purge",
            $k::msg::ExecuteMsg::UpdateMintPrice { .. } => "update_mint_price",
            $k::msg::ExecuteMsg::UpdateStartTime(_) => "update_start_time",
            $k::msg::ExecuteMsg::UpdateStartTradingTime(_) => "update_start_trading_time",
            $k::msg::ExecuteMsg::UpdatePerAddressLimit { .. } => "update_per_address_limit",
            $k::msg::ExecuteMsg::MintTo { .. } => "mint_to",
            $k::msg::ExecuteMsg::MintFor { .. } => "mint_for",
            $k::msg::ExecuteMsg::Shuffle {} => "shuffle",
            $k::msg::ExecuteMsg::BurnRemaining {} => "burn_remaining",
            $k::msg::ExecuteMsg::UpdateDiscountPrice { .. } => "update_discount_price",
            $k::msg::ExecuteMsg::RemoveDiscountPrice {} => "remove_discount_price",
        });
    };
}
vending_names!(n_vending, N_VENDING, vending_minter);
vending_names!(n_vending_featured, N_VENDING_FEATURED, vending_minter_featured);
vending_names!(n_vending_flex, N_VENDING_FLEX, vending_minter_wl_flex);
vending_names!(n_vending_flex_featured, N_VENDING_FLEX_FEATURED, vending_minter_wl_flex_featured);
vending_names!(n_vending_merkle, N_VENDING_MERKLE, vending_minter_merkle_wl);
vending_names!(n_vending_merkle_featured, N_VENDING_MERKLE_FEATURED, vending_minter_merkle_wl_featured);

macro_rules! oe_names {
    ($f:ident, $c:ident, $k:ident) => {
        names!($f, $c, $k::msg::ExecuteMsg, {
            $k::msg::ExecuteMsg::Mint { .. } => "mint",
            $k::msg::ExecuteMsg::SetWhitelist { .. } => "set_whitelist",
            $k::msg::ExecuteMsg::Purge {} => "purge",
            $k::msg::ExecuteMsg::UpdateMintPrice { .. } => "update_mint_price",
            $k::msg::ExecuteMsg::UpdateStartTime(_) => "update_start_time",
            $k::msg::ExecuteMsg::UpdateEndTime(_) => "update_end_time",
            $k::msg::ExecuteMsg::UpdateStartTradingTime(_) => "update_start_trading_time",
            $k::msg::ExecuteMsg::UpdatePerAddressLimit { .. } => "update_per_address_limit",
            $k::msg::ExecuteMsg::MintTo { .. } => "mint_to",
            $k::msg::ExecuteMsg::BurnRemaining {} => "burn_remaining",
        });
    };
}
oe_names!(n_oe, N_OE, open_edition_minter);
oe_names!(n_oe_flex, N_OE_FLEX, open_edition_minter_wl_flex);
oe_names!(n_oe_merkle, N_OE_MERKLE, open_edition_minter_merkle_wl);

names!(n_tm, N_TM, token_merge_minter::msg::ExecuteMsg, {
    token_merge_minter::msg::ExecuteMsg::ReceiveNft(_) => "receive_nft",
    token_merge_minter::msg::ExecuteMsg::Purge {} => "purge",
    token_merge_minter::msg::ExecuteMsg::UpdateStartTime(_) => "update_start_time",
    token_merge_minter::msg::ExecuteMsg::UpdateStartTradingTime(_) => "update_start_trading_time",
    token_merge_minter::msg::ExecuteMsg::UpdatePerAddressLimit { .. } => "update_per_address_limit",
    token_merge_minter::msg::ExecuteMsg::MintTo { .. } => "mint_to",
    token_merge_minter::msg::ExecuteMsg::MintFor { .. } => "mint_for",
    token_merge_minter::msg::ExecuteMsg::Shuffle {} => "shuffle",
    token_merge_minter::msg::ExecuteMsg::BurnRemaining {} => "burn_remaining",
});
names!(n_base_minter, N_BASE_MINTER, base_minter::msg::ExecuteMsg, {
    base_minter::msg::ExecuteMsg::Mint { .. } => "mint",
    base_minter::msg::ExecuteMsg::UpdateStartTradingTime(_) => "update_start_trading_time",
});

// collections
fn n_sg721<T>(m: &sg721::ExecuteMsg<T, Empty>) -> &'static str {
    use cw_ownable::Action;
    use sg721::ExecuteMsg as E;
    match m {
        E::TransferNft { .. } => "transfer_nft",
        E::SendNft { .. } => "send_nft",
        E::Approve { .. } => "approve",
        E::Revoke { .. } => "revoke",
        E::ApproveAll { .. } => "approve_all",
        E::RevokeAll { .. } => "revoke_all",
        E::Mint { .. } => "mint",
        E::Burn { .. } => "burn",
        E::Extension { .. } => "extension",
        E::UpdateCollectionInfo { .. } => "update_collection_info",
        E::UpdateStartTradingTime(_) => "update_start_trading_time",
        E::FreezeCollectionInfo => "freeze_collection_info",
        E::UpdateOwnership(Action::TransferOwnership { .. }) => "transfer_ownership",
        E::UpdateOwnership(Action::AcceptOwnership) => "accept_ownership",
        E::UpdateOwnership(Action::RenounceOwnership) => "renounce_ownership",
    }
}
const N_SG721: &[&str] = &[
    "transfer_nft", "send_nft", "approve", "revoke", "approve_all", "revoke_all", "mint", "burn", "extension",
    "update_collection_info", "update_start_trading_time", "freeze_collection_info", "transfer_ownership",
    "accept_ownership", "renounce_ownership",
];
type UpdatableMsg = sg721_updatable::msg::ExecuteMsg<Option<Empty>, Empty>;
names!(n_updatable, N_UPDATABLE, UpdatableMsg, {
    sg721_updatable::msg::ExecuteMsg::FreezeTokenMetadata {} => "freeze_token_metadata",
    sg721_updatable::msg::ExecuteMsg::UpdateTokenMetadata { .. } => "update_token_metadata",
    sg721_updatable::msg::ExecuteMsg::EnableUpdatable {} => "enable_updatable",
    sg721_updatable::msg::ExecuteMsg::TransferNft { .. } => "transfer_nft",
    sg721_updatable::msg::ExecuteMsg::SendNft { .. } => "send_nft",
    sg721_updatable::msg::ExecuteMsg::Approve { .. } => "approve",
    sg721_updatable::msg::ExecuteMsg::Revoke { .. } => "revoke",
    sg721_updatable::msg::ExecuteMsg::ApproveAll { .. } => "approve_all",
    sg721_updatable::msg::ExecuteMsg::RevokeAll { .. } => "revoke_all",
    sg721_updatable::msg::ExecuteMsg::Burn { .. } => "burn",
    sg721_updatable::msg::ExecuteMsg::UpdateCollectionInfo { .. } => "update_collection_info",
    sg721_updatable::msg::ExecuteMsg::UpdateStartTradingTime(_) => "update_start_trading_time",
    sg721_updatable::msg::ExecuteMsg::FreezeCollectionInfo {} => "freeze_collection_info",
    sg721_updatable::msg::ExecuteMsg::Mint { .. } => "mint",
    sg721_updatable::msg::ExecuteMsg::Extension { .. } => "extension",
});
type NtMsg = sg721_nt::msg::ExecuteMsg<Option<Empty>>;
names!(n_nt, N_NT, NtMsg, {
    sg721_nt::msg::ExecuteMsg::Mint { .. } => "mint",
    sg721_nt::msg::ExecuteMsg::Burn { .. } => "burn",
    sg721_nt::msg::ExecuteMsg::UpdateCollectionInfo { .. } => "update_collection_info",
    sg721_nt::msg::ExecuteMsg::FreezeCollectionInfo {} => "freeze_collection_info",
});

// whitelists
names!(n_wl_plain, N_WL_PLAIN, sg_whitelist::msg::ExecuteMsg, {
    sg_whitelist::msg::ExecuteMsg::UpdateStartTime(_) => "update_start_time",
    sg_whitelist::msg::ExecuteMsg::UpdateEndTime(_) => "update_end_time",
    sg_whitelist::msg::ExecuteMsg::AddMembers(_) => "add_members",
    sg_whitelist::msg::ExecuteMsg::RemoveMembers(_) => "remove_members",
    sg_whitelist::msg::ExecuteMsg::UpdatePerAddressLimit(_) => "update_per_address_limit",
    sg_whitelist::msg::ExecuteMsg::IncreaseMemberLimit(_) => "increase_member_limit",
    sg_whitelist::msg::ExecuteMsg::UpdateAdmins { .. } => "update_admins",
    sg_whitelist::msg::ExecuteMsg::Freeze {} => "freeze",
});
names!(n_wl_flex, N_WL_FLEX, sg_whitelist_flex::msg::ExecuteMsg, {
    sg_whitelist_flex::msg::ExecuteMsg::UpdateStartTime(_) => "update_start_time",
    sg_whitelist_flex::msg::ExecuteMsg::UpdateEndTime(_) => "update_end_time",
    sg_whitelist_flex::msg::ExecuteMsg::AddMembers(_) => "add_members",
    sg_whitelist_flex::msg::ExecuteMsg::RemoveMembers(_) => "remove_members",
    sg_whitelist_flex::msg::ExecuteMsg::IncreaseMemberLimit(_) => "increase_member_limit",
    sg_whitelist_flex::msg::ExecuteMsg::UpdateAdmins { .. } => "update_admins",
    sg_whitelist_flex::msg::ExecuteMsg::Freeze {} => "freeze",
});
macro_rules! tiered_names {
    ($f:ident, $c:ident, $k:ident) => {
        names!($f, $c, $k::msg::ExecuteMsg, {
            $k::msg::ExecuteMsg::AddStage(_) => "add_stage",
            $k::msg::ExecuteMsg::RemoveStage(_) => "remove_stage",
            $k::msg::ExecuteMsg::AddMembers(_) => "add_members",
            $k::msg::ExecuteMsg::RemoveMembers(_) => "remove_members",
            $k::msg::ExecuteMsg::UpdateStageConfig(_) => "update_stage_config",
            $k::msg::ExecuteMsg::IncreaseMemberLimit(_) => "increase_member_limit",
            $k::msg::ExecuteMsg::UpdateAdmins { .. } => "update_admins",
            $k::msg::ExecuteMsg::Freeze {} => "freeze",
        });
    };
}
tiered_names!(n_wl_tiered, N_WL_TIERED, sg_tiered_whitelist);
tiered_names!(n_wl_tiered_flex, N_WL_TIERED_FLEX, sg_tiered_whitelist_flex);
names!(n_wl_merkle, N_WL_MERKLE, whitelist_mtree::msg::ExecuteMsg, {
    whitelist_mtree::msg::ExecuteMsg::UpdateStartTime(_) => "update_start_time",
    whitelist_mtree::msg::ExecuteMsg::UpdateEndTime(_) => "update_end_time",
    whitelist_mtree::msg::ExecuteMsg::UpdateAdmins { .. } => "update_admins",
    whitelist_mtree::msg::ExecuteMsg::Freeze {} => "freeze",
});
names!(n_wl_tiered_merkle, N_WL_TIERED_MERKLE, tiered_whitelist_merkletree::msg::ExecuteMsg, {
    tiered_whitelist_merkletree::msg::ExecuteMsg::UpdateStageConfig(_) => "update_stage_config",
    tiered_whitelist_merkletree::msg::ExecuteMsg::UpdateAdmins { .. } => "update_admins",
    tiered_whitelist_merkletree::msg::ExecuteMsg::Freeze {} => "freeze",
});
#[allow(dead_code)]
fn n_wl_immutable(m: &whitelist_immutable::msg::ExecuteMsg) -> &'static str {
    match *m {}
}
const N_WL_IMMUTABLE: &[&str] = &[];

names!(n_splits, N_SPLITS, sg_splits::msg::ExecuteMsg, {
    sg_splits::msg::ExecuteMsg::UpdateAdmin { .. } => "update_admin",
    sg_splits::msg::ExecuteMsg::Distribute { .. } => "distribute",
});
names!(n_group, N_GROUP, cw4_group::msg::ExecuteMsg, {
    cw4_group::msg::ExecuteMsg::UpdateAdmin { .. } => "update_admin",
    cw4_group::msg::ExecuteMsg::UpdateMembers { .. } => "update_members",
    cw4_group::msg::ExecuteMsg::AddHook { .. } => "add_hook",
    cw4_group::msg::ExecuteMsg::RemoveHook { .. } => "remove_hook",
});

// factories: execute + sudo
names!(n_f_base, N_F_BASE, base_factory::msg::ExecuteMsg, { sg2::msg::Sg2ExecuteMsg::CreateMinter(_) => "create_minter" });
names!(n_f_vending, N_F_VENDING, vending_factory::msg::ExecuteMsg, { sg2::msg::Sg2ExecuteMsg::CreateMinter(_) => "create_minter" });
names!(n_f_oe, N_F_OE, open_edition_factory::msg::ExecuteMsg, { sg2::msg::Sg2ExecuteMsg::CreateMinter(_) => "create_minter" });
names!(n_f_tm, N_F_TM, token_merge_factory::msg::ExecuteMsg, { token_merge_factory::msg::ExecuteMsg::CreateMinter(_) => "create_minter" });
names!(n_sudo_f_base, N_SUDO_F_BASE, base_factory::msg::BaseSudoMsg, { base_factory::msg::SudoMsg::UpdateParams(_) => "update_params" });
names!(n_sudo_f_vending, N_SUDO_F_VENDING, vending_factory::msg::SudoMsg, { vending_factory::msg::SudoMsg::UpdateParams(_) => "update_params" });
names!(n_sudo_f_oe, N_SUDO_F_OE, open_edition_factory::msg::SudoMsg, { open_edition_factory::msg::SudoMsg::UpdateParams(_) => "update_params" });
names!(n_sudo_f_tm, N_SUDO_F_TM, token_merge_factory::msg::SudoMsg, { token_merge_factory::msg::SudoMsg::UpdateParams(_) => "update_params" });
names!(n_sudo_minter, N_SUDO_MINTER, sg4::SudoMsg, { sg4::SudoMsg::UpdateStatus { .. } => "update_status" });

/// names of the `ExecuteMsg` variants of a contract kind
fn names_of(kind: &str) -> &'static [&'static str] {
    match kind {
        "m.vending" => N_VENDING,
        "m.vending_featured" => N_VENDING_FEATURED,
        "m.vending_flex" => N_VENDING_FLEX,
        "m.vending_flex_featured" => N_VENDING_FLEX_FEATURED,
        "m.vending_merkle" => N_VENDING_MERKLE,
        "m.vending_merkle_featured" => N_VENDING_MERKLE_FEATURED,
        "m.oe" => N_OE,
        "m.oe_flex" => N_OE_FLEX,
        "m.oe_merkle" => N_OE_MERKLE,
        "m.tm" => N_TM,
        "m.base" => N_BASE_MINTER,
        "c.base" | "c.onchain" => N_SG721,
        "c.updatable" => N_UPDATABLE,
        "c.nt" => N_NT,
        "w.plain" => N_WL_PLAIN,
        "w.flex" => N_WL_FLEX,
        "w.tiered" => N_WL_TIERED,
        "w.tiered_flex" => N_WL_TIERED_FLEX,
        "w.merkle" => N_WL_MERKLE,
        "w.tiered_merkle" => N_WL_TIERED_MERKLE,
        "w.immutable" => N_WL_IMMUTABLE,
        "splits" => N_SPLITS,
        "group" => N_GROUP,
        "f.base" => N_F_BASE,
        "f.vending" => N_F_VENDING,
        "f.oe" => N_F_OE,
        "f.tm" => N_F_TM,
        _ => &[],
    }
}

/// deserialise `v` with the repo's own typed enum of that contract kind and return the variant name
fn typed_name(kind: &str, v: &Value) -> Result<&'static str, String> {
    macro_rules! t {
        ($ty:ty, $f:expr) => {
            cosmwasm_std::from_json::<$ty>(serde_json::to_vec(v).unwrap()).map(|m| $f(&m)).map_err(|e| e.to_string())
        };
    }
    match kind {
        "m.vending" => t!(vending_minter::msg::ExecuteMsg, n_vending),
        "m.vending_featured" => t!(vending_minter_featured::msg::ExecuteMsg, n_vending_featured),
        "m.vending_flex" => t!(vending_minter_wl_flex::msg::ExecuteMsg, n_vending_flex),
        "m.vending_flex_featured" => t!(vending_minter_wl_flex_featured::msg::ExecuteMsg, n_vending_flex_featured),
        "m.vending_merkle" => t!(vending_minter_merkle_wl::msg::ExecuteMsg, n_vending_merkle),
        "m.vending_merkle_featured" => t!(vending_minter_merkle_wl_featured::msg::ExecuteMsg, n_vending_merkle_featured),
        "m.oe" => t!(open_edition_minter::msg::ExecuteMsg, n_oe),
        "m.oe_flex" => t!(open_edition_minter_wl_flex::msg::ExecuteMsg, n_oe_flex),
        "m.oe_merkle" => t!(open_edition_minter_merkle_wl::msg::ExecuteMsg, n_oe_merkle),
        "m.tm" => t!(token_merge_minter::msg::ExecuteMsg, n_tm),
        "m.base" => t!(base_minter::msg::ExecuteMsg, n_base_minter),
        "c.base" => t!(sg721::ExecuteMsg<Option<Empty>, Empty>, n_sg721),
        "c.onchain" => t!(sg721::ExecuteMsg<sg_metadata::Metadata, Empty>, n_sg721),
        "c.updatable" => t!(UpdatableMsg, n_updatable),
        "c.nt" => t!(NtMsg, n_nt),
        "w.plain" => t!(sg_whitelist::msg::ExecuteMsg, n_wl_plain),
        "w.flex" => t!(sg_whitelist_flex::msg::ExecuteMsg, n_wl_flex),
        "w.tiered" => t!(sg_tiered_whitelist::msg::ExecuteMsg, n_wl_tiered),
        "w.tiered_flex" => t!(sg_tiered_whitelist_flex::msg::ExecuteMsg, n_wl_tiered_flex),
        "w.merkle" => t!(whitelist_mtree::msg::ExecuteMsg, n_wl_merkle),
        "w.tiered_merkle" => t!(tiered_whitelist_merkletree::msg::ExecuteMsg, n_wl_tiered_merkle),
        "w.immutable" => t!(whitelist_immutable::msg::ExecuteMsg, n_wl_immutable),
        "splits" => t!(sg_splits::msg::ExecuteMsg, n_splits),
        "group" => t!(cw4_group::msg::ExecuteMsg, n_group),
        "f.base" => t!(base_factory::msg::ExecuteMsg, n_f_base),
        "f.vending" => t!(vending_factory::msg::ExecuteMsg, n_f_vending),
        "f.oe" => t!(open_edition_factory::msg::ExecuteMsg, n_f_oe),
        "f.tm" => t!(token_merge_factory::msg::ExecuteMsg, n_f_tm),
        _ => Err("unknown kind".into()),
    }
}
fn typed_sudo_name(kind: &str, v: &Value) -> Result<&'static str, String> {
    macro_rules! t {
        ($ty:ty, $f:expr) => {
            cosmwasm_std::from_json::<$ty>(serde_json::to_vec(v).unwrap()).map(|m| $f(&m)).map_err(|e| e.to_string())
        };
    }
    match kind {
        "f.base" => t!(base_factory::msg::BaseSudoMsg, n_sudo_f_base),
        "f.vending" => t!(vending_factory::msg::SudoMsg, n_sudo_f_vending),
        "f.oe" => t!(open_edition_factory::msg::SudoMsg, n_sudo_f_oe),
        "f.tm" => t!(token_merge_factory::msg::SudoMsg, n_sudo_f_tm),
        k if k.starts_with("m.") => t!(sg4::SudoMsg, n_sudo_minter),
        _ => Err("no sudo".into()),
    }
}

/// every message token the harness sends to a contract of this family: the family's union, so that each kind is also
/// sent the messages it does NOT have (rows of class `nobody`) and the sudo message through `execute`
fn family_tokens(kind: &str) -> Vec<&'static str> {
    let fam: Vec<&'static [&'static str]> = if kind.starts_with("m.") {
        vec![N_VENDING, N_OE, N_TM, N_BASE_MINTER, N_SUDO_MINTER]
    } else if kind.starts_with("c.") {
        vec![N_SG721, N_UPDATABLE, N_NT]
    } else if kind.starts_with("w.") {
        vec![N_WL_PLAIN, N_WL_FLEX, N_WL_TIERED, N_WL_MERKLE, N_WL_TIERED_MERKLE]
    } else if kind.starts_with("f.") {
        vec![N_F_VENDING, N_SUDO_F_VENDING]
    } else if kind == "splits" {
        vec![N_SPLITS]
    } else {
        vec![N_GROUP]
    };
    let mut out: Vec<&'static str> = vec![];
    for l in fam {
        for n in l {
            if !out.contains(n) {
                out.push(n);
            }
        }
    }
    out
}

// ------------------------------------------------------------------------------------------------ the Rust-side table
//
// Independent transcription of the property (for the monitors). Default-deny: a message kind a minter / whitelist /
// group has that is not listed as public here is treated as reserved.

#[derive(Clone, Copy, PartialEq, Eq, Debug)]
enum Cls {
    MinterAdmin,
    CollMinter,
    PendingOwner,
    Creator,
    WlAdmin,
    WlAdminMutable,
    SplitsAdmin,
    SplitsAdminElseMember,
    GroupAdmin,
    MergeSource,
    Anyone,
    Nobody,
    ContractOnly,
    SudoOnly,
}
fn cls_name(c: Cls) -> &'static str {
    match c {
        Cls::MinterAdmin => "minter_admin",
        Cls::CollMinter => "coll_minter",
        Cls::PendingOwner => "pending_owner",
        Cls::Creator => "creator",
        Cls::WlAdmin => "wl_admin",
        Cls::WlAdminMutable => "wl_admin_mutable",
        Cls::SplitsAdmin => "splits_admin",
        Cls::SplitsAdminElseMember => "splits_admin_else_member",
        Cls::GroupAdmin => "group_admin",
        Cls::MergeSource => "merge_source",
        Cls::Anyone => "anyone",
        Cls::Nobody => "nobody",
        Cls::ContractOnly => "contract_only",
        Cls::SudoOnly => "sudo_only",
    }
}

fn rust_principal(kind: &str, msg: &str) -> Cls {
    if !names_of(kind).contains(&msg) {
        // not an execute message of this contract: either the governance message or nothing at all
        let sudo = (kind.starts_with("f.") && msg == "update_params") || (kind.starts_with("m.") && msg == "update_status");
        return if sudo { Cls::SudoOnly } else { Cls::Nobody };
    }
    if kind.starts_with("f.") {
        return Cls::Anyone; // create_minter: paid, public
    }
    if kind == "m.base" {
        return Cls::Creator; // "base-minter mints only for the collection creator" (and its trading-time update)
    }
    if kind.starts_with("m.") {
        return match msg {
            "mint" | "purge" | "shuffle" => Cls::Anyone,
            "receive_nft" => Cls::MergeSource,
            _ => Cls::MinterAdmin, // configuration, airdrops, burn-remaining
        };
    }
    if kind.starts_with("c.") {
        return match msg {
            "mint" | "update_start_trading_time" | "transfer_ownership" | "renounce_ownership" => Cls::CollMinter,
            "accept_ownership" => Cls::PendingOwner,
            "update_collection_info" | "freeze_collection_info" | "freeze_token_metadata" | "update_token_metadata" | "enable_updatable" => Cls::Creator,
            "extension" => Cls::Nobody, // todo!() / unreachable!()
            "transfer_nft" | "send_nft" | "approve" | "revoke" | "approve_all" | "revoke_all" | "burn" => Cls::Anyone, // token-level (C09)
            _ => Cls::Creator,
        };
    }
    if kind.starts_with("w.") {
        return match msg {
            "update_admins" | "freeze" => Cls::WlAdminMutable,
            "increase_member_limit" => Cls::Anyone, // DESIGN §6 C05 note: paid, not reserved
            _ => Cls::WlAdmin,
        };
    }
    if kind == "splits" {
        return match msg {
            "distribute" => Cls::SplitsAdminElseMember,
            _ => Cls::SplitsAdmin,
        };
    }
    Cls::GroupAdmin
}
fn rust_inst_principal(kind: &str) -> Cls {
    if kind.starts_with("m.") || kind.starts_with("c.") {
        Cls::ContractOnly
    } else {
        Cls::Anyone
    }
}

// ------------------------------------------------------------------------------------------------ observations

#[derive(Clone, PartialEq, Debug, Default)]
struct Obs {
    adm: u64,
    own: Option<u64>,
    pend: Option<u64>,
    pex: Option<u64>,
    cr: u64,
    fz: bool,
    wa: Vec<u64>,
    wm: bool,
    sa: Option<u64>,
    mem: Vec<u64>,
    ga: Option<u64>,
    pv: u64,
    st: u64,
}
impl Obs {
    fn render(&self) -> String {
        format!(
            "adm={} own={} pend={} pex={} cr={} fz={} wa={} wm={} sa={} mem={} ga={} pv={} st={}",
            self.adm,
            fmt_opt(&self.own),
            fmt_opt(&self.pend),
            fmt_opt(&self.pex),
            self.cr,
            self.fz as u8,
            fmt_list(&self.wa),
            self.wm as u8,
            fmt_opt(&self.sa),
            fmt_list(&self.mem),
            fmt_opt(&self.ga),
            self.pv,
            self.st
        )
    }
}

/// the guard, evaluated on the state observed on the real contracts (monitor side)
fn rust_auth(o: &Obs, merge_sources: &[u64], caller: u64, is_contract: bool, cls: Cls) -> bool {
    match cls {
        Cls::MinterAdmin => caller == o.adm,
        Cls::CollMinter => o.own == Some(caller),
        Cls::PendingOwner => o.pend == Some(caller),
        Cls::Creator => caller == o.cr,
        Cls::WlAdmin => o.wa.contains(&caller),
        Cls::WlAdminMutable => o.wm && o.wa.contains(&caller),
        Cls::SplitsAdmin => o.sa == Some(caller),
        Cls::SplitsAdminElseMember => match o.sa {
            Some(a) => a == caller,
            None => o.mem.contains(&caller),
        },
        Cls::GroupAdmin => o.ga == Some(caller),
        Cls::MergeSource => merge_sources.contains(&caller),
        Cls::Anyone => true,
        Cls::Nobody => false,
        Cls::ContractOnly => is_contract,
        Cls::SudoOnly => false,
    }
}

fn jstr(v: &Value) -> String {
    v.as_str().map(|s| s.to_string()).unwrap_or_default()
}
fn jnanos(v: &Value) -> u64 {
    v.as_str().and_then(|s| s.parse().ok()).unwrap_or(0)
}
fn jamount(v: &Value) -> u128 {
    v["amount"].as_str().and_then(|s| s.parse().ok()).unwrap_or(0)
}
fn opt_id(v: &Value) -> Option<u64> {
    v.as_str().map(addr_id)
}

// ------------------------------------------------------------------------------------------------ the world of one case

struct Wd {
    w: World,
    mk: MinterKind,
    ck: CollKind,
    wk: WlKind,
    factory: String,
    minter: String,
    coll: String,
    wl: String,
    wl2: String,
    group: String,
    splits: String,
    src_coll: Option<String>,
    merge_sources: Vec<u64>,
    params_seen: Vec<String>,
    fparams: FactoryParams,
    create: CreateArgs,
    uniq: u64,
}

type Snapshot = (Vec<(String, Vec<(Vec<u8>, Vec<u8>)>)>, Vec<(String, Vec<(String, u128)>)>);

fn wl_args(wk: WlKind, admin: u64, now0: u64) -> WlArgs {
    let st = |i: u64| WlStage {
        start: now0 + 20 * DAY + i * DAY,
        end: now0 + 20 * DAY + i * DAY + DAY / 2,
        mint_price: (0, 60_000_000),
        per_address_limit: 2,
        mint_count_limit: Some(50),
        members: vec![(BUYER, 1), (MEMBER1, 2)],
        merkle_root: "a".repeat(if wk == WlKind::TieredMerkle { 32 } else { 64 }),
    };
    let n = if is_tiered(wk) { 2 } else { 1 };
    WlArgs { admin, member_limit: 900, admins_mutable: true, whale_cap: None, stages: (0..n).map(st).collect() }
}

impl Wd {
    fn new(header: &str) -> Result<Wd, String> {
        let mk = kv(header, "mk").and_then(parse_mk).ok_or("mk")?;
        let ck = kv(header, "ck").and_then(parse_ck).ok_or("ck")?;
        let wk = kv(header, "wk").and_then(parse_wk).ok_or("wk")?;
        let n = kv_u64(header, "n").unwrap_or(100) as u32;
        let now0 = GENESIS + 1000;
        let mut w = World::new(now0);
        for r in ROLES {
            w.fund(&addr(r), 0, 1_000_000_000_000_000);
        }
        let p = w.default_params(mk);
        let factory = w.new_factory(mk.factory(), &p)?;
        let mut src_coll = None;
        let mut a = w.default_create(mk, &p);
        a.creator = CREATOR;
        // mig=1: the collection is created as sg721-base and then migrated to sg721-updatable by its wasm admin (the
        // creator) — the only way to reach `enable_updatable = false`, where `EnableUpdatable` can succeed
        let mig = kv_u64(header, "mig") == Some(1) && ck == CollKind::Updatable;
        a.sg721_code_id = if mig { w.codes.sg721_base } else { w.coll_code(ck) };
        a.num_tokens = Some(n);
        a.per_address_limit = 3;
        a.start_time = now0 + 30 * DAY;
        if mk.is_open_edition() {
            a.end_time = Some(a.start_time + 300 * DAY);
        }
        if mk == MinterKind::TokenMerge {
            // a source collection (base minter world), a few of whose tokens are parked at the merge minter later
            let pb = w.default_params(MinterKind::Base);
            let fb = w.new_factory(FactoryKind::Base, &pb)?;
            let ab = w.default_create(MinterKind::Base, &pb);
            let (_mb, cb) = w.create_minter(&fb, MinterKind::Base, &ab)?;
            a.mint_tokens = vec![(cb.clone(), 1)];
            src_coll = Some((cb, _mb, pb));
        }
        let (minter, coll) = w.create_minter(&factory, mk, &a)?;
        if mig {
            let code = w.codes.sg721_updatable;
            w.migrate(&addr(CREATOR), &coll, code, &json!({}))?;
        }
        let mut src = None;
        let mut merge_sources = vec![];
        if let Some((cb, mb, pb)) = src_coll {
            let fee = pb.min_mint_price.1 * pb.mint_fee_bps as u128 / 10_000;
            for i in 0..40 {
                w.exec(&addr(CREATOR), &mb, &json!({"mint":{"token_uri": format!("ipfs://src/{i}")}}), &[(0, fee)])?;
                w.exec(&addr(CREATOR), &cb, &json!({"transfer_nft":{"recipient": minter, "token_id": (i + 1).to_string()}}), &[])?;
            }
            merge_sources.push(addr_id(&cb));
            src = Some(cb);
        }
        let wl = w.new_whitelist(wk, &wl_args(wk, WL_ADMIN, now0))?;
        let wl2 = w.new_whitelist(wk, &wl_args(wk, WL_ADMIN, now0))?;
        let group = w.instantiate(
            w.codes.cw4_group,
            &addr(GROUP_ADMIN),
            &json!({"admin": addr(GROUP_ADMIN), "members": [{"addr": addr(MEMBER1), "weight": 2}, {"addr": addr(MEMBER2), "weight": 1}]}),
            &[],
            None,
        )?;
        let splits = w.instantiate(w.codes.splits, &addr(SPLITS_ADMIN), &json!({"admin": addr(SPLITS_ADMIN), "group": {"cw4_address": group}}), &[], None)?;
        w.fund(&splits, 0, 3_000_000);
        // contracts act as callers too: give them something to attach as funds
        for c in [&factory, &minter, &coll, &wl, &group] {
            w.fund(c, 0, 1_000_000_000_000);
        }
        Ok(Wd { w, mk, ck, wk, factory, minter, coll, wl, wl2, group, splits, src_coll: src, merge_sources, params_seen: vec![], fparams: p, create: a, uniq: 0 })
    }

    fn contracts(&self) -> Vec<String> {
        let mut v = vec![];
        for i in 0..200u64 {
            let a = format!("contract{i}");
            if self.w.app.contract_data(&Addr::unchecked(&a)).is_err() {
                break;
            }
            v.push(a);
        }
        v
    }
    fn is_contract(&self, id: u64) -> bool {
        id >= 1000 && self.w.app.contract_data(&Addr::unchecked(addr(id))).is_ok()
    }

    fn target(&self, kind: &str) -> Option<String> {
        Some(if kind == fk_tok(self.mk.factory()) {
            self.factory.clone()
        } else if kind == mk_tok(self.mk) {
            self.minter.clone()
        } else if kind == ck_tok(self.ck) {
            self.coll.clone()
        } else if kind == wk_tok(self.wk) {
            self.wl.clone()
        } else if kind == "splits" {
            self.splits.clone()
        } else if kind == "group" {
            self.group.clone()
        } else {
            return None;
        })
    }

    fn snapshot(&self) -> Snapshot {
        let cs = self.contracts();
        let dumps = cs.iter().map(|c| (c.clone(), self.w.dump(c))).collect();
        let mut accts: Vec<String> = ROLES.iter().map(|r| addr(*r)).collect();
        accts.extend((1..=4).map(addr));
        accts.push(addr(90));
        accts.push(addr(60));
        accts.extend(cs);
        let bals = accts
            .into_iter()
            .map(|a| {
                let mut b: Vec<(String, u128)> =
                    self.w.app.wrap().query_all_balances(&a).unwrap_or_default().into_iter().map(|c| (c.denom, c.amount.u128())).collect();
                b.sort();
                (a, b)
            })
            .collect();
        (dumps, bals)
    }

    fn raw(&self, contract: &str, key: &[u8]) -> Option<Vec<u8>> {
        self.w.dump(contract).into_iter().find(|(k, _)| k == key).map(|(_, v)| v)
    }

    fn params_json(&self) -> String {
        self.w.query(&self.factory, &json!({"params":{}})).map(|v| v.to_string()).unwrap_or_else(|e| format!("ERR {e}"))
    }
    fn status_bits(&self) -> u64 {
        let s = self.w.query(&self.minter, &json!({"status":{}})).unwrap_or(Value::Null);
        let st = &s["status"];
        (st["is_verified"].as_bool().unwrap_or(false) as u64) | (st["is_blocked"].as_bool().unwrap_or(false) as u64) << 1 | (st["is_explicit"].as_bool().unwrap_or(false) as u64) << 2
    }

    fn obs(&mut self) -> Obs {
        let mut o = Obs::default();
        let cfg = self.w.query(&self.minter, &json!({"config":{}})).unwrap_or(Value::Null);
        o.adm = cfg["admin"].as_str().map(addr_id).unwrap_or(0);
        if let Some(raw) = self.raw(&self.coll, b"ownership") {
            let v: Value = serde_json::from_slice(&raw).unwrap_or(Value::Null);
            o.own = opt_id(&v["owner"]);
            o.pend = opt_id(&v["pending_owner"]);
            o.pex = v["pending_expiry"]["at_time"].as_str().and_then(|s| s.parse().ok());
        }
        let ci = self.w.query(&self.coll, &json!({"collection_info":{}})).unwrap_or(Value::Null);
        o.cr = ci["creator"].as_str().map(addr_id).unwrap_or(0);
        o.fz = self.raw(&self.coll, b"frozen_collection_info").map(|v| v == b"true").unwrap_or(false);
        if self.wk != WlKind::Immutable {
            let al = self.w.query(&self.wl, &json!({"admin_list":{}})).unwrap_or(Value::Null);
            o.wa = al["admins"].as_array().map(|a| a.iter().map(|x| addr_id(&jstr(x))).collect()).unwrap_or_default();
            o.wm = al["mutable"].as_bool().unwrap_or(false);
        }
        let sa = self.w.query(&self.splits, &json!({"admin":{}})).unwrap_or(Value::Null);
        o.sa = opt_id(&sa["admin"]);
        let ms = self.w.query(&self.group, &json!({"list_members":{"limit": 30}})).unwrap_or(Value::Null);
        o.mem = ms["members"].as_array().map(|a| a.iter().map(|x| addr_id(&jstr(&x["addr"]))).collect()).unwrap_or_default();
        o.mem.sort();
        let ga = self.w.query(&self.group, &json!({"admin":{}})).unwrap_or(Value::Null);
        o.ga = opt_id(&ga["admin"]);
        let pj = self.params_json();
        o.pv = match self.params_seen.iter().position(|x| *x == pj) {
            Some(i) => i as u64,
            None => {
                self.params_seen.push(pj);
                (self.params_seen.len() - 1) as u64
            }
        };
        o.st = self.status_bits();
        o
    }
}

// ------------------------------------------------------------------------------------------------ messages (otherwise valid)

fn b64(v: &Value) -> String {
    cosmwasm_std::Binary::from(serde_json::to_vec(v).unwrap()).to_base64()
}
fn ts(n: u64) -> Value {
    Value::String(n.to_string())
}
fn ids(line: &str, key: &str) -> Vec<u64> {
    kv_list(line, key).unwrap_or_default().into_iter().map(|x| x as u64).collect()
}

impl Wd {
    fn next_uniq(&mut self) -> u64 {
        self.uniq += 1;
        self.uniq
    }
    /// a token of the collection: one owned by `caller` if there is one, else any, else "1"
    fn a_token(&self, caller: &str) -> String {
        let own = self.w.query(&self.coll, &json!({"tokens":{"owner": caller, "limit": 1}})).unwrap_or(Value::Null);
        if let Some(t) = own["tokens"].as_array().and_then(|a| a.first()) {
            return jstr(t);
        }
        let all = self.w.query(&self.coll, &json!({"all_tokens":{"limit": 1}})).unwrap_or(Value::Null);
        all["tokens"].as_array().and_then(|a| a.first()).map(jstr).unwrap_or_else(|| "1".into())
    }

    fn minter_msg(&mut self, msg: &str, line: &str) -> (Value, Vec<(u64, u128)>) {
        let cfg = self.w.query(&self.minter, &json!({"config":{}})).unwrap_or(Value::Null);
        let now = self.w.time();
        let start = jnanos(&cfg["start_time"]);
        let price = jamount(&cfg["mint_price"]);
        let minp = self.fparams.min_mint_price.1;
        let u = self.next_uniq();
        match msg {
            "mint" => {
                if self.mk == MinterKind::Base {
                    let fee = self.fparams.min_mint_price.1 * self.fparams.mint_fee_bps as u128 / 10_000;
                    (json!({"mint":{"token_uri": format!("ipfs://base/{u}")}}), vec![(0, fee)])
                } else {
                    let mp = self.w.query(&self.minter, &json!({"mint_price":{}})).unwrap_or(Value::Null);
                    let cur = jamount(&mp["current_price"]);
                    let m = if self.mk.is_merkle() { json!({"mint":{"stage": null, "proof_hashes": null, "allocation": null}}) } else { json!({"mint":{}}) };
                    (m, if cur > 0 { vec![(0, cur)] } else { vec![] })
                }
            }
            "set_whitelist" => (json!({"set_whitelist":{"whitelist": self.wl2}}), vec![]),
            "purge" => (json!({"purge":{}}), vec![]),
            "update_mint_price" => (json!({"update_mint_price":{"price": (price.saturating_sub(1000)).max(minp).to_string()}}), vec![]),
            "update_start_time" => (json!({"update_start_time": ts(start.max(now) + 1000)}), vec![]),
            "update_end_time" => (json!({"update_end_time": ts(jnanos(&cfg["end_time"]).max(now) + 1000)}), vec![]),
            "update_start_trading_time" => (json!({"update_start_trading_time": ts(now + 1000)}), vec![]),
            "update_per_address_limit" => {
                let cur = cfg["per_address_limit"].as_u64().unwrap_or(3);
                (json!({"update_per_address_limit":{"per_address_limit": if cur == 3 { 2 } else { 3 }}}), vec![])
            }
            "mint_to" => {
                let ap = self.fparams.airdrop_mint_price.1;
                (json!({"mint_to":{"recipient": addr(BUYER)}}), if ap > 0 { vec![(0, ap)] } else { vec![] })
            }
            "mint_for" => {
                let n = cfg["num_tokens"].as_u64().unwrap_or(1).max(1);
                let tid = kv_u64(line, "tid").unwrap_or((u * 37) % n + 1);
                let ap = self.fparams.airdrop_mint_price.1;
                (json!({"mint_for":{"token_id": tid, "recipient": addr(BUYER)}}), if ap > 0 { vec![(0, ap)] } else { vec![] })
            }
            "shuffle" => (json!({"shuffle":{}}), vec![self.fparams.shuffle_fee]),
            "burn_remaining" => (json!({"burn_remaining":{}}), vec![]),
            "update_discount_price" => (json!({"update_discount_price":{"price": (price.saturating_sub(2000)).max(minp).to_string()}}), vec![]),
            "remove_discount_price" => (json!({"remove_discount_price":{}}), vec![]),
            "receive_nft" => {
                // a source token parked at the minter (so that the burn sub-message can succeed)
                let tok = match &self.src_coll {
                    Some(sc) => {
                        let q = self.w.query(sc, &json!({"tokens":{"owner": self.minter, "limit": 1}})).unwrap_or(Value::Null);
                        q["tokens"].as_array().and_then(|a| a.first()).map(jstr).unwrap_or_else(|| "1".into())
                    }
                    None => "1".into(),
                };
                (json!({"receive_nft":{"sender": addr(6000 + u), "token_id": tok, "msg": b64(&json!({"deposit_token":{"recipient": null}}))}}), vec![])
            }
            "update_status" => (json!({"update_status":{"is_verified": true, "is_blocked": true, "is_explicit": true}}), vec![]),
            other => (json!({ other: {} }), vec![]),
        }
    }

    fn coll_msg(&mut self, msg: &str, line: &str, caller: &str) -> (Value, Vec<(u64, u128)>) {
        let now = self.w.time();
        let u = self.next_uniq();
        let unit = matches!(self.ck, CollKind::Base | CollKind::MetadataOnchain);
        let other = if caller == addr(STRANGER) { addr(BUYER) } else { addr(STRANGER) };
        let v = match msg {
            "transfer_nft" => json!({"transfer_nft":{"recipient": other, "token_id": self.a_token(caller)}}),
            "send_nft" => json!({"send_nft":{"contract": self.minter, "token_id": self.a_token(caller), "msg": b64(&json!({"deposit_token":{"recipient": null}}))}}),
            "approve" => json!({"approve":{"spender": other, "token_id": self.a_token(caller), "expires": null}}),
            "revoke" => json!({"revoke":{"spender": other, "token_id": self.a_token(caller)}}),
            "approve_all" => json!({"approve_all":{"operator": other, "expires": null}}),
            "revoke_all" => json!({"revoke_all":{"operator": other}}),
            "mint" => {
                let ext = if self.ck == CollKind::MetadataOnchain { json!({"name": "x"}) } else { Value::Null };
                json!({"mint":{"token_id": format!("x{u}"), "owner": addr(BUYER), "token_uri": "ipfs://x/1", "extension": ext}})
            }
            "burn" => json!({"burn":{"token_id": self.a_token(caller)}}),
            "extension" => json!({"extension":{"msg":{}}}),
            "update_collection_info" => {
                let nc = kv_opt_u64(line, "nc").flatten().map(addr);
                let body = json!({"description": null, "image": null, "external_link": null, "explicit_content": null, "royalty_info": null, "creator": nc});
                if self.ck == CollKind::Nt {
                    json!({"update_collection_info":{"new_collection_info": body}})
                } else {
                    json!({"update_collection_info":{"collection_info": body}})
                }
            }
            "update_start_trading_time" => json!({"update_start_trading_time": ts(now + 2000)}),
            "freeze_collection_info" => {
                if unit {
                    json!("freeze_collection_info")
                } else {
                    json!({"freeze_collection_info":{}})
                }
            }
            "transfer_ownership" => {
                let no = addr(kv_u64(line, "no").unwrap_or(STRANGER));
                let ex = kv_opt_u64(line, "ex").flatten().map(|t| json!({"at_time": t.to_string()}));
                json!({"update_ownership":{"transfer_ownership":{"new_owner": no, "expiry": ex}}})
            }
            "accept_ownership" => json!({"update_ownership": "accept_ownership"}),
            "renounce_ownership" => json!({"update_ownership": "renounce_ownership"}),
            "freeze_token_metadata" => json!({"freeze_token_metadata":{}}),
            "update_token_metadata" => json!({"update_token_metadata":{"token_id": self.a_token(caller), "token_uri": format!("ipfs://new/{u}")}}),
            "enable_updatable" => json!({"enable_updatable":{}}),
            other => json!({ other: {} }),
        };
        let funds = if msg == "enable_updatable" { vec![(0, 1_500_000_000u128)] } else { vec![] };
        (v, funds)
    }

    fn stage_json(&self, i: usize, start: u64, end: u64) -> Value {
        let mut v = json!({"name": format!("stage{}", i + 1), "start_time": ts(start), "end_time": ts(end),
            "mint_price": jcoin((0, 60_000_000)), "mint_count_limit": 50});
        if self.wk != WlKind::TieredFlex {
            v["per_address_limit"] = json!(2);
        }
        v
    }

    fn wl_msg(&mut self, msg: &str, line: &str) -> (Value, Vec<(u64, u128)>) {
        let cfg = self.w.query(&self.wl, &json!({"config":{}})).unwrap_or(Value::Null);
        let now = self.w.time();
        let u = self.next_uniq();
        let flex = matches!(self.wk, WlKind::Flex | WlKind::TieredFlex);
        let tiered = is_tiered(self.wk);
        let fresh = addr(5000 + u);
        let stages: Vec<Value> = if tiered {
            let q = self.w.query(&self.wl, &json!({"stages":{}})).unwrap_or(Value::Null);
            q["stages"].as_array().map(|a| a.iter().map(|s| s["stage"].clone()).collect()).unwrap_or_default()
        } else {
            vec![]
        };
        let v = match msg {
            "update_start_time" => json!({"update_start_time": ts(jnanos(&cfg["start_time"]).max(now) + 1000)}),
            "update_end_time" => {
                let (s, e) = (jnanos(&cfg["start_time"]), jnanos(&cfg["end_time"]));
                json!({"update_end_time": ts(if now >= s { e.saturating_sub(1000) } else { e + 1000 })})
            }
            "add_members" => {
                let m = if flex { json!([{"address": fresh, "mint_count": 1}]) } else { json!([fresh]) };
                if tiered {
                    json!({"add_members":{"to_add": m, "stage_id": 0}})
                } else {
                    json!({"add_members":{"to_add": m}})
                }
            }
            "remove_members" => {
                // a current member of (stage 0 of) the list
                let q = if tiered { json!({"members":{"limit": 1, "stage_id": 0}}) } else { json!({"members":{"limit": 1}}) };
                let ms = self.w.query(&self.wl, &q).unwrap_or(Value::Null);
                let first = ms["members"].as_array().and_then(|a| a.first()).cloned().unwrap_or(Value::Null);
                let who = if first.is_string() { jstr(&first) } else { first["address"].as_str().map(|s| s.to_string()).unwrap_or_else(|| addr(BUYER)) };
                if tiered {
                    json!({"remove_members":{"to_remove": [who], "stage_id": 0}})
                } else {
                    json!({"remove_members":{"to_remove": [who]}})
                }
            }
            "update_per_address_limit" => json!({"update_per_address_limit": if cfg["per_address_limit"].as_u64() == Some(3) { 4 } else { 3 }}),
            "increase_member_limit" => json!({"increase_member_limit": cfg["member_limit"].as_u64().unwrap_or(900) + 1}),
            "update_admins" => json!({"update_admins":{"admins": ids(line, "al").into_iter().map(addr).collect::<Vec<_>>()}}),
            "freeze" => json!({"freeze":{}}),
            "add_stage" => {
                let last_end = stages.last().map(|s| jnanos(&s["end_time"])).unwrap_or(now).max(now);
                let st = self.stage_json(stages.len(), last_end + 1000, last_end + 1000 + HOUR);
                let m = if flex { json!([{"address": fresh, "mint_count": 1}]) } else { json!([fresh]) };
                json!({"add_stage":{"stage": st, "members": m}})
            }
            "remove_stage" => json!({"remove_stage":{"stage_id": stages.len().saturating_sub(1)}}),
            "update_stage_config" => json!({"update_stage_config":{"stage_id": 0, "name": format!("renamed{u}")}}),
            other => json!({ other: {} }),
        };
        let mut funds = vec![];
        if msg == "increase_member_limit" {
            let cur = cfg["member_limit"].as_u64().unwrap_or(900) as u32;
            let fee = World::wl_fee(self.wk, cur + 1).saturating_sub(World::wl_fee(self.wk, cur));
            if fee > 0 {
                funds.push((0, fee));
            }
        }
        (v, funds)
    }

    fn build_msg(&mut self, kind: &str, msg: &str, line: &str, caller: &str) -> (Value, Vec<(u64, u128)>) {
        if kind.starts_with("m.") {
            self.minter_msg(msg, line)
        } else if kind.starts_with("c.") {
            self.coll_msg(msg, line, caller)
        } else if kind.starts_with("w.") {
            self.wl_msg(msg, line)
        } else if kind.starts_with("f.") {
            match msg {
                "create_minter" => {
                    let mut a = self.create.clone();
                    a.creator = addr_id(caller);
                    a.start_time = self.create.start_time.max(self.w.time()) + DAY;
                    if self.mk.is_open_edition() {
                        a.end_time = Some(a.start_time + 30 * DAY);
                    }
                    a.num_tokens = Some(5);
                    (create_minter_json(self.mk, &a), vec![self.fparams.creation_fee])
                }
                _ => {
                    let ext = if self.mk.factory() == FactoryKind::Base { Value::Null } else { json!({}) };
                    (json!({"update_params":{"max_trading_offset_secs": 5, "extension": ext}}), vec![])
                }
            }
        } else if kind == "splits" {
            match msg {
                "update_admin" => (json!({"update_admin":{"admin": kv_opt_u64(line, "na").flatten().map(addr)}}), vec![]),
                _ => (json!({"distribute":{"denom_list": null}}), vec![]),
            }
        } else {
            match msg {
                "update_admin" => (json!({"update_admin":{"admin": kv_opt_u64(line, "na").flatten().map(addr)}}), vec![]),
                "update_members" => (
                    json!({"update_members":{"remove": ids(line, "rm").into_iter().map(addr).collect::<Vec<_>>(),
                        "add": ids(line, "add").into_iter().map(|a| json!({"addr": addr(a), "weight": 1})).collect::<Vec<_>>()}}),
                    vec![],
                ),
                "add_hook" => (json!({"add_hook":{"addr": addr(STRANGER)}}), vec![]),
                _ => (json!({"remove_hook":{"addr": addr(STRANGER)}}), vec![]),
            }
        }
    }

    /// instantiate message + code id + funds for a fresh contract of `kind`
    fn inst_msg(&mut self, kind: &str, caller: &str) -> Option<(u64, Value, Vec<(u64, u128)>)> {
        let now = self.w.time();
        if let Some(mk) = parse_mk(kind) {
            let p = self.w.default_params(mk);
            let mut a = self.w.default_create(mk, &p);
            a.creator = CREATOR;
            a.num_tokens = Some(5);
            a.start_time = self.create.start_time.max(now) + DAY;
            if mk.is_open_edition() {
                a.end_time = Some(a.start_time + 30 * DAY);
            }
            if mk == MinterKind::TokenMerge {
                a.mint_tokens = vec![(self.src_coll.clone().unwrap_or_else(|| self.coll.clone()), 1)];
            }
            let m = create_minter_json(mk, &a)["create_minter"].clone();
            return Some((self.w.codes.minters[mk.idx()], m, vec![]));
        }
        if let Some(ck) = parse_ck(kind) {
            let a = self.create.clone();
            let info = collection_params_json(&a)["info"].clone();
            return Some((self.w.coll_code(ck), json!({"name": "Direct", "symbol": "DIR", "minter": caller, "collection_info": info}), vec![]));
        }
        if let Some(wk) = parse_wk(kind) {
            let args = wl_args(wk, addr_id(caller), now);
            let fee = World::wl_fee(wk, args.member_limit);
            return Some((self.w.wl_code(wk), wl_instantiate_json(wk, &args), if fee > 0 { vec![(0, fee)] } else { vec![] }));
        }
        if let Some(fk) = ALL_FACT.iter().copied().find(|f| fk_tok(*f) == kind) {
            let mk = match fk {
                FactoryKind::Base => MinterKind::Base,
                FactoryKind::Vending => MinterKind::Vending,
                FactoryKind::OpenEdition => MinterKind::OpenEdition,
                FactoryKind::TokenMerge => MinterKind::TokenMerge,
            };
            let p = self.w.default_params(mk);
            return Some((self.w.factory_code(fk), json!({"params": p.to_json(fk)}), vec![]));
        }
        match kind {
            "group" => Some((self.w.codes.cw4_group, json!({"admin": caller, "members": [{"addr": addr(MEMBER1), "weight": 1}]}), vec![])),
            "splits" => Some((self.w.codes.splits, json!({"admin": caller, "group": {"cw4_address": self.group}}), vec![])),
            _ => None,
        }
    }
}

// ------------------------------------------------------------------------------------------------ Sut

#[derive(Clone, Debug, Default)]
#[allow(dead_code)]
struct LastOp {
    kind: String,
    msg: String,
    caller: u64,
    is_contract: bool,
    cls: Option<Cls>,
    authorised: bool,
    ok: bool,
    err: String,
}

struct S {
    wd: Option<Wd>,
    cur: Obs,
    snap: Option<Snapshot>,
    finding: Option<(String, String)>,
    frozen_admins: Option<Vec<u64>>,
    last: LastOp,
}

impl S {
    fn new() -> S {
        S { wd: None, cur: Obs::default(), snap: None, finding: None, frozen_admins: None, last: LastOp::default() }
    }
    fn flag(&mut self, key: String, what: String) {
        if self.finding.is_none() {
            self.finding = Some((key, what));
        }
    }
    /// bookkeeping common to every op: post-observation, frozen-admins monitor
    fn after(&mut self, line: &str) -> Obs {
        let post = self.wd.as_mut().unwrap().obs();
        if let Some(fa) = self.frozen_admins.clone() {
            if post.wm || post.wa != fa {
                self.flag(
                    format!("{}/{}/frozen-admin-list-changed", self.last.kind, self.last.msg),
                    format!("whitelist admin list was frozen at {:?}, now admins={:?} mutable={} after `{line}`", fa, post.wa, post.wm),
                );
            }
        } else if !post.wm && self.wd.as_ref().unwrap().wk != WlKind::Immutable {
            self.frozen_admins = Some(post.wa.clone());
        }
        self.cur = post.clone();
        post
    }
    /// a failed call must leave every contract's raw storage and every balance byte-identical
    fn check_unchanged(&mut self, pre: &Snapshot, line: &str) {
        let post = self.wd.as_ref().unwrap().snapshot();
        if *pre != post {
            let mut what = String::new();
            for (a, b) in pre.0.iter().zip(post.0.iter()) {
                if a != b {
                    what = format!("raw storage of {} differs", a.0);
                    break;
                }
            }
            if what.is_empty() && pre.0.len() != post.0.len() {
                what = format!("number of contracts {} -> {}", pre.0.len(), post.0.len());
            }
            if what.is_empty() {
                for (a, b) in pre.1.iter().zip(post.1.iter()) {
                    if a != b {
                        what = format!("balance of {} {:?} -> {:?}", a.0, a.1, b.1);
                        break;
                    }
                }
            }
            self.flag(format!("{}/{}/failed-call-changed-state", self.last.kind, self.last.msg), format!("failed call `{line}` changed state: {what}"));
            self.snap = None;
        } else {
            self.snap = Some(post);
        }
    }
    fn take_snap(&mut self) -> Snapshot {
        match self.snap.take() {
            Some(s) => s,
            None => self.wd.as_ref().unwrap().snapshot(),
        }
    }
    /// no execute / user instantiate may change factory Params or minter Status
    fn check_gov_frame(&mut self, pre: &Obs, pre_params: &str, line: &str) {
        let (pj, st) = {
            let wd = self.wd.as_ref().unwrap();
            (wd.params_json(), wd.status_bits())
        };
        if pj != pre_params {
            self.flag(format!("{}/{}/execute-changed-params", self.last.kind, self.last.msg), format!("`{line}` changed factory params: {pre_params} -> {pj}"));
        }
        if st != pre.st {
            self.flag(format!("{}/{}/execute-changed-status", self.last.kind, self.last.msg), format!("`{line}` changed minter status {} -> {}", pre.st, st));
        }
    }
}

impl Sut for S {
    fn begin(&mut self, header: &str) -> (String, String) {
        if header.contains("coverage") {
            self.wd = None;
            return (header.to_string(), "bad-case".to_string()); // the driver answers `bad-case` to a header without a state
        }
        let mut wd = Wd::new(header).unwrap_or_else(|e| panic!("world setup failed for `{header}`: {e}"));
        let o = wd.obs();
        let now = wd.w.time();
        let ms = fmt_list(&wd.merge_sources);
        self.wd = Some(wd);
        self.cur = o.clone();
        self.snap = None;
        self.finding = None;
        self.frozen_admins = None;
        self.last = LastOp::default();
        (format!("{header} now={now} {} ms={ms}", o.render()), format!("case {}", o.render()))
    }

    fn exec(&mut self, line: &str) -> (String, String) {
        self.finding = None;
        let op = line.split_whitespace().next().unwrap_or("");
        match op {
            "row" => {
                let (k, m) = (kv(line, "k").unwrap_or(""), kv(line, "m").unwrap_or(""));
                return (line.to_string(), format!("cls={}", cls_name(rust_principal(k, m))));
            }
            "irow" => {
                return (line.to_string(), format!("cls={}", cls_name(rust_inst_principal(kv(line, "k").unwrap_or("")))));
            }
            "cover" => {
                return (line.to_string(), if kv_u64(line, "n").unwrap_or(0) > 0 { "ok".into() } else { "err".into() });
            }
            _ => {}
        }
        if self.wd.is_none() {
            return (line.to_string(), "bad-op".into());
        }
        match op {
            "t" => {
                let n = kv_u64(line, "now").unwrap_or(0);
                self.wd.as_mut().unwrap().w.set_time(n);
                self.last = LastOp { kind: "-".into(), msg: "t".into(), ..Default::default() };
                let post = self.after(line);
                (line.to_string(), format!("ok {}", post.render()))
            }
            "x" => {
                let kind = kv(line, "k").unwrap_or("").to_string();
                let msg = kv(line, "m").unwrap_or("").to_string();
                let caller = kv_u64(line, "c").unwrap_or(0);
                let caller_s = addr(caller);
                let pre = self.cur.clone();
                let (is_contract, target, merge_sources, pre_params) = {
                    let wd = self.wd.as_ref().unwrap();
                    (wd.is_contract(caller), wd.target(&kind), wd.merge_sources.clone(), wd.params_json())
                };
                let Some(target) = target else { return (line.to_string(), "bad-op".into()) };
                let cls = rust_principal(&kind, &msg);
                let authorised = rust_auth(&pre, &merge_sources, caller, is_contract, cls);
                if kind == "splits" && msg == "distribute" {
                    // test setup, not part of the call: the splits contract always has something to distribute
                    let wd = self.wd.as_mut().unwrap();
                    let sp = wd.splits.clone();
                    if wd.w.balance(&sp, 0) < 1_000_000 {
                        wd.w.fund(&sp, 0, 3_000_000);
                        self.snap = None;
                    }
                }
                let snap = self.take_snap();
                let (v, funds) = self.wd.as_mut().unwrap().build_msg(&kind, &msg, line, &caller_s);
                if names_of(&kind).contains(&msg.as_str()) {
                    // the JSON we send is, for the repo's own typed enum, exactly the message kind of this row
                    match typed_name(&kind, &v) {
                        Ok(n) if n == msg => {}
                        other => panic!("harness bug: {kind}/{msg} JSON {v} does not parse as that variant: {:?}", other),
                    }
                }
                let res = self.wd.as_mut().unwrap().w.exec(&caller_s, &target, &v, &funds);
                let ok = res.is_ok();
                self.last = LastOp { kind: kind.clone(), msg: msg.clone(), caller, is_contract, cls: Some(cls), authorised, ok, err: res.err().unwrap_or_default() };
                if ok && !authorised {
                    self.flag(
                        format!("{kind}/{msg}/non-principal-succeeded"),
                        format!("caller {caller} is not the {} of `{line}` in state [{}] but the call succeeded", cls_name(cls), pre.render()),
                    );
                }
                if ok {
                    self.snap = None;
                } else {
                    self.check_unchanged(&snap, line);
                }
                self.check_gov_frame(&pre, &pre_params, line);
                let post = self.after(line);
                (format!("{line} ct={} w={}", is_contract as u8, ok as u8), format!("{} {}", if ok { "ok" } else { "err" }, post.render()))
            }
            "i" => {
                let kind = kv(line, "k").unwrap_or("").to_string();
                let caller = kv_u64(line, "c").unwrap_or(0);
                let caller_s = addr(caller);
                let pre = self.cur.clone();
                let (is_contract, pre_params) = {
                    let wd = self.wd.as_ref().unwrap();
                    (wd.is_contract(caller), wd.params_json())
                };
                let cls = rust_inst_principal(&kind);
                let snap = self.take_snap();
                let Some((code, v, funds)) = self.wd.as_mut().unwrap().inst_msg(&kind, &caller_s) else { return (line.to_string(), "bad-op".into()) };
                let res = self.wd.as_mut().unwrap().w.instantiate(code, &caller_s, &v, &funds, None);
                let ok = res.is_ok();
                let authorised = cls != Cls::ContractOnly || is_contract;
                self.last = LastOp { kind: kind.clone(), msg: "instantiate".into(), caller, is_contract, cls: Some(cls), authorised, ok, err: res.err().unwrap_or_default() };
                if ok && !authorised {
                    self.flag(
                        format!("{kind}/instantiate/user-instantiate-succeeded"),
                        format!("user account {caller} instantiated a {kind} directly (`{line}`)"),
                    );
                }
                if ok {
                    self.snap = None;
                } else {
                    self.check_unchanged(&snap, line);
                }
                self.check_gov_frame(&pre, &pre_params, line);
                let post = self.after(line);
                (format!("{line} ct={} w={}", is_contract as u8, ok as u8), format!("{} {}", if ok { "ok" } else { "err" }, post.render()))
            }
            "s" => {
                let kind = kv(line, "k").unwrap_or("").to_string();
                let msg = kv(line, "m").unwrap_or("").to_string();
                let arg = kv_u64(line, "arg").unwrap_or(0);
                let (target, v) = {
                    let wd = self.wd.as_ref().unwrap();
                    if kind.starts_with("f.") {
                        let ext = if wd.mk.factory() == FactoryKind::Base { Value::Null } else { json!({}) };
                        (wd.factory.clone(), json!({"update_params":{"max_trading_offset_secs": arg, "extension": ext}}))
                    } else {
                        (wd.minter.clone(), json!({"update_status":{"is_verified": arg & 1 == 1, "is_blocked": arg & 2 == 2, "is_explicit": arg & 4 == 4}}))
                    }
                };
                match typed_sudo_name(&kind, &v) {
                    Ok(n) if n == msg => {}
                    other => panic!("harness bug: sudo {kind}/{msg} JSON {v}: {:?}", other),
                }
                let res = self.wd.as_mut().unwrap().w.sudo(&target, &v);
                let ok = res.is_ok();
                self.snap = None;
                self.last = LastOp { kind: kind.clone(), msg: format!("sudo_{msg}"), ok, err: res.err().unwrap_or_default(), ..Default::default() };
                let post = self.after(line);
                let val = if kind.starts_with("f.") { post.pv } else { post.st };
                (format!("{line} v={val} w={}", ok as u8), format!("{} {}", if ok { "ok" } else { "err" }, post.render()))
            }
            _ => (line.to_string(), "bad-op".into()),
        }
    }

    fn monitor(&mut self) -> Option<(String, String)> {
        self.finding.take()
    }
}

// ------------------------------------------------------------------------------------------------ generators

#[derive(Default)]
struct Gen {
    /// (kind, msg) -> number of successful calls by an authorised caller
    succ: BTreeMap<(String, String), u64>,
    /// rows on which an authorised caller was tried at least once
    tried: BTreeSet<(String, String)>,
    phase: String,
}

/// messages whose success is irreversible for the rest of the case: the sweeps leave them to the explicit phases
const DESTRUCTIVE: [&str; 5] = ["freeze_collection_info", "freeze_token_metadata", "freeze", "renounce_ownership", "burn_remaining"];

fn wd(sut: &S) -> &Wd {
    sut.wd.as_ref().unwrap()
}
fn world_kinds(sut: &S) -> Vec<String> {
    let w = wd(sut);
    vec![fk_tok(w.mk.factory()).into(), mk_tok(w.mk).into(), ck_tok(w.ck).into(), wk_tok(w.wk).into(), "splits".into(), "group".into()]
}
fn contract_callers(sut: &S) -> Vec<u64> {
    let w = wd(sut);
    let mut v: Vec<u64> = [&w.factory, &w.minter, &w.coll, &w.wl, &w.group, &w.splits].iter().map(|a| addr_id(a)).collect();
    if let Some(s) = &w.src_coll {
        v.push(addr_id(s));
    }
    v
}
fn all_callers(sut: &S) -> Vec<u64> {
    let mut v = ROLES.to_vec();
    v.extend(contract_callers(sut));
    v
}
fn role_class(sut: &S, c: u64) -> &'static str {
    if sut.last.authorised {
        "principal"
    } else if c == STRANGER || c == BUYER {
        "stranger"
    } else if c >= 1000 {
        "contract"
    } else {
        "other-role"
    }
}

/// arguments of the hand-over messages: the principal hands over to itself (the sweep must not change who is who),
/// everybody else tries to appoint himself
fn sweep_args(kind: &str, msg: &str, caller: u64, principal: bool, o: &Obs) -> String {
    let fam = kind.split('.').next().unwrap_or("");
    match (fam, msg) {
        ("c", "update_collection_info") => format!(" nc={}", if principal { o.cr } else { caller }),
        ("c", "transfer_ownership") => format!(" no={} ex=-", if principal { o.own.unwrap_or(caller) } else { caller }),
        ("w", "update_admins") => format!(" al={}", if principal { fmt_list(&o.wa) } else { caller.to_string() }),
        ("splits", "update_admin") => format!(" na={}", if principal { fmt_opt(&o.sa) } else { caller.to_string() }),
        ("group", "update_admin") => format!(" na={}", if principal { fmt_opt(&o.ga) } else { caller.to_string() }),
        ("group", "update_members") => {
            if principal {
                " add=- rm=-".to_string()
            } else {
                format!(" add={caller} rm=-")
            }
        }
        _ => String::new(),
    }
}

fn do_line(ses: &mut Session, sut: &mut S, g: &mut Gen, line: &str) -> bool {
    let out = ses.step(sut, line);
    let l = sut.last.clone();
    let ok = out.starts_with("ok");
    if l.cls.is_some() {
        let key = (l.kind.clone(), l.msg.clone());
        if l.authorised {
            g.tried.insert(key.clone());
            if ok {
                *g.succ.entry(key).or_insert(0) += 1;
            }
        }
        let rc = role_class(sut, l.caller);
        ses.mark(format!("{}/{}/{}/{}/{}", l.kind, l.msg, rc, g.phase, if ok { "ok" } else { "err" }));
        if !ok {
            // error kinds are logged (never compared): authorisation vs other reasons
            let unauth = l.err.contains("nauthorized") || l.err.contains("not an admin") || l.err.contains("NotOwner") || l.err.contains("not the contract's") || l.err.contains("Caller is not");
            ses.count(&format!("err:{}:{}", rc, if unauth { "unauthorised" } else if l.err.contains("parsing") || l.err.contains("unknown variant") || l.err.contains("Error parsing") { "no-such-message" } else if l.err.starts_with("panic") { "panic" } else { "other" }));
            if l.authorised {
                ses.count(&format!("principal-failed:{}/{}", l.kind, l.msg));
                if std::env::var("C05_DEBUG").is_ok() {
                    eprintln!("PF [{}] {} => {}", g.phase, line, l.err.replace('\n', " "));
                }
            }
        }
    }
    ok
}

fn do_x(ses: &mut Session, sut: &mut S, g: &mut Gen, kind: &str, msg: &str, caller: u64, extra: &str) -> bool {
    do_line(ses, sut, g, &format!("x k={kind} m={msg} c={caller}{extra}"))
}
fn tick(ses: &mut Session, sut: &mut S, g: &mut Gen, to: u64) {
    do_line(ses, sut, g, &format!("t now={to}"));
}
fn now(sut: &S) -> u64 {
    wd(sut).w.time()
}
fn is_auth(sut: &S, kind: &str, msg: &str, c: u64) -> bool {
    let w = wd(sut);
    rust_auth(&sut.cur, &w.merge_sources, c, w.is_contract(c), rust_principal(kind, msg))
}

/// every row of the table for the contracts of this world × callers (non-principals first, the principals last)
fn sweep(ses: &mut Session, sut: &mut S, g: &mut Gen, only: Option<&[&str]>) {
    for kind in world_kinds(sut) {
        if let Some(f) = only {
            if !f.iter().any(|p| kind.starts_with(p)) {
                continue;
            }
        }
        for msg in family_tokens(&kind) {
            let cls = rust_principal(&kind, msg);
            let minter_id = addr_id(&wd(sut).minter);
            let callers: Vec<u64> = match cls {
                Cls::Anyone => vec![STRANGER, BUYER, minter_id],
                Cls::Nobody | Cls::SudoOnly => vec![CREATOR, WL_ADMIN, SPLITS_ADMIN, STRANGER, minter_id],
                _ => all_callers(sut),
            };
            let (pr, np): (Vec<u64>, Vec<u64>) = callers.into_iter().partition(|c| cls != Cls::Anyone && is_auth(sut, &kind, msg, *c));
            for c in np {
                let a = sweep_args(&kind, msg, c, false, &sut.cur);
                do_x(ses, sut, g, &kind, msg, c, &a);
            }
            for c in pr {
                if DESTRUCTIVE.contains(&msg) || !is_auth(sut, &kind, msg, c) {
                    continue;
                }
                if msg == "update_discount_price" || msg == "remove_discount_price" {
                    let t = now(sut) + 13 * HOUR;
                    tick(ses, sut, g, t);
                }
                let a = sweep_args(&kind, msg, c, true, &sut.cur);
                do_x(ses, sut, g, &kind, msg, c, &a);
            }
        }
    }
}

/// user / contract `instantiate` of every contract kind of the workspace
fn instantiate_sweep(ses: &mut Session, sut: &mut S, g: &mut Gen) {
    let (f, m, s) = {
        let w = wd(sut);
        (addr_id(&w.factory), addr_id(&w.minter), addr_id(&w.splits))
    };
    for k in ALL_MINTERS {
        for c in [CREATOR, STRANGER, s, m, f] {
            do_line(ses, sut, g, &format!("i k={} c={c}", mk_tok(k)));
        }
    }
    for k in ALL_COLL {
        for c in [CREATOR, STRANGER, BUYER, f, m] {
            do_line(ses, sut, g, &format!("i k={} c={c}", ck_tok(k)));
        }
    }
    for k in ALL_FACT {
        do_line(ses, sut, g, &format!("i k={} c={STRANGER}", fk_tok(k)));
    }
    for k in ALL_WL {
        do_line(ses, sut, g, &format!("i k={} c={STRANGER}", wk_tok(k)));
    }
    do_line(ses, sut, g, &format!("i k=group c={STRANGER}"));
    do_line(ses, sut, g, &format!("i k=splits c={s}"));
}

/// the explicit hand-overs (each by the current principal, read from the observed state)
fn handover_phase(ses: &mut Session, sut: &mut S, g: &mut Gen) {
    let (ck, wk, fk, mk) = {
        let w = wd(sut);
        (ck_tok(w.ck), wk_tok(w.wk), fk_tok(w.mk.factory()), mk_tok(w.mk))
    };
    // collection creator: old creator -> NEW_CREATOR (a stranger trying first)
    do_x(ses, sut, g, ck, "update_collection_info", STRANGER, &format!(" nc={STRANGER}"));
    let cr = sut.cur.cr;
    do_x(ses, sut, g, ck, "update_collection_info", cr, &format!(" nc={NEW_CREATOR}"));
    do_x(ses, sut, g, ck, "update_collection_info", cr, &format!(" nc={cr}")); // the old creator is out
    // cw_ownable: transfer with an expiry, exact boundary instants
    if let Some(owner) = sut.cur.own {
        let t0 = now(sut);
        do_x(ses, sut, g, ck, "transfer_ownership", owner, &format!(" no={NEW_OWNER} ex={}", t0 + 10_000));
        do_x(ses, sut, g, ck, "mint", NEW_OWNER, ""); // pending owner is not the minter yet
        tick(ses, sut, g, t0 + 9_999);
        do_x(ses, sut, g, ck, "accept_ownership", STRANGER, "");
        tick(ses, sut, g, t0 + 10_000);
        do_x(ses, sut, g, ck, "accept_ownership", NEW_OWNER, ""); // expired exactly now
        do_x(ses, sut, g, ck, "transfer_ownership", owner, &format!(" no={NEW_OWNER} ex={}", t0 + 20_000));
        tick(ses, sut, g, t0 + 19_999);
        do_x(ses, sut, g, ck, "accept_ownership", NEW_OWNER, ""); // one ns before the expiry
        do_x(ses, sut, g, ck, "mint", owner, ""); // the old minter is out
        do_x(ses, sut, g, ck, "mint", NEW_OWNER, "");
    }
    // whitelist admins: [WL_ADMIN] -> [WL_ADMIN2, WL_ADMIN] -> [WL_ADMIN2]
    if let Some(a0) = sut.cur.wa.first().copied() {
        do_x(ses, sut, g, wk, "update_admins", a0, &format!(" al={WL_ADMIN2},{a0}"));
        do_x(ses, sut, g, wk, "update_admins", WL_ADMIN2, &format!(" al={WL_ADMIN2}"));
        do_x(ses, sut, g, wk, "update_admins", a0, &format!(" al={a0}")); // removed admin is out
    }
    // splits admin -> NEW_SPLITS_ADMIN; group members: +NEW_MEMBER −MEMBER1; group admin -> MEMBER2
    if let Some(sa) = sut.cur.sa {
        do_x(ses, sut, g, "splits", "update_admin", sa, &format!(" na={NEW_SPLITS_ADMIN}"));
        do_x(ses, sut, g, "splits", "distribute", sa, "");
        do_x(ses, sut, g, "splits", "distribute", NEW_SPLITS_ADMIN, "");
    }
    if let Some(ga) = sut.cur.ga {
        do_x(ses, sut, g, "group", "update_members", ga, &format!(" add={NEW_MEMBER} rm={MEMBER1}"));
        do_x(ses, sut, g, "group", "update_admin", ga, &format!(" na={MEMBER2}"));
        do_x(ses, sut, g, "group", "update_members", ga, &format!(" add={ga} rm=-"));
    }
    // governance: sudo is the only way to change params / status
    do_line(ses, sut, g, &format!("s k={fk} m=update_params arg=4242"));
    do_line(ses, sut, g, &format!("s k={mk} m=update_status arg=5"));
}

fn frozen_phase(ses: &mut Session, sut: &mut S, g: &mut Gen) {
    let (ck, wk) = {
        let w = wd(sut);
        (ck_tok(w.ck), wk_tok(w.wk))
    };
    if let Some(a) = sut.cur.wa.first().copied() {
        do_x(ses, sut, g, wk, "freeze", STRANGER, "");
        do_x(ses, sut, g, wk, "freeze", a, "");
        do_x(ses, sut, g, wk, "update_admins", a, &format!(" al={a},{STRANGER}")); // admins themselves are out now
        do_x(ses, sut, g, wk, "freeze", a, "");
    }
    let cr = sut.cur.cr;
    do_x(ses, sut, g, ck, "freeze_collection_info", STRANGER, "");
    do_x(ses, sut, g, ck, "freeze_collection_info", cr, "");
    do_x(ses, sut, g, ck, "freeze_token_metadata", STRANGER, "");
    do_x(ses, sut, g, ck, "freeze_token_metadata", cr, "");
    do_x(ses, sut, g, ck, "update_collection_info", cr, &format!(" nc={STRANGER}")); // frozen: even the creator fails
}

fn random_walk(ses: &mut Session, sut: &mut S, g: &mut Gen, rng: &mut Rng, n: u64) {
    let kinds = world_kinds(sut);
    let pool: Vec<u64> = ROLES.to_vec();
    for _ in 0..n {
        if rng.chance(1, 10) {
            // time: random step, or exactly around a pending ownership expiry
            let t = now(sut);
            let to = match sut.cur.pex {
                Some(e) if e > t && rng.chance(2, 3) => *rng.pick(&[e - 1, e, e + 1]),
                _ => t + rng.range(1, 2 * DAY),
            };
            if to > t {
                tick(ses, sut, g, to);
            }
            continue;
        }
        let kind = rng.pick(&kinds).clone();
        let toks = family_tokens(&kind);
        // bias towards the hand-over messages
        let msg: &str = if rng.chance(1, 2) {
            let hs: Vec<&str> = toks.iter().copied().filter(|m| matches!(*m, "update_collection_info" | "transfer_ownership" | "accept_ownership" | "renounce_ownership" | "update_admins" | "freeze" | "update_admin" | "update_members" | "freeze_collection_info")).collect();
            if hs.is_empty() { *rng.pick(&toks) } else { *rng.pick(&hs) }
        } else {
            *rng.pick(&toks)
        };
        let callers = all_callers(sut);
        let principals: Vec<u64> = callers.iter().copied().filter(|c| is_auth(sut, &kind, msg, *c)).collect();
        let want_principal = rng.chance(2, 5) && !principals.is_empty() && rust_principal(&kind, msg) != Cls::Anyone;
        let c = if want_principal { *rng.pick(&principals) } else { *rng.pick(&callers) };
        if (msg == "add_hook" || msg == "remove_hook") && is_auth(sut, &kind, msg, c) {
            continue; // a hook on an account address would make the real `update_members` fail for a non-modelled reason
        }
        if msg == "renounce_ownership" && is_auth(sut, &kind, msg, c) && rng.chance(3, 4) {
            continue; // keep an owner most of the time
        }
        let pick_some = |rng: &mut Rng, k: u64| -> Vec<u64> {
            let mut p = pool.clone();
            rng.shuffle(&mut p);
            p.truncate(k as usize);
            p
        };
        let fam = kind.split('.').next().unwrap_or("");
        let extra = match (fam, msg) {
            ("c", "update_collection_info") => format!(" nc={}", if rng.chance(1, 4) { "-".to_string() } else { rng.pick(&pool).to_string() }),
            ("c", "transfer_ownership") => {
                let t = now(sut);
                let ex = match rng.below(3) {
                    0 => "-".to_string(),
                    1 => (t + rng.range(1, 3 * DAY)).to_string(),
                    _ => t.to_string(), // already expired
                };
                let mut cand = pool.clone();
                cand.push(addr_id(&wd(sut).minter));
                format!(" no={} ex={ex}", rng.pick(&cand))
            }
            ("w", "update_admins") => {
                let k = rng.range(0, 3);
                format!(" al={}", fmt_list(&pick_some(rng, k)))
            }
            ("splits", "update_admin") | ("group", "update_admin") => format!(" na={}", if rng.chance(1, 3) { "-".to_string() } else { rng.pick(&pool).to_string() }),
            ("group", "update_members") => {
                let (ka, kr) = (rng.range(0, 2), rng.range(0, 2));
                format!(" add={} rm={}", fmt_list(&pick_some(rng, ka)), fmt_list(&pick_some(rng, kr)))
            }
            _ => String::new(),
        };
        do_x(ses, sut, g, &kind, msg, c, &extra);
    }
}

fn run_world(ses: &mut Session, sut: &mut S, g: &mut Gen, rng: &mut Rng, header: &str, random_ops: u64, full: bool) {
    ses.begin_case(sut, header);
    g.phase = "fresh".into();
    sweep(ses, sut, g, None);
    // started
    g.phase = "started".into();
    let start = {
        let w = wd(sut);
        let cfg = w.w.query(&w.minter, &json!({"config":{}})).unwrap_or(Value::Null);
        jnanos(&cfg["start_time"]).max(w.create.start_time)
    };
    tick(ses, sut, g, start + 1);
    sweep(ses, sut, g, if full { None } else { Some(&["m.", "c.", "w."]) });
    // sold out (burn-remaining by the admin; base minter has no supply)
    g.phase = "soldout".into();
    let (mk, adm) = (mk_tok(wd(sut).mk), sut.cur.adm);
    if wd(sut).mk.is_open_edition() {
        // open editions can only be burnt / purged after their end time
        let end = {
            let w = wd(sut);
            let cfg = w.w.query(&w.minter, &json!({"config":{}})).unwrap_or(Value::Null);
            jnanos(&cfg["end_time"])
        };
        if end > 0 {
            do_x(ses, sut, g, mk, "burn_remaining", adm, ""); // one ns early: fails for a non-authorisation reason
            tick(ses, sut, g, end + 1);
        }
    }
    do_x(ses, sut, g, mk, "burn_remaining", STRANGER, "");
    do_x(ses, sut, g, mk, "burn_remaining", adm, "");
    sweep(ses, sut, g, Some(&["m."]));
    // hand-overs
    g.phase = "handover".into();
    handover_phase(ses, sut, g);
    sweep(ses, sut, g, None);
    // splits admin removed: group members distribute
    if let Some(sa) = sut.cur.sa {
        do_x(ses, sut, g, "splits", "update_admin", sa, " na=-");
        sweep(ses, sut, g, Some(&["splits", "group"]));
    }
    // frozen
    g.phase = "frozen".into();
    frozen_phase(ses, sut, g);
    sweep(ses, sut, g, Some(&["c.", "w."]));
    // random continuation (real hand-overs by random principals, strangers in between, exact expiry instants)
    g.phase = "random".into();
    random_walk(ses, sut, g, rng, random_ops);
    sweep(ses, sut, g, if full { None } else { Some(&["c.", "w.", "splits"]) });
    // renounced ownership: nobody is the collection's minter any more
    g.phase = "renounced".into();
    let ck = ck_tok(wd(sut).ck);
    if let Some(o) = sut.cur.own {
        do_x(ses, sut, g, ck, "renounce_ownership", STRANGER, "");
        do_x(ses, sut, g, ck, "renounce_ownership", o, "");
        sweep(ses, sut, g, Some(&["c."]));
    }
    g.phase = "instantiate".into();
    instantiate_sweep(ses, sut, g);
    ses.end_case();
}

fn main() {
    let mut ses = Session::new("C05");
    let mut sut = S::new();
    if ses.maybe_replay(&mut sut) {
        ses.finish(&mut sut);
    }
    let mut rng = ses.rng.fork();
    let mut g = Gen::default();
    let thorough = ses.tier() != Tier::Quick;

    // (minter, collection, whitelist): quick = every minter kind once, all 4 collection and 7 whitelist kinds covered,
    // whitelist kind compatible with the minter's `set_whitelist` where one exists
    let base_combo: [(MinterKind, CollKind, WlKind); 13] = [
        (MinterKind::Vending, CollKind::Base, WlKind::Plain),
        (MinterKind::VendingFeatured, CollKind::Updatable, WlKind::Tiered),
        (MinterKind::VendingFlex, CollKind::Base, WlKind::Flex),
        (MinterKind::VendingFlexFeatured, CollKind::Base, WlKind::TieredFlex),
        (MinterKind::VendingMerkle, CollKind::Updatable, WlKind::Merkle),
        (MinterKind::VendingMerkleFeatured, CollKind::Base, WlKind::TieredMerkle),
        (MinterKind::OpenEdition, CollKind::Updatable, WlKind::Tiered),
        (MinterKind::OpenEditionFlex, CollKind::Base, WlKind::Flex),
        (MinterKind::OpenEditionMerkle, CollKind::Base, WlKind::Merkle),
        (MinterKind::TokenMerge, CollKind::Base, WlKind::Immutable),
        (MinterKind::Base, CollKind::Base, WlKind::Plain),
        // the two collection kinds no minter of the workspace is fully compatible with (sg721-nt has no trading-time
        // update, sg721-metadata-onchain needs a Metadata extension on mint) ride on a second vending world
        (MinterKind::Vending, CollKind::MetadataOnchain, WlKind::Plain),
        (MinterKind::VendingFeatured, CollKind::Nt, WlKind::Tiered),
    ];
    let mut combos: Vec<(MinterKind, CollKind, WlKind, u64, bool)> = base_combo.iter().map(|(m, c, w)| (*m, *c, *w, ses.scale(150, 1500), true)).collect();
    // sg721-base migrated to sg721-updatable (header flag mig=1 on every updatable world with an even index)
    combos.push((MinterKind::VendingMerkle, CollKind::Updatable, WlKind::TieredMerkle, ses.scale(150, 1500), true));
    let mig_case = combos.len() - 1;
    if thorough {
        // every minter kind × every collection kind, whitelist kinds rotating, several seeds of random continuation
        let mut i = 0;
        for m in ALL_MINTERS {
            for c in ALL_COLL {
                for _rep in 0..2 {
                    combos.push((m, c, ALL_WL[i % 7], ses.scale(150, 1200), false));
                    i += 1;
                }
            }
        }
    }
    for (i, (m, c, w, rops, full)) in combos.iter().enumerate() {
        let mig = (i == mig_case || (i > mig_case && i % 2 == 0)) as u8;
        let header = format!("case world{} mk={} ck={} wk={} n=100 mig={}", i, mk_tok(*m), ck_tok(*c), wk_tok(*w), mig);
        let mut r = rng.fork();
        run_world(&mut ses, &mut sut, &mut g, &mut r, &header, *rops, *full);
    }

    // the two tables (Rust monitors' vs Lean theorems') agree on every row; every reservable row was passed by its principal
    ses.begin_case(&mut sut, "case coverage");
    let mut all_kinds: Vec<String> = vec![];
    all_kinds.extend(ALL_FACT.iter().map(|k| fk_tok(*k).to_string()));
    all_kinds.extend(ALL_MINTERS.iter().map(|k| mk_tok(*k).to_string()));
    all_kinds.extend(ALL_COLL.iter().map(|k| ck_tok(*k).to_string()));
    all_kinds.extend(ALL_WL.iter().map(|k| wk_tok(*k).to_string()));
    all_kinds.push("splits".into());
    all_kinds.push("group".into());
    for k in &all_kinds {
        ses.step(&mut sut, &format!("irow k={k}"));
        for m in family_tokens(k) {
            ses.step(&mut sut, &format!("row k={k} m={m}"));
        }
    }
    // rows whose principal cannot succeed in this harness for a reason that is not authorisation (documented in docs/C05.md)
    let no_success: [(&str, &str); 0] = [];
    let mut never: Vec<String> = vec![];
    for (k, m) in g.tried.iter() {
        let n = g.succ.get(&(k.clone(), m.clone())).copied().unwrap_or(0);
        if m == "instantiate" {
            continue;
        }
        if no_success.contains(&(k.as_str(), m.as_str())) || rust_principal(k, m) == Cls::Anyone {
            if n == 0 {
                never.push(format!("{k}/{m}"));
            }
            continue;
        }
        ses.step(&mut sut, &format!("cover k={k} m={m} n={n}"));
    }
    ses.end_case();
    ses.note(format!("rows tried with an authorised caller: {}; rows where the principal never succeeded (public rows / documented exceptions only): {:?}", g.tried.len(), never));
    ses.note("callers: 13 account roles + every contract of the world; phases: fresh, started, soldout, handover (incl. expiry −1ns/0/+1ns), splits admin removed, frozen, random continuation, renounced, instantiate");
    ses.finish(&mut sut);
}
