//! C05 — privileged operations succeed only for the principal that owns them.
//!
//! The ENUMERATION: every contract kind of the workspace (4 factories, 11 minters created through their factories,
//! 4 collection kinds, 7 whitelists, splits + cw4-group) × every `ExecuteMsg` variant (read at RUN TIME from the JSON schema
//! of the repo's own typed enums: a new / removed message kind changes the run, not the build) × caller ∈ {every account
//! role, every contract of the world} × state class (fresh, creator handed over before the sale starts, started, sold out,
//! after hand-over, frozen, renounced), executed with otherwise valid arguments and funds against the REAL contracts and
//! compared with `LP.Priv.step` (Lean).
//!
//! Monitors (direct transcription of the property, independent of the Lean model). "Who is the principal" is decided from
//! the harness's own GHOST bookkeeping — whom it named at creation, plus the hand-over messages it sent itself and saw
//! succeed — never from the answers of the contracts under test; which accounts are contracts is the harness's own
//! knowledge (its role accounts are not):
//!   * a caller that is not the row's principal succeeded                              `…/non-principal-succeeded`
//!   * the observed authorisation state is not what the hand-overs sent so far produce `…/auth-state-changed-outside-handover`
//!   * an `execute` / user `instantiate` changed factory Params or minter Status        `…/execute-changed-params|status`
//!   * a plain account instantiated a minter or a collection directly                   `<kind>/instantiate/by-non-contract`
//!   * the whitelist admin list changed after `mutable` became false                    `…/frozen-admin-list-changed`
//!   * (harness assumption, not property evidence) a failed call changed raw storage / balances `…/failed-call-changed-state`
//!
//! Coverage floor: for every reserved row of the LEAN table the principal must have passed, and the guard must have been
//! REACHED — non-principals refused and the principal accepted in the very same state — also after the principal was
//! handed over (`cover` lines + `ses.require`).
use cosmwasm_std::{Addr, Empty};
use lp_harness::minters::*;
use lp_harness::world::{addr, addr_id};
use lp_harness::*;
use serde_json::{json, Value};
use std::collections::{BTreeMap, BTreeSet};

// ------------------------------------------------------------------------------------------------ roles

const CREATOR: u64 = 10; // collection creator = minter admin at creation
const WL_ADMIN: u64 = 11;
const NEW_CREATOR: u64 = 12;
const WL_ADMIN2: u64 = 13;
const SPLITS_ADMIN: u64 = 14;
const MEMBER1: u64 = 15;
const MEMBER2: u64 = 16;
const NEW_OWNER: u64 = 17;
const NEW_SPLITS_ADMIN: u64 = 18;
const GROUP_ADMIN: u64 = 19;
const BUYER: u64 = 20;
const NEW_MEMBER: u64 = 21;
const NEW_CREATOR2: u64 = 22; // second creator hand-over (worlds whose first one happened before the sale started)
const STRANGER: u64 = 99;
const ROLES: [u64; 14] =
    [CREATOR, WL_ADMIN, NEW_CREATOR, WL_ADMIN2, SPLITS_ADMIN, MEMBER1, MEMBER2, NEW_OWNER, NEW_SPLITS_ADMIN, GROUP_ADMIN, BUYER, NEW_MEMBER, NEW_CREATOR2, STRANGER];
const DAY: u64 = 86_400_000_000_000;
const HOUR: u64 = 3_600_000_000_000;

const ALL_COLL: [CollKind; 4] = [CollKind::Base, CollKind::Updatable, CollKind::Nt, CollKind::MetadataOnchain];
const ALL_FACT: [FactoryKind; 4] = [FactoryKind::Base, FactoryKind::Vending, FactoryKind::OpenEdition, FactoryKind::TokenMerge];

fn mk_tok(k: MinterKind) -> &'static str {
    match k {
        MinterKind::Vending => "m.vending",
        MinterKind::VendingFeatured => "m.vending_featured",
        MinterKind::VendingFlex => "m.vending_flex",
        MinterKind::VendingFlexFeatured => "m.vending_flex_featured",
        MinterKind::VendingMerkle => "m.vending_merkle",
        MinterKind::VendingMerkleFeatured => "m.vending_merkle_featured",
        MinterKind::OpenEdition => "m.oe",
        MinterKind::OpenEditionFlex => "m.oe_flex",
        MinterKind::OpenEditionMerkle => "m.oe_merkle",
        MinterKind::TokenMerge => "m.tm",
        MinterKind::Base => "m.base",
    }
}
fn ck_tok(k: CollKind) -> &'static str {
    match k {
        CollKind::Base => "c.base",
        CollKind::Updatable => "c.updatable",
        CollKind::Nt => "c.nt",
        CollKind::MetadataOnchain => "c.onchain",
    }
}
fn wk_tok(k: WlKind) -> &'static str {
    match k {
        WlKind::Plain => "w.plain",
        WlKind::Flex => "w.flex",
        WlKind::Tiered => "w.tiered",
        WlKind::TieredFlex => "w.tiered_flex",
        WlKind::Merkle => "w.merkle",
        WlKind::TieredMerkle => "w.tiered_merkle",
        WlKind::Immutable => "w.immutable",
    }
}
fn fk_tok(k: FactoryKind) -> &'static str {
    match k {
        FactoryKind::Base => "f.base",
        FactoryKind::Vending => "f.vending",
        FactoryKind::OpenEdition => "f.oe",
        FactoryKind::TokenMerge => "f.tm",
    }
}
fn parse_mk(s: &str) -> Option<MinterKind> {
    ALL_MINTERS.iter().copied().find(|k| mk_tok(*k) == s)
}
fn parse_ck(s: &str) -> Option<CollKind> {
    ALL_COLL.iter().copied().find(|k| ck_tok(*k) == s)
}
fn parse_wk(s: &str) -> Option<WlKind> {
    ALL_WL.iter().copied().find(|k| wk_tok(*k) == s)
}
fn is_tiered(k: WlKind) -> bool {
    matches!(k, WlKind::Tiered | WlKind::TieredFlex | WlKind::TieredMerkle)
}

// ------------------------------------------------------------------------------------------------ message surface (RUN TIME)
//
// The `ExecuteMsg` / `SudoMsg` variants of every contract kind are read at run time from the JSON schema the repo's own
// types derive (`cw_serde` ⇒ `JsonSchema`). Nothing here matches on the variants at compile time: a message kind that is
// added, removed or renamed in /repo changes the run (table rows, sweeps, monitors, coverage floor), never the build.
//
// * known names (the 47 message kinds of the Lean table) are swept by name;
// * a variant the table does not know is swept as `m=other mn=<name>` with minimal arguments generated from its schema,
//   under the same monitors, with the DEFAULT-DENY class of the contract kind (a new public message is reported with a
//   failing input; a new properly guarded one only leaves a note);
// * a known name that disappeared makes the Rust table answer `nobody` where the Lean table still names a principal:
//   a table disagreement (the model has to be repaired), not a monitor alarm.

use cosmwasm_schema::schemars::schema_for;
use std::sync::OnceLock;

#[derive(Clone, Debug)]
struct Variant {
    /// protocol token (for `update_ownership` the cw_ownable action name)
    name: String,
    /// JSON path of the variant: `[name]` or `["update_ownership", action]`
    path: Vec<String>,
    /// schema of the variant's payload (`Null` for a unit variant serialised as a bare string)
    payload: Value,
    unit: bool,
}

struct Surface {
    /// kind token -> (root schema, variants)
    exec: BTreeMap<String, (Value, Vec<Variant>)>,
    #[allow(dead_code)]
    sudo: BTreeMap<String, (Value, Vec<Variant>)>,
}

fn enum_variants(root: &Value, node: &Value, prefix: &[String], out: &mut Vec<Variant>) {
    let push = |name: &str, payload: Value, unit: bool, out: &mut Vec<Variant>| {
        let mut path = prefix.to_vec();
        path.push(name.to_string());
        out.push(Variant { name: name.to_string(), path, payload, unit });
    };
    if let Some(alts) = node["oneOf"].as_array().or_else(|| node["anyOf"].as_array()) {
        for a in alts {
            enum_variants(root, a, prefix, out);
        }
        return;
    }
    if let Some(names) = node["enum"].as_array() {
        for n in names {
            if let Some(s) = n.as_str() {
                push(s, Value::Null, true, out);
            }
        }
        return;
    }
    if let (Some(req), Some(props)) = (node["required"].as_array(), node["properties"].as_object()) {
        if req.len() == 1 {
            if let Some(n) = req[0].as_str() {
                push(n, props.get(n).cloned().unwrap_or(Value::Null), false, out);
            }
        }
    }
}

fn resolve<'a>(root: &'a Value, mut node: &'a Value) -> &'a Value {
    for _ in 0..8 {
        if let Some(r) = node["$ref"].as_str() {
            node = &root["definitions"][r.trim_start_matches("#/definitions/")];
            continue;
        }
        if let Some(a) = node["allOf"].as_array() {
            if a.len() == 1 {
                node = &a[0];
                continue;
            }
        }
        break;
    }
    node
}

fn surface_of(root: Value) -> (Value, Vec<Variant>) {
    let mut top = vec![];
    enum_variants(&root, &root, &[], &mut top);
    let mut out = vec![];
    for v in top {
        // cw_ownable: `update_ownership` carries an enum of actions — each action is a row of the table
        let inner = resolve(&root, &v.payload).clone();
        if v.name == "update_ownership" && (inner["oneOf"].is_array() || inner["enum"].is_array()) {
            enum_variants(&root, &inner, &v.path, &mut out);
        } else {
            out.push(v);
        }
    }
    (root, out)
}

fn surface() -> &'static Surface {
    static S: OnceLock<Surface> = OnceLock::new();
    S.get_or_init(|| {
        let mut exec = BTreeMap::new();
        let mut sudo = BTreeMap::new();
        macro_rules! e {
            ($k:literal, $ty:ty) => {
                exec.insert($k.to_string(), surface_of(serde_json::to_value(schema_for!($ty)).unwrap()));
            };
        }
        macro_rules! s {
            ($k:literal, $ty:ty) => {
                sudo.insert($k.to_string(), surface_of(serde_json::to_value(schema_for!($ty)).unwrap()));
            };
        }
        e!("m.vending", vending_minter::msg::ExecuteMsg);
        e!("m.vending_featured", vending_minter_featured::msg::ExecuteMsg);
        e!("m.vending_flex", vending_minter_wl_flex::msg::ExecuteMsg);
        e!("m.vending_flex_featured", vending_minter_wl_flex_featured::msg::ExecuteMsg);
        e!("m.vending_merkle", vending_minter_merkle_wl::msg::ExecuteMsg);
        e!("m.vending_merkle_featured", vending_minter_merkle_wl_featured::msg::ExecuteMsg);
        e!("m.oe", open_edition_minter::msg::ExecuteMsg);
        e!("m.oe_flex", open_edition_minter_wl_flex::msg::ExecuteMsg);
        e!("m.oe_merkle", open_edition_minter_merkle_wl::msg::ExecuteMsg);
        e!("m.tm", token_merge_minter::msg::ExecuteMsg);
        e!("m.base", base_minter::msg::ExecuteMsg);
        e!("c.base", sg721::ExecuteMsg<Option<Empty>, Empty>);
        e!("c.onchain", sg721::ExecuteMsg<sg_metadata::Metadata, Empty>);
        e!("c.updatable", UpdatableMsg);
        e!("c.nt", NtMsg);
        e!("w.plain", sg_whitelist::msg::ExecuteMsg);
        e!("w.flex", sg_whitelist_flex::msg::ExecuteMsg);
        e!("w.tiered", sg_tiered_whitelist::msg::ExecuteMsg);
        e!("w.tiered_flex", sg_tiered_whitelist_flex::msg::ExecuteMsg);
        e!("w.merkle", whitelist_mtree::msg::ExecuteMsg);
        e!("w.tiered_merkle", tiered_whitelist_merkletree::msg::ExecuteMsg);
        e!("w.immutable", whitelist_immutable::msg::ExecuteMsg);
        e!("splits", sg_splits::msg::ExecuteMsg);
        e!("group", cw4_group::msg::ExecuteMsg);
        e!("f.base", base_factory::msg::ExecuteMsg);
        e!("f.vending", vending_factory::msg::ExecuteMsg);
        e!("f.oe", open_edition_factory::msg::ExecuteMsg);
        e!("f.tm", token_merge_factory::msg::ExecuteMsg);
        s!("f.base", base_factory::msg::BaseSudoMsg);
        s!("f.vending", vending_factory::msg::SudoMsg);
        s!("f.oe", open_edition_factory::msg::SudoMsg);
        s!("f.tm", token_merge_factory::msg::SudoMsg);
        for k in ALL_MINTERS {
            sudo.insert(mk_tok(k).to_string(), surface_of(serde_json::to_value(schema_for!(sg4::SudoMsg)).unwrap()));
        }
        Surface { exec, sudo }
    })
}

type UpdatableMsg = sg721_updatable::msg::ExecuteMsg<Option<Empty>, Empty>;
type NtMsg = sg721_nt::msg::ExecuteMsg<Option<Empty>>;

/// the message kinds of the Lean table (`LP.Priv.MsgKind`, protocol names), by contract family
const FAM_MINTER: &[&str] = &[
    "mint", "set_whitelist", "purge", "update_mint_price", "update_start_time", "update_end_time", "update_start_trading_time",
    "update_per_address_limit", "mint_to", "mint_for", "shuffle", "burn_remaining", "update_discount_price", "remove_discount_price",
    "receive_nft", "update_status",
];
const FAM_COLL: &[&str] = &[
    "transfer_nft", "send_nft", "approve", "revoke", "approve_all", "revoke_all", "mint", "burn", "extension", "update_collection_info",
    "update_start_trading_time", "freeze_collection_info", "transfer_ownership", "accept_ownership", "renounce_ownership",
    "freeze_token_metadata", "update_token_metadata", "enable_updatable",
];
const FAM_WL: &[&str] = &[
    "update_start_time", "update_end_time", "add_members", "remove_members", "update_per_address_limit", "increase_member_limit",
    "update_admins", "freeze", "add_stage", "remove_stage", "update_stage_config",
];
const FAM_FACTORY: &[&str] = &["create_minter", "update_params"];
const FAM_SPLITS: &[&str] = &["update_admin", "distribute"];
const FAM_GROUP: &[&str] = &["update_admin", "update_members", "add_hook", "remove_hook"];

fn family_known(kind: &str) -> &'static [&'static str] {
    if kind.starts_with("m.") {
        FAM_MINTER
    } else if kind.starts_with("c.") {
        FAM_COLL
    } else if kind.starts_with("w.") {
        FAM_WL
    } else if kind.starts_with("f.") {
        FAM_FACTORY
    } else if kind == "splits" {
        FAM_SPLITS
    } else {
        FAM_GROUP
    }
}
fn known_anywhere(name: &str) -> bool {
    [FAM_MINTER, FAM_COLL, FAM_WL, FAM_FACTORY, FAM_SPLITS, FAM_GROUP].iter().any(|f| f.contains(&name))
}

/// names of the `ExecuteMsg` variants the contract kind has RIGHT NOW (run-time schema)
fn names_of(kind: &str) -> Vec<String> {
    surface().exec.get(kind).map(|(_, vs)| vs.iter().map(|v| v.name.clone()).collect()).unwrap_or_default()
}
fn has_msg(kind: &str, msg: &str) -> bool {
    surface().exec.get(kind).map(|(_, vs)| vs.iter().any(|v| v.name == msg)).unwrap_or(false)
}
/// variants of this kind that are not message kinds of the table at all
fn unknown_variants(kind: &str) -> Vec<String> {
    names_of(kind).into_iter().filter(|n| !known_anywhere(n)).collect()
}

/// deserialise `v` with the repo's own typed enum of that contract kind, serialise it again and return the variant name
/// the repo's codec gives it (no match on variants: purely a round trip through the typed message)
fn typed_name(kind: &str, v: &Value) -> Result<String, String> {
    macro_rules! t {
        ($ty:ty) => {
            cosmwasm_std::from_json::<$ty>(serde_json::to_vec(v).unwrap())
                .and_then(|m| cosmwasm_std::to_json_vec(&m))
                .map_err(|e| e.to_string())
                .and_then(|b| serde_json::from_slice::<Value>(&b).map_err(|e| e.to_string()))
        };
    }
    let back: Value = match kind {
        "m.vending" => t!(vending_minter::msg::ExecuteMsg),
        "m.vending_featured" => t!(vending_minter_featured::msg::ExecuteMsg),
        "m.vending_flex" => t!(vending_minter_wl_flex::msg::ExecuteMsg),
        "m.vending_flex_featured" => t!(vending_minter_wl_flex_featured::msg::ExecuteMsg),
        "m.vending_merkle" => t!(vending_minter_merkle_wl::msg::ExecuteMsg),
        "m.vending_merkle_featured" => t!(vending_minter_merkle_wl_featured::msg::ExecuteMsg),
        "m.oe" => t!(open_edition_minter::msg::ExecuteMsg),
        "m.oe_flex" => t!(open_edition_minter_wl_flex::msg::ExecuteMsg),
        "m.oe_merkle" => t!(open_edition_minter_merkle_wl::msg::ExecuteMsg),
        "m.tm" => t!(token_merge_minter::msg::ExecuteMsg),
        "m.base" => t!(base_minter::msg::ExecuteMsg),
        "c.base" => t!(sg721::ExecuteMsg<Option<Empty>, Empty>),
        "c.onchain" => t!(sg721::ExecuteMsg<sg_metadata::Metadata, Empty>),
        "c.updatable" => t!(UpdatableMsg),
        "c.nt" => t!(NtMsg),
        "w.plain" => t!(sg_whitelist::msg::ExecuteMsg),
        "w.flex" => t!(sg_whitelist_flex::msg::ExecuteMsg),
        "w.tiered" => t!(sg_tiered_whitelist::msg::ExecuteMsg),
        "w.tiered_flex" => t!(sg_tiered_whitelist_flex::msg::ExecuteMsg),
        "w.merkle" => t!(whitelist_mtree::msg::ExecuteMsg),
        "w.tiered_merkle" => t!(tiered_whitelist_merkletree::msg::ExecuteMsg),
        "w.immutable" => t!(whitelist_immutable::msg::ExecuteMsg),
        "splits" => t!(sg_splits::msg::ExecuteMsg),
        "group" => t!(cw4_group::msg::ExecuteMsg),
        "f.base" => t!(base_factory::msg::ExecuteMsg),
        "f.vending" => t!(vending_factory::msg::ExecuteMsg),
        "f.oe" => t!(open_edition_factory::msg::ExecuteMsg),
        "f.tm" => t!(token_merge_factory::msg::ExecuteMsg),
        _ => Err("unknown kind".into()),
    }?;
    Ok(variant_key(&back))
}
fn typed_sudo_name(kind: &str, v: &Value) -> Result<String, String> {
    macro_rules! t {
        ($ty:ty) => {
            cosmwasm_std::from_json::<$ty>(serde_json::to_vec(v).unwrap())
                .and_then(|m| cosmwasm_std::to_json_vec(&m))
                .map_err(|e| e.to_string())
                .and_then(|b| serde_json::from_slice::<Value>(&b).map_err(|e| e.to_string()))
        };
    }
    let back: Value = match kind {
        "f.base" => t!(base_factory::msg::BaseSudoMsg),
        "f.vending" => t!(vending_factory::msg::SudoMsg),
        "f.oe" => t!(open_edition_factory::msg::SudoMsg),
        "f.tm" => t!(token_merge_factory::msg::SudoMsg),
        k if k.starts_with("m.") => t!(sg4::SudoMsg),
        _ => Err("no sudo".into()),
    }?;
    Ok(variant_key(&back))
}
/// `{"name": …}` / `"name"`; `update_ownership` is named by its action
fn variant_key(v: &Value) -> String {
    let (k, inner) = match v {
        Value::String(s) => (s.clone(), &Value::Null),
        Value::Object(o) => match o.iter().next() {
            Some((k, i)) => (k.clone(), i),
            None => (String::new(), &Value::Null),
        },
        _ => (String::new(), &Value::Null),
    };
    if k == "update_ownership" {
        return variant_key(inner);
    }
    k
}

/// every message token the harness sends to a contract of this kind: ALL message kinds of its family in the table (so each
/// kind is also sent the messages it does NOT have — rows of class `nobody` — and the sudo message through `execute`)
fn family_tokens(kind: &str) -> Vec<&'static str> {
    family_known(kind).to_vec()
}

/// minimal arguments for a payload schema (used for variants the table does not know)
fn minimal(root: &Value, node: &Value, field: &str, depth: u32) -> Value {
    if depth > 6 {
        return Value::Null;
    }
    if let Some(r) = node["$ref"].as_str() {
        let name = r.trim_start_matches("#/definitions/");
        return match name {
            "Uint128" | "Uint64" | "Timestamp" | "Uint256" => json!("1"),
            "Decimal" => json!("0.01"),
            "Binary" => json!("e30="),
            "Addr" => json!(addr(STRANGER)),
            _ => minimal(root, &root["definitions"][name], field, depth + 1),
        };
    }
    if let Some(a) = node["allOf"].as_array() {
        if let Some(f) = a.first() {
            return minimal(root, f, field, depth + 1);
        }
    }
    if let Some(a) = node["anyOf"].as_array().or_else(|| node["oneOf"].as_array()) {
        if a.iter().any(|x| x["type"] == "null") {
            return Value::Null;
        }
        if let Some(f) = a.first() {
            return minimal(root, f, field, depth + 1);
        }
    }
    if let Some(e) = node["enum"].as_array() {
        return e.first().cloned().unwrap_or(Value::Null);
    }
    let ty = match &node["type"] {
        Value::String(s) => s.clone(),
        Value::Array(a) => {
            if a.iter().any(|x| x == "null") {
                return Value::Null;
            }
            a.first().and_then(|x| x.as_str()).unwrap_or("").to_string()
        }
        _ => String::new(),
    };
    match ty.as_str() {
        "object" => {
            let mut o = serde_json::Map::new();
            if let (Some(req), Some(props)) = (node["required"].as_array(), node["properties"].as_object()) {
                for r in req {
                    if let Some(n) = r.as_str() {
                        o.insert(n.to_string(), minimal(root, props.get(n).unwrap_or(&Value::Null), n, depth + 1));
                    }
                }
            }
            Value::Object(o)
        }
        "string" => {
            let f = field.to_lowercase();
            if ["addr", "recipient", "admin", "owner", "contract", "creator", "operator", "spender", "sender", "minter", "whitelist", "collection"].iter().any(|p| f.contains(p)) {
                json!(addr(STRANGER))
            } else if f.contains("time") || f.contains("price") || f.contains("amount") {
                json!("1")
            } else {
                json!("x")
            }
        }
        "integer" | "number" => json!(1),
        "boolean" => json!(false),
        "array" => json!([]),
        _ => Value::Null,
    }
}

/// JSON of a variant of `kind` the table does not know, with minimal arguments
fn unknown_msg_json(kind: &str, name: &str) -> Value {
    let Some((root, vs)) = surface().exec.get(kind) else { return json!({ name: {} }) };
    let Some(v) = vs.iter().find(|v| v.name == name) else { return json!({ name: {} }) };
    let mut body = if v.unit { Value::String(name.to_string()) } else { json!({ name: minimal(root, &v.payload, name, 0) }) };
    for p in v.path.iter().rev().skip(1) {
        body = json!({ p.as_str(): body });
    }
    body
}


// ------------------------------------------------------------------------------------------------ the Rust-side table
//
// Independent transcription of the property (for the monitors). Default-deny: a message kind a minter / whitelist /
// group has that is not listed as public here is treated as reserved.

#[derive(Clone, Copy, PartialEq, Eq, Debug)]
enum Cls {
    MinterAdmin,
    CollMinter,
    PendingOwner,
    Creator,
    WlAdmin,
    WlAdminMutable,
    SplitsAdmin,
    SplitsAdminElseMember,
    GroupAdmin,
    MergeSource,
    Anyone,
    Nobody,
    ContractOnly,
    SudoOnly,
}
fn cls_name(c: Cls) -> &'static str {
    match c {
        Cls::MinterAdmin => "minter_admin",
        Cls::CollMinter => "coll_minter",
        Cls::PendingOwner => "pending_owner",
        Cls::Creator => "creator",
        Cls::WlAdmin => "wl_admin",
        Cls::WlAdminMutable => "wl_admin_mutable",
        Cls::SplitsAdmin => "splits_admin",
        Cls::SplitsAdminElseMember => "splits_admin_else_member",
        Cls::GroupAdmin => "group_admin",
        Cls::MergeSource => "merge_source",
        Cls::Anyone => "anyone",
        Cls::Nobody => "nobody",
        Cls::ContractOnly => "contract_only",
        Cls::SudoOnly => "sudo_only",
    }
}

/// DEFAULT-DENY: the class of a message kind the table does not list (a variant found in the schema at run time)
fn default_deny(kind: &str) -> Cls {
    if kind == "m.base" {
        Cls::Creator
    } else if kind.starts_with("m.") {
        Cls::MinterAdmin
    } else if kind.starts_with("c.") {
        Cls::Creator
    } else if kind == "w.immutable" || kind.starts_with("f.") {
        Cls::Nobody // nothing but `create_minter` may be sent to a factory by a user; the immutable whitelist has no messages
    } else if kind.starts_with("w.") {
        Cls::WlAdmin
    } else if kind == "splits" {
        Cls::SplitsAdmin
    } else {
        Cls::GroupAdmin
    }
}

fn rust_principal(kind: &str, msg: &str) -> Cls {
    if msg == "other" {
        return default_deny(kind);
    }
    if !has_msg(kind, msg) {
        // not an execute message of this contract: either the governance message or nothing at all
        let sudo = (kind.starts_with("f.") && msg == "update_params") || (kind.starts_with("m.") && msg == "update_status");
        return if sudo { Cls::SudoOnly } else { Cls::Nobody };
    }
    if kind.starts_with("f.") {
        // create_minter: paid, public. Anything else a factory accepts through `execute` is reserved to governance.
        return if msg == "create_minter" { Cls::Anyone } else { Cls::SudoOnly };
    }
    if kind == "m.base" {
        // "base-minter mints only for the collection creator" (and its trading-time update)
        return if msg == "update_status" { Cls::SudoOnly } else { Cls::Creator };
    }
    if kind.starts_with("m.") {
        return match msg {
            "mint" | "purge" | "shuffle" => Cls::Anyone,
            "receive_nft" => Cls::MergeSource,
            "update_status" => Cls::SudoOnly, // "minter status changes only through governance": also if `execute` had it
            _ => Cls::MinterAdmin, // configuration, airdrops, burn-remaining
        };
    }
    if kind.starts_with("c.") {
        return match msg {
            "mint" | "update_start_trading_time" | "transfer_ownership" | "renounce_ownership" => Cls::CollMinter,
            "accept_ownership" => Cls::PendingOwner,
            "update_collection_info" | "freeze_collection_info" | "freeze_token_metadata" | "update_token_metadata" | "enable_updatable" => Cls::Creator,
            "extension" => Cls::Nobody, // todo!() / unreachable!()
            "transfer_nft" | "send_nft" | "approve" | "revoke" | "approve_all" | "revoke_all" | "burn" => Cls::Anyone, // token-level (C09)
            _ => Cls::Creator,
        };
    }
    if kind.starts_with("w.") {
        return match msg {
            "update_admins" | "freeze" => Cls::WlAdminMutable,
            "increase_member_limit" => Cls::Anyone, // DESIGN §6 C05 note: paid, not reserved
            _ => Cls::WlAdmin,
        };
    }
    if kind == "splits" {
        return match msg {
            "distribute" => Cls::SplitsAdminElseMember,
            _ => Cls::SplitsAdmin,
        };
    }
    Cls::GroupAdmin
}
fn rust_inst_principal(kind: &str) -> Cls {
    if kind.starts_with("m.") || kind.starts_with("c.") {
        Cls::ContractOnly
    } else {
        Cls::Anyone
    }
}

// ------------------------------------------------------------------------------------------------ observations

#[derive(Clone, PartialEq, Debug, Default)]
struct Obs {
    adm: u64,
    own: Option<u64>,
    pend: Option<u64>,
    pex: Option<u64>,
    cr: u64,
    fz: bool,
    wa: Vec<u64>,
    wm: bool,
    sa: Option<u64>,
    mem: Vec<u64>,
    ga: Option<u64>,
    pv: u64,
    st: u64,
}
impl Obs {
    /// `primary ## drift`: the whitelist admin list is compared as a SET (the property constrains who is an admin, not the
    /// stored order or duplicates); the stored order is an observation outside the projection
    fn render(&self) -> String {
        let mut was = self.wa.clone();
        was.sort();
        was.dedup();
        format!(
            "adm={} own={} pend={} pex={} cr={} fz={} wa={} wm={} sa={} mem={} ga={} pv={} st={} ## wa_stored={}",
            self.adm,
            fmt_opt(&self.own),
            fmt_opt(&self.pend),
            fmt_opt(&self.pex),
            self.cr,
            self.fz as u8,
            fmt_list(&was),
            self.wm as u8,
            fmt_opt(&self.sa),
            fmt_list(&self.mem),
            fmt_opt(&self.ga),
            self.pv,
            self.st,
            fmt_list(&self.wa)
        )
    }
    /// the header hands the STORED admin list to the model (it keeps the order; the rendering sorts)
    fn render_header(&self) -> String {
        format!(
            "adm={} own={} pend={} pex={} cr={} fz={} wa={} wm={} sa={} mem={} ga={} pv={} st={}",
            self.adm,
            fmt_opt(&self.own),
            fmt_opt(&self.pend),
            fmt_opt(&self.pex),
            self.cr,
            self.fz as u8,
            fmt_list(&self.wa),
            self.wm as u8,
            fmt_opt(&self.sa),
            fmt_list(&self.mem),
            fmt_opt(&self.ga),
            self.pv,
            self.st
        )
    }
    /// the authorisation part (everything but the governance version numbers), for the ghost comparison
    fn auth_diff(&self, other: &Obs) -> Option<String> {
        let set = |v: &Vec<u64>| {
            let mut x = v.clone();
            x.sort();
            x.dedup();
            x
        };
        macro_rules! d {
            ($f:ident, $name:literal) => {
                if self.$f != other.$f {
                    return Some(format!("{} expected {:?} observed {:?}", $name, self.$f, other.$f));
                }
            };
        }
        d!(adm, "minter admin");
        d!(own, "collection owner (its minter)");
        d!(pend, "pending owner");
        d!(pex, "pending-transfer expiry");
        d!(cr, "collection creator");
        d!(fz, "collection-info frozen flag");
        if set(&self.wa) != set(&other.wa) {
            return Some(format!("whitelist admins expected {:?} observed {:?}", self.wa, other.wa));
        }
        d!(wm, "whitelist admins-mutable flag");
        d!(sa, "splits admin");
        d!(mem, "group members");
        d!(ga, "group admin");
        None
    }
}

/// the guard, evaluated on the harness's own GHOST of the authorisation state (what it created and handed over itself)
fn rust_auth(o: &Obs, merge_sources: &[u64], caller: u64, is_contract: bool, cls: Cls, now: u64) -> bool {
    match cls {
        Cls::MinterAdmin => caller == o.adm,
        Cls::CollMinter => o.own == Some(caller),
        // a pending transfer can be accepted by the appointed account, and only BEFORE its expiry instant
        Cls::PendingOwner => o.pend == Some(caller) && o.pex.map(|t| now < t).unwrap_or(true),
        Cls::Creator => caller == o.cr,
        Cls::WlAdmin => o.wa.contains(&caller),
        Cls::WlAdminMutable => o.wm && o.wa.contains(&caller),
        Cls::SplitsAdmin => o.sa == Some(caller),
        Cls::SplitsAdminElseMember => match o.sa {
            Some(a) => a == caller,
            None => o.mem.contains(&caller),
        },
        Cls::GroupAdmin => o.ga == Some(caller),
        Cls::MergeSource => merge_sources.contains(&caller),
        Cls::Anyone => true,
        Cls::Nobody => false,
        Cls::ContractOnly => is_contract,
        Cls::SudoOnly => false,
    }
}

fn jstr(v: &Value) -> String {
    v.as_str().map(|s| s.to_string()).unwrap_or_default()
}
fn jnanos(v: &Value) -> u64 {
    v.as_str().and_then(|s| s.parse().ok()).unwrap_or(0)
}
fn jamount(v: &Value) -> u128 {
    v["amount"].as_str().and_then(|s| s.parse().ok()).unwrap_or(0)
}
fn opt_id(v: &Value) -> Option<u64> {
    v.as_str().map(addr_id)
}

// ------------------------------------------------------------------------------------------------ the world of one case

struct Wd {
    w: World,
    mk: MinterKind,
    ck: CollKind,
    wk: WlKind,
    factory: String,
    minter: String,
    coll: String,
    wl: String,
    wl2: String,
    group: String,
    splits: String,
    src_coll: Option<String>,
    merge_sources: Vec<u64>,
    params_seen: Vec<String>,
    fparams: FactoryParams,
    create: CreateArgs,
    uniq: u64,
    /// what the harness itself set up (the ghost's initial value): who it named creator / admins / members
    setup: Obs,
}

type Snapshot = (Vec<(String, Vec<(Vec<u8>, Vec<u8>)>)>, Vec<(String, Vec<(String, u128)>)>);

fn wl_args(wk: WlKind, admin: u64, now0: u64) -> WlArgs {
    let st = |i: u64| WlStage {
        start: now0 + 3000 * DAY + i * DAY,
        end: now0 + 3000 * DAY + i * DAY + DAY / 2,
        mint_price: (0, 60_000_000),
        per_address_limit: 2,
        mint_count_limit: Some(50),
        members: vec![(BUYER, 1), (MEMBER1, 2)],
        merkle_root: "a".repeat(if wk == WlKind::TieredMerkle { 32 } else { 64 }),
    };
    let n = if is_tiered(wk) { 2 } else { 1 };
    WlArgs { admin, member_limit: 900, admins_mutable: true, whale_cap: None, stages: (0..n).map(st).collect() }
}

impl Wd {
    fn new(header: &str) -> Result<Wd, String> {
        let mk = kv(header, "mk").and_then(parse_mk).ok_or("mk")?;
        let ck = kv(header, "ck").and_then(parse_ck).ok_or("ck")?;
        let wk = kv(header, "wk").and_then(parse_wk).ok_or("wk")?;
        let n = kv_u64(header, "n").unwrap_or(100) as u32;
        let now0 = GENESIS + 1000;
        let mut w = World::new(now0);
        for r in ROLES {
            w.fund(&addr(r), 0, 1_000_000_000_000_000);
        }
        let p = w.default_params(mk);
        let factory = w.new_factory(mk.factory(), &p)?;
        let mut src_coll = None;
        let mut a = w.default_create(mk, &p);
        a.creator = CREATOR;
        // mig=1: the collection is created as sg721-base and then migrated to sg721-updatable by its wasm admin (the
        // creator) — the only way to reach `enable_updatable = false`, where `EnableUpdatable` can succeed
        let mig = kv_u64(header, "mig") == Some(1) && ck == CollKind::Updatable;
        a.sg721_code_id = if mig { w.codes.sg721_base } else { w.coll_code(ck) };
        a.num_tokens = Some(n);
        a.per_address_limit = 3;
        a.start_time = now0 + 30 * DAY;
        if mk.is_open_edition() {
            a.end_time = Some(a.start_time + 300 * DAY);
        }
        if mk == MinterKind::TokenMerge {
            // a source collection (base minter world), a few of whose tokens are parked at the merge minter later
            let pb = w.default_params(MinterKind::Base);
            let fb = w.new_factory(FactoryKind::Base, &pb)?;
            let ab = w.default_create(MinterKind::Base, &pb);
            let (_mb, cb) = w.create_minter(&fb, MinterKind::Base, &ab)?;
            a.mint_tokens = vec![(cb.clone(), 1)];
            src_coll = Some((cb, _mb, pb));
        }
        let (minter, coll) = w.create_minter(&factory, mk, &a)?;
        if mig {
            let code = w.codes.sg721_updatable;
            w.migrate(&addr(CREATOR), &coll, code, &json!({}))?;
        }
        let mut src = None;
        let mut merge_sources = vec![];
        if let Some((cb, mb, pb)) = src_coll {
            let fee = pb.min_mint_price.1 * pb.mint_fee_bps as u128 / 10_000;
            for i in 0..40 {
                w.exec(&addr(CREATOR), &mb, &json!({"mint":{"token_uri": format!("ipfs://src/{i}")}}), &[(0, fee)])?;
                w.exec(&addr(CREATOR), &cb, &json!({"transfer_nft":{"recipient": minter, "token_id": (i + 1).to_string()}}), &[])?;
            }
            merge_sources.push(addr_id(&cb));
            src = Some(cb);
        }
        let wl = w.new_whitelist(wk, &wl_args(wk, WL_ADMIN, now0))?;
        let wl2 = w.new_whitelist(wk, &wl_args(wk, WL_ADMIN, now0))?;
        let group = w.instantiate(
            w.codes.cw4_group,
            &addr(GROUP_ADMIN),
            &json!({"admin": addr(GROUP_ADMIN), "members": [{"addr": addr(MEMBER1), "weight": 2}, {"addr": addr(MEMBER2), "weight": 1}]}),
            &[],
            None,
        )?;
        let splits = w.instantiate(w.codes.splits, &addr(SPLITS_ADMIN), &json!({"admin": addr(SPLITS_ADMIN), "group": {"cw4_address": group}}), &[], None)?;
        w.fund(&splits, 0, 3_000_000);
        // contracts act as callers too: give them something to attach as funds
        for c in [&factory, &minter, &coll, &wl, &group] {
            w.fund(c, 0, 1_000_000_000_000);
        }
        if mk == MinterKind::TokenMerge {
            // one token of the merge minter's OWN collection parked at the minter: a collection that is NOT a configured
            // source then holds a token the minter could burn, so `receive_nft` sent by that collection is otherwise valid
            // (a dozen: the sweeps of the public token-level rows let the minter contract move / burn its own tokens)
            for _ in 0..12 {
                let r = w.exec(&addr(CREATOR), &minter, &json!({"mint_to":{"recipient": minter}}), &[]);
                if std::env::var("C05_DEBUG").is_ok() {
                    eprintln!("park own-collection token at the merge minter: {:?}", r.as_ref().map(|_| "ok").map_err(|e| e.replace('\n', " ")));
                }
            }
        }
        let setup = Obs {
            adm: if mk == MinterKind::Base { 0 } else { CREATOR }, // the base minter has no admin of its own (its rows belong to the creator)
            own: Some(addr_id(&minter)),
            pend: None,
            pex: None,
            cr: CREATOR,
            fz: false,
            wa: if wk == WlKind::Immutable { vec![] } else { vec![WL_ADMIN] },
            wm: wk != WlKind::Immutable,
            sa: Some(SPLITS_ADMIN),
            mem: vec![MEMBER1, MEMBER2],
            ga: Some(GROUP_ADMIN),
            pv: 0,
            st: 0,
        };
        Ok(Wd { w, mk, ck, wk, factory, minter, coll, wl, wl2, group, splits, src_coll: src, merge_sources, params_seen: vec![], fparams: p, create: a, uniq: 0, setup })
    }

    fn contracts(&self) -> Vec<String> {
        let mut v = vec![];
        for i in 0..200u64 {
            let a = format!("contract{i}");
            if self.w.app.contract_data(&Addr::unchecked(&a)).is_err() {
                break;
            }
            v.push(a);
        }
        v
    }
    fn is_contract(&self, id: u64) -> bool {
        id >= 1000 && self.w.app.contract_data(&Addr::unchecked(addr(id))).is_ok()
    }

    fn target(&self, kind: &str) -> Option<String> {
        Some(if kind == fk_tok(self.mk.factory()) {
            self.factory.clone()
        } else if kind == mk_tok(self.mk) {
            self.minter.clone()
        } else if kind == ck_tok(self.ck) {
            self.coll.clone()
        } else if kind == wk_tok(self.wk) {
            self.wl.clone()
        } else if kind == "splits" {
            self.splits.clone()
        } else if kind == "group" {
            self.group.clone()
        } else {
            return None;
        })
    }

    fn snapshot(&self) -> Snapshot {
        let cs = self.contracts();
        let dumps = cs.iter().map(|c| (c.clone(), self.w.dump(c))).collect();
        let mut accts: Vec<String> = ROLES.iter().map(|r| addr(*r)).collect();
        accts.extend((1..=4).map(addr));
        accts.push(addr(90));
        accts.push(addr(60));
        accts.extend(cs);
        let bals = accts
            .into_iter()
            .map(|a| {
                let mut b: Vec<(String, u128)> =
                    self.w.app.wrap().query_all_balances(&a).unwrap_or_default().into_iter().map(|c| (c.denom, c.amount.u128())).collect();
                b.sort();
                (a, b)
            })
            .collect();
        (dumps, bals)
    }

    fn raw(&self, contract: &str, key: &[u8]) -> Option<Vec<u8>> {
        self.w.app.wrap().query_wasm_raw(contract, key.to_vec()).ok().flatten()
    }

    fn params_json(&self) -> String {
        self.w.query(&self.factory, &json!({"params":{}})).map(|v| v.to_string()).unwrap_or_else(|e| format!("ERR {e}"))
    }
    fn status_bits(&self) -> u64 {
        let s = self.w.query(&self.minter, &json!({"status":{}})).unwrap_or(Value::Null);
        let st = &s["status"];
        (st["is_verified"].as_bool().unwrap_or(false) as u64) | (st["is_blocked"].as_bool().unwrap_or(false) as u64) << 1 | (st["is_explicit"].as_bool().unwrap_or(false) as u64) << 2
    }

    fn obs(&mut self) -> Obs {
        let mut o = Obs::default();
        let cfg = self.w.query(&self.minter, &json!({"config":{}})).unwrap_or(Value::Null);
        o.adm = cfg["admin"].as_str().map(addr_id).unwrap_or(0);
        // cw_ownable state through the contract's own `ownership` query where the kind has it; sg721-updatable / sg721-nt
        // only expose `minter` (= the owner; they have no transfer, so nothing is ever pending)
        match self.w.query(&self.coll, &json!({"ownership":{}})) {
            Ok(v) => {
                o.own = opt_id(&v["owner"]);
                o.pend = opt_id(&v["pending_owner"]);
                o.pex = v["pending_expiry"]["at_time"].as_str().and_then(|s| s.parse().ok());
            }
            Err(_) => {
                let v = self.w.query(&self.coll, &json!({"minter":{}})).unwrap_or(Value::Null);
                o.own = opt_id(&v["minter"]);
            }
        }
        let ci = self.w.query(&self.coll, &json!({"collection_info":{}})).unwrap_or(Value::Null);
        o.cr = ci["creator"].as_str().map(addr_id).unwrap_or(0);
        // no query exposes the frozen flag: read it through the crate's own typed storage item (key and codec are the repo's)
        let frozen_key = sg721_base::Sg721Contract::<cw721_base::Extension>::default().frozen_collection_info.as_slice().to_vec();
        o.fz = self.raw(&self.coll, &frozen_key).and_then(|v| cosmwasm_std::from_json::<bool>(&v).ok()).unwrap_or(false);
        if self.wk != WlKind::Immutable {
            let al = self.w.query(&self.wl, &json!({"admin_list":{}})).unwrap_or(Value::Null);
            o.wa = al["admins"].as_array().map(|a| a.iter().map(|x| addr_id(&jstr(x))).collect()).unwrap_or_default();
            o.wm = al["mutable"].as_bool().unwrap_or(false);
        }
        let sa = self.w.query(&self.splits, &json!({"admin":{}})).unwrap_or(Value::Null);
        o.sa = opt_id(&sa["admin"]);
        // every page of the cw4 member list (the contract caps a page at 30)
        let mut after: Option<String> = None;
        loop {
            let ms = self.w.query(&self.group, &json!({"list_members":{"limit": 30, "start_after": after}})).unwrap_or(Value::Null);
            let page: Vec<String> = ms["members"].as_array().map(|a| a.iter().map(|x| jstr(&x["addr"])).collect()).unwrap_or_default();
            if page.is_empty() {
                break;
            }
            o.mem.extend(page.iter().map(|a| addr_id(a)));
            after = page.last().cloned();
            if page.len() < 30 {
                break;
            }
        }
        o.mem.sort();
        let ga = self.w.query(&self.group, &json!({"admin":{}})).unwrap_or(Value::Null);
        o.ga = opt_id(&ga["admin"]);
        let pj = self.params_json();
        o.pv = match self.params_seen.iter().position(|x| *x == pj) {
            Some(i) => i as u64,
            None => {
                self.params_seen.push(pj);
                (self.params_seen.len() - 1) as u64
            }
        };
        o.st = self.status_bits();
        o
    }
}

// ------------------------------------------------------------------------------------------------ messages (otherwise valid)

fn b64(v: &Value) -> String {
    cosmwasm_std::Binary::from(serde_json::to_vec(v).unwrap()).to_base64()
}
fn ts(n: u64) -> Value {
    Value::String(n.to_string())
}
fn ids(line: &str, key: &str) -> Vec<u64> {
    kv_list(line, key).unwrap_or_default().into_iter().map(|x| x as u64).collect()
}

/// argument ladder: `alt=0` is the smallest change today's validation accepts; higher rungs are coarser, so that a
/// tightened (unrelated) validation rule does not make the principal's call fail and the row lose its coverage
fn alt_dt(alt: u64) -> u64 {
    match alt {
        0 => 1000,
        1 => HOUR,
        2 => DAY,
        _ => 3 * DAY,
    }
}
const MAX_ALT: u64 = 3;

impl Wd {
    fn next_uniq(&mut self) -> u64 {
        self.uniq += 1;
        self.uniq
    }
    /// a token of the collection: one owned by `caller` if there is one, else any, else "1"
    fn a_token(&self, caller: &str) -> String {
        let own = self.w.query(&self.coll, &json!({"tokens":{"owner": caller, "limit": 1}})).unwrap_or(Value::Null);
        if let Some(t) = own["tokens"].as_array().and_then(|a| a.first()) {
            return jstr(t);
        }
        let all = self.w.query(&self.coll, &json!({"all_tokens":{"limit": 1}})).unwrap_or(Value::Null);
        all["tokens"].as_array().and_then(|a| a.first()).map(jstr).unwrap_or_else(|| "1".into())
    }

    fn minter_msg(&mut self, msg: &str, line: &str, caller: &str) -> (Value, Vec<(u64, u128)>) {
        let cfg = self.w.query(&self.minter, &json!({"config":{}})).unwrap_or(Value::Null);
        let now = self.w.time();
        let alt = kv_u64(line, "alt").unwrap_or(0);
        let dt = alt_dt(alt);
        let start = jnanos(&cfg["start_time"]);
        let price = jamount(&cfg["mint_price"]);
        let minp = self.fparams.min_mint_price.1;
        let u = self.next_uniq();
        match msg {
            "mint" => {
                if self.mk == MinterKind::Base {
                    let fee = self.fparams.min_mint_price.1 * self.fparams.mint_fee_bps as u128 / 10_000;
                    (json!({"mint":{"token_uri": format!("ipfs://base/{u}")}}), vec![(0, fee)])
                } else {
                    let mp = self.w.query(&self.minter, &json!({"mint_price":{}})).unwrap_or(Value::Null);
                    let cur = jamount(&mp["current_price"]);
                    let m = if self.mk.is_merkle() { json!({"mint":{"stage": null, "proof_hashes": null, "allocation": null}}) } else { json!({"mint":{}}) };
                    (m, if cur > 0 { vec![(0, cur)] } else { vec![] })
                }
            }
            "set_whitelist" => (json!({"set_whitelist":{"whitelist": self.wl2}}), vec![]),
            "purge" => (json!({"purge":{}}), vec![]),
            "update_mint_price" => {
                let p = match alt {
                    0 => price.saturating_sub(1000).max(minp),
                    1 => price,
                    2 => minp,
                    _ => price.saturating_sub(price / 10).max(minp),
                };
                (json!({"update_mint_price":{"price": p.to_string()}}), vec![])
            }
            "update_start_time" => (json!({"update_start_time": ts(start.max(now) + dt)}), vec![]),
            "update_end_time" => (json!({"update_end_time": ts(jnanos(&cfg["end_time"]).max(now) + dt)}), vec![]),
            "update_start_trading_time" => (json!({"update_start_trading_time": ts(now + dt)}), vec![]),
            "update_per_address_limit" => {
                let cur = cfg["per_address_limit"].as_u64().unwrap_or(3);
                (json!({"update_per_address_limit":{"per_address_limit": if cur == 3 { 2 } else { 3 }}}), vec![])
            }
            "mint_to" => {
                let ap = self.fparams.airdrop_mint_price.1;
                (json!({"mint_to":{"recipient": addr(BUYER)}}), if ap > 0 { vec![(0, ap)] } else { vec![] })
            }
            "mint_for" => {
                let n = cfg["num_tokens"].as_u64().unwrap_or(1).max(1);
                // a token id that is still mintable: not among the collection's existing tokens (burnt ones are caught by the ladder)
                let minted: BTreeSet<String> = {
                    let mut out = BTreeSet::new();
                    let mut after: Option<String> = None;
                    loop {
                        let q = self.w.query(&self.coll, &json!({"all_tokens":{"limit": 100, "start_after": after}})).unwrap_or(Value::Null);
                        let page: Vec<String> = q["tokens"].as_array().map(|a| a.iter().map(jstr).collect()).unwrap_or_default();
                        if page.is_empty() {
                            break;
                        }
                        after = page.last().cloned();
                        let full = page.len() >= 100;
                        out.extend(page);
                        if !full {
                            break;
                        }
                    }
                    out
                };
                let free = (0..n).map(|i| (u * 37 + alt * 17 + i) % n + 1).find(|t| !minted.contains(&t.to_string()));
                let tid = kv_u64(line, "tid").unwrap_or(free.unwrap_or((u * 37) % n + 1));
                let ap = self.fparams.airdrop_mint_price.1;
                (json!({"mint_for":{"token_id": tid, "recipient": addr(BUYER)}}), if ap > 0 { vec![(0, ap)] } else { vec![] })
            }
            "shuffle" => (json!({"shuffle":{}}), vec![self.fparams.shuffle_fee]),
            "burn_remaining" => (json!({"burn_remaining":{}}), vec![]),
            "update_discount_price" => {
                let p = match alt {
                    0 => price.saturating_sub(2000).max(minp),
                    1 => minp,
                    _ => price,
                };
                (json!({"update_discount_price":{"price": p.to_string()}}), vec![])
            }
            "remove_discount_price" => (json!({"remove_discount_price":{}}), vec![]),
            "receive_nft" => {
                // a token parked at the minter in the collection that SENDS the message if the caller is a collection of
                // this world (so that the burn sub-message can succeed), else one of the source collection
                let from = if caller == self.coll { Some(self.coll.clone()) } else { self.src_coll.clone() };
                let tok = match &from {
                    Some(sc) => {
                        let q = self.w.query(sc, &json!({"tokens":{"owner": self.minter, "limit": 1}})).unwrap_or(Value::Null);
                        q["tokens"].as_array().and_then(|a| a.first()).map(jstr).unwrap_or_else(|| "1".into())
                    }
                    None => "1".into(),
                };
                // `sender` is a caller-controlled FIELD (the account that sent the NFT): sv=1 names the configured source
                // collection there — a guard that looks at the field instead of `info.sender` would accept it
                let (snd, rcp) = if kv_u64(line, "sv") == Some(1) {
                    (self.src_coll.clone().unwrap_or_else(|| self.coll.clone()), Value::String(addr(6000 + u)))
                } else {
                    (addr(6000 + u), Value::Null)
                };
                (json!({"receive_nft":{"sender": snd, "token_id": tok, "msg": b64(&json!({"deposit_token":{"recipient": rcp}}))}}), vec![])
            }
            "update_status" => (json!({"update_status":{"is_verified": true, "is_blocked": true, "is_explicit": true}}), vec![]),
            other => (json!({ other: {} }), vec![]),
        }
    }

    fn coll_msg(&mut self, msg: &str, line: &str, caller: &str) -> (Value, Vec<(u64, u128)>) {
        let now = self.w.time();
        let alt = kv_u64(line, "alt").unwrap_or(0);
        let u = self.next_uniq();
        let unit = matches!(self.ck, CollKind::Base | CollKind::MetadataOnchain);
        let other = if caller == addr(STRANGER) { addr(BUYER) } else { addr(STRANGER) };
        let v = match msg {
            "transfer_nft" => json!({"transfer_nft":{"recipient": other, "token_id": self.a_token(caller)}}),
            "send_nft" => json!({"send_nft":{"contract": self.minter, "token_id": self.a_token(caller), "msg": b64(&json!({"deposit_token":{"recipient": null}}))}}),
            "approve" => json!({"approve":{"spender": other, "token_id": self.a_token(caller), "expires": null}}),
            "revoke" => json!({"revoke":{"spender": other, "token_id": self.a_token(caller)}}),
            "approve_all" => json!({"approve_all":{"operator": other, "expires": null}}),
            "revoke_all" => json!({"revoke_all":{"operator": other}}),
            "mint" => {
                let ext = if self.ck == CollKind::MetadataOnchain { json!({"name": "x"}) } else { Value::Null };
                json!({"mint":{"token_id": format!("x{u}"), "owner": addr(BUYER), "token_uri": "ipfs://x/1", "extension": ext}})
            }
            "burn" => json!({"burn":{"token_id": self.a_token(caller)}}),
            "extension" => json!({"extension":{"msg":{}}}),
            "update_collection_info" => {
                let nc = kv_opt_u64(line, "nc").flatten().map(addr);
                let body = json!({"description": null, "image": null, "external_link": null, "explicit_content": null, "royalty_info": null, "creator": nc});
                if self.ck == CollKind::Nt {
                    json!({"update_collection_info":{"new_collection_info": body}})
                } else {
                    json!({"update_collection_info":{"collection_info": body}})
                }
            }
            "update_start_trading_time" => json!({"update_start_trading_time": ts(now + 2 * alt_dt(alt))}),
            "freeze_collection_info" => {
                if unit {
                    json!("freeze_collection_info")
                } else {
                    json!({"freeze_collection_info":{}})
                }
            }
            "transfer_ownership" => {
                let no = addr(kv_u64(line, "no").unwrap_or(STRANGER));
                let ex = kv_opt_u64(line, "ex").flatten().map(|t| json!({"at_time": t.to_string()}));
                json!({"update_ownership":{"transfer_ownership":{"new_owner": no, "expiry": ex}}})
            }
            "accept_ownership" => json!({"update_ownership": "accept_ownership"}),
            "renounce_ownership" => json!({"update_ownership": "renounce_ownership"}),
            "freeze_token_metadata" => json!({"freeze_token_metadata":{}}),
            "update_token_metadata" => json!({"update_token_metadata":{"token_id": self.a_token(caller), "token_uri": format!("ipfs://new/{u}")}}),
            "enable_updatable" => json!({"enable_updatable":{}}),
            other => json!({ other: {} }),
        };
        // the fee is another property's business: ask the contract (query), fall back to a ladder of amounts
        let funds = if msg == "enable_updatable" {
            let asked = self.w.query(&self.coll, &json!({"enable_updatable_fee":{}})).ok().and_then(|v| v.as_str().and_then(|s| s.parse::<u128>().ok()).or(Some(jamount(&v)))).filter(|a| *a > 0);
            let ladder = [1_500_000_000u128, 1_000_000_000, 2_000_000_000, 5_000_000_000];
            vec![(0, if alt == 0 { asked.unwrap_or(ladder[0]) } else { ladder[(alt as usize) % ladder.len()] })]
        } else {
            vec![]
        };
        (v, funds)
    }

    fn stage_json(&self, i: usize, start: u64, end: u64) -> Value {
        let mut v = json!({"name": format!("stage{}", i + 1), "start_time": ts(start), "end_time": ts(end),
            "mint_price": jcoin((0, 60_000_000)), "mint_count_limit": 50});
        if self.wk != WlKind::TieredFlex {
            v["per_address_limit"] = json!(2);
        }
        v
    }

    fn wl_msg(&mut self, msg: &str, line: &str) -> (Value, Vec<(u64, u128)>) {
        let cfg = self.w.query(&self.wl, &json!({"config":{}})).unwrap_or(Value::Null);
        let now = self.w.time();
        let dt = alt_dt(kv_u64(line, "alt").unwrap_or(0));
        let u = self.next_uniq();
        let flex = matches!(self.wk, WlKind::Flex | WlKind::TieredFlex);
        let tiered = is_tiered(self.wk);
        let fresh = addr(5000 + u);
        let stages: Vec<Value> = if tiered {
            let q = self.w.query(&self.wl, &json!({"stages":{}})).unwrap_or(Value::Null);
            q["stages"].as_array().map(|a| a.iter().map(|s| s["stage"].clone()).collect()).unwrap_or_default()
        } else {
            vec![]
        };
        let v = match msg {
            "update_start_time" => json!({"update_start_time": ts(jnanos(&cfg["start_time"]).max(now) + dt)}),
            "update_end_time" => {
                let (s, e) = (jnanos(&cfg["start_time"]), jnanos(&cfg["end_time"]));
                json!({"update_end_time": ts(if now >= s { e.saturating_sub(dt) } else { e + dt })})
            }
            "add_members" => {
                let m = if flex { json!([{"address": fresh, "mint_count": 1}]) } else { json!([fresh]) };
                if tiered {
                    json!({"add_members":{"to_add": m, "stage_id": 0}})
                } else {
                    json!({"add_members":{"to_add": m}})
                }
            }
            "remove_members" => {
                // a current member of (stage 0 of) the list
                let q = if tiered { json!({"members":{"limit": 1, "stage_id": 0}}) } else { json!({"members":{"limit": 1}}) };
                let ms = self.w.query(&self.wl, &q).unwrap_or(Value::Null);
                let first = ms["members"].as_array().and_then(|a| a.first()).cloned().unwrap_or(Value::Null);
                let who = if first.is_string() { jstr(&first) } else { first["address"].as_str().map(|s| s.to_string()).unwrap_or_else(|| addr(BUYER)) };
                if tiered {
                    json!({"remove_members":{"to_remove": [who], "stage_id": 0}})
                } else {
                    json!({"remove_members":{"to_remove": [who]}})
                }
            }
            "update_per_address_limit" => json!({"update_per_address_limit": if cfg["per_address_limit"].as_u64() == Some(3) { 4 } else { 3 }}),
            "increase_member_limit" => json!({"increase_member_limit": cfg["member_limit"].as_u64().unwrap_or(900) + 1}),
            "update_admins" => json!({"update_admins":{"admins": ids(line, "al").into_iter().map(addr).collect::<Vec<_>>()}}),
            "freeze" => json!({"freeze":{}}),
            "add_stage" => {
                let last_end = stages.last().map(|s| jnanos(&s["end_time"])).unwrap_or(now).max(now);
                let st = self.stage_json(stages.len(), last_end + dt, last_end + dt + HOUR);
                let m = if flex { json!([{"address": fresh, "mint_count": 1}]) } else { json!([fresh]) };
                json!({"add_stage":{"stage": st, "members": m}})
            }
            "remove_stage" => json!({"remove_stage":{"stage_id": stages.len().saturating_sub(1)}}),
            "update_stage_config" => json!({"update_stage_config":{"stage_id": 0, "name": format!("renamed{u}")}}),
            other => json!({ other: {} }),
        };
        let mut funds = vec![];
        if msg == "increase_member_limit" {
            let cur = cfg["member_limit"].as_u64().unwrap_or(900) as u32;
            let fee = World::wl_fee(self.wk, cur + 1).saturating_sub(World::wl_fee(self.wk, cur));
            if fee > 0 {
                funds.push((0, fee));
            }
        }
        (v, funds)
    }

    fn build_msg(&mut self, kind: &str, msg: &str, line: &str, caller: &str) -> (Value, Vec<(u64, u128)>) {
        if msg == "other" {
            // a variant the table does not know: minimal arguments from the repo's JSON schema, no funds
            return (unknown_msg_json(kind, kv(line, "mn").unwrap_or("")), vec![]);
        }
        if kind.starts_with("m.") {
            self.minter_msg(msg, line, caller)
        } else if kind.starts_with("c.") {
            self.coll_msg(msg, line, caller)
        } else if kind.starts_with("w.") {
            self.wl_msg(msg, line)
        } else if kind.starts_with("f.") {
            match msg {
                "create_minter" => {
                    let mut a = self.create.clone();
                    a.creator = addr_id(caller);
                    a.start_time = self.create.start_time.max(self.w.time()) + DAY;
                    if self.mk.is_open_edition() {
                        a.end_time = Some(a.start_time + 30 * DAY);
                    }
                    a.num_tokens = Some(5);
                    (create_minter_json(self.mk, &a), vec![self.fparams.creation_fee])
                }
                _ => {
                    let ext = if self.mk.factory() == FactoryKind::Base { Value::Null } else { json!({}) };
                    (json!({"update_params":{"max_trading_offset_secs": 5, "extension": ext}}), vec![])
                }
            }
        } else if kind == "splits" {
            match msg {
                "update_admin" => (json!({"update_admin":{"admin": kv_opt_u64(line, "na").flatten().map(addr)}}), vec![]),
                _ => (json!({"distribute":{"denom_list": null}}), vec![]),
            }
        } else {
            match msg {
                "update_admin" => (json!({"update_admin":{"admin": kv_opt_u64(line, "na").flatten().map(addr)}}), vec![]),
                "update_members" => (
                    json!({"update_members":{"remove": ids(line, "rm").into_iter().map(addr).collect::<Vec<_>>(),
                        "add": ids(line, "add").into_iter().map(|a| json!({"addr": addr(a), "weight": 1})).collect::<Vec<_>>()}}),
                    vec![],
                ),
                "add_hook" => (json!({"add_hook":{"addr": addr(STRANGER)}}), vec![]),
                _ => (json!({"remove_hook":{"addr": addr(STRANGER)}}), vec![]),
            }
        }
    }

    /// instantiate message + code id + funds for a fresh contract of `kind`
    fn inst_msg(&mut self, kind: &str, caller: &str, line: &str) -> Option<(u64, Value, Vec<(u64, u128)>)> {
        let now = self.w.time();
        // `mt` = the address named in the `minter` FIELD of a collection's instantiate message (caller-controlled; the
        // property is about the SENDER): the sender itself when absent
        let named_minter = kv_u64(line, "mt").map(addr).unwrap_or_else(|| caller.to_string());
        if let Some(mk) = parse_mk(kind) {
            let p = self.w.default_params(mk);
            let mut a = self.w.default_create(mk, &p);
            a.creator = CREATOR;
            a.num_tokens = Some(5);
            a.start_time = self.create.start_time.max(now) + DAY;
            if mk.is_open_edition() {
                a.end_time = Some(a.start_time + 30 * DAY);
            }
            if mk == MinterKind::TokenMerge {
                a.mint_tokens = vec![(self.src_coll.clone().unwrap_or_else(|| self.coll.clone()), 1)];
            }
            let m = create_minter_json(mk, &a)["create_minter"].clone();
            return Some((self.w.codes.minters[mk.idx()], m, vec![]));
        }
        if let Some(ck) = parse_ck(kind) {
            let a = self.create.clone();
            let info = collection_params_json(&a)["info"].clone();
            return Some((self.w.coll_code(ck), json!({"name": "Direct", "symbol": "DIR", "minter": named_minter, "collection_info": info}), vec![]));
        }
        if let Some(wk) = parse_wk(kind) {
            let args = wl_args(wk, addr_id(caller), now);
            let fee = World::wl_fee(wk, args.member_limit);
            return Some((self.w.wl_code(wk), wl_instantiate_json(wk, &args), if fee > 0 { vec![(0, fee)] } else { vec![] }));
        }
        if let Some(fk) = ALL_FACT.iter().copied().find(|f| fk_tok(*f) == kind) {
            let mk = match fk {
                FactoryKind::Base => MinterKind::Base,
                FactoryKind::Vending => MinterKind::Vending,
                FactoryKind::OpenEdition => MinterKind::OpenEdition,
                FactoryKind::TokenMerge => MinterKind::TokenMerge,
            };
            let p = self.w.default_params(mk);
            return Some((self.w.factory_code(fk), json!({"params": p.to_json(fk)}), vec![]));
        }
        match kind {
            "group" => Some((self.w.codes.cw4_group, json!({"admin": caller, "members": [{"addr": addr(MEMBER1), "weight": 1}]}), vec![])),
            "splits" => Some((self.w.codes.splits, json!({"admin": caller, "group": {"cw4_address": self.group}}), vec![])),
            _ => None,
        }
    }
}

// ------------------------------------------------------------------------------------------------ Sut

#[derive(Clone, Debug, Default)]
#[allow(dead_code)]
struct LastOp {
    kind: String,
    msg: String,
    caller: u64,
    is_contract: bool,
    cls: Option<Cls>,
    authorised: bool,
    ok: bool,
    err: String,
    /// the row's principal had already been handed over (or, for minter-admin rows, creator ≠ admin) when the call was made
    post_epoch: bool,
}

struct S {
    wd: Option<Wd>,
    /// last observation of the real contracts
    cur: Obs,
    /// the harness's own bookkeeping of the authorisation state: what it set up, plus the hand-overs it sent itself and
    /// saw succeed. The monitors decide "is this caller the principal" from THIS, never from the contracts' answers.
    ghost: Obs,
    /// ghost at the beginning of the case (to tell "before / after the hand-over" per principal)
    init: Obs,
    snap: Option<Snapshot>,
    finding: Option<(String, String)>,
    frozen_admins: Option<Vec<u64>>,
    last: LastOp,
    notes: BTreeSet<String>,
}

/// "after hand-over" for a row of class `cls`: the principal the row is reserved to is no longer the one of the fresh world
fn post_epoch(cls: Cls, g: &Obs, init: &Obs) -> bool {
    let set = |v: &Vec<u64>| {
        let mut x = v.clone();
        x.sort();
        x.dedup();
        x
    };
    match cls {
        Cls::MinterAdmin => g.cr != g.adm, // the state in which "minter admin" and "collection creator" are different accounts
        Cls::Creator => g.cr != init.cr,
        Cls::CollMinter | Cls::PendingOwner => g.own != init.own,
        Cls::WlAdmin | Cls::WlAdminMutable => set(&g.wa) != set(&init.wa),
        Cls::SplitsAdmin | Cls::SplitsAdminElseMember => g.sa != init.sa,
        Cls::GroupAdmin => g.ga != init.ga,
        _ => false,
    }
}
/// classes whose principal can be handed over (or can come apart from the creator): the guard must ALSO be seen working
/// after that
fn needs_post(cls: Cls) -> bool {
    matches!(cls, Cls::MinterAdmin | Cls::Creator | Cls::CollMinter | Cls::WlAdmin | Cls::WlAdminMutable | Cls::SplitsAdmin | Cls::SplitsAdminElseMember | Cls::GroupAdmin)
}
fn reservable(cls: Cls) -> bool {
    !matches!(cls, Cls::Anyone | Cls::Nobody | Cls::SudoOnly)
}

impl S {
    fn new() -> S {
        S { wd: None, cur: Obs::default(), ghost: Obs::default(), init: Obs::default(), snap: None, finding: None, frozen_admins: None, last: LastOp::default(), notes: BTreeSet::new() }
    }
    fn flag(&mut self, key: String, what: String) {
        if self.finding.is_none() {
            self.finding = Some((key, what));
        }
    }
    /// bookkeeping common to every op: post-observation, ghost comparison, frozen-admins monitor
    fn after(&mut self, line: &str) -> Obs {
        let post = self.wd.as_mut().unwrap().obs();
        // the authorisation state may only move the way the harness's own successful hand-over messages moved it
        if let Some(d) = self.ghost.auth_diff(&post) {
            self.flag(
                format!("{}/{}/auth-state-changed-outside-handover", self.last.kind, self.last.msg),
                format!("after `{line}` (ok={}) the authorisation state is not what the hand-overs sent so far produce: {d}", self.last.ok),
            );
            let (pv, st) = (self.ghost.pv, self.ghost.st);
            self.ghost = post.clone();
            self.ghost.pv = pv;
            self.ghost.st = st;
        }
        if let Some(fa) = self.frozen_admins.clone() {
            let set = |v: &Vec<u64>| {
                let mut x = v.clone();
                x.sort();
                x.dedup();
                x
            };
            if post.wm || set(&post.wa) != set(&fa) {
                self.flag(
                    format!("{}/{}/frozen-admin-list-changed", self.last.kind, self.last.msg),
                    format!("whitelist admin list was frozen at {:?}, now admins={:?} mutable={} after `{line}`", fa, post.wa, post.wm),
                );
            }
        } else if !self.ghost.wm && self.wd.as_ref().unwrap().wk != WlKind::Immutable {
            self.frozen_admins = Some(self.ghost.wa.clone());
        }
        self.cur = post.clone();
        post
    }
    /// a failed call must leave every contract's raw storage and every balance byte-identical. (cw-multi-test rolls a failed
    /// transaction back by construction, so this can only fire after a panic that leaves the `App` half-written: it guards
    /// the harness's own assumption, it is NOT evidence for the property's "changes nothing".)
    fn check_unchanged(&mut self, pre: &Snapshot, line: &str) {
        let post = self.wd.as_ref().unwrap().snapshot();
        if *pre != post {
            let mut what = String::new();
            for (a, b) in pre.0.iter().zip(post.0.iter()) {
                if a != b {
                    what = format!("raw storage of {} differs", a.0);
                    break;
                }
            }
            if what.is_empty() && pre.0.len() != post.0.len() {
                what = format!("number of contracts {} -> {}", pre.0.len(), post.0.len());
            }
            if what.is_empty() {
                for (a, b) in pre.1.iter().zip(post.1.iter()) {
                    if a != b {
                        what = format!("balance of {} {:?} -> {:?}", a.0, a.1, b.1);
                        break;
                    }
                }
            }
            self.flag(format!("{}/{}/failed-call-changed-state", self.last.kind, self.last.msg), format!("failed call `{line}` changed state: {what}"));
            self.snap = None;
        } else {
            self.snap = Some(post);
        }
    }
    fn take_snap(&mut self) -> Snapshot {
        match self.snap.take() {
            Some(s) => s,
            None => self.wd.as_ref().unwrap().snapshot(),
        }
    }
    /// no execute / user instantiate may change factory Params or minter Status
    fn check_gov_frame(&mut self, pre: &Obs, pre_params: &str, line: &str) {
        let (pj, st) = {
            let wd = self.wd.as_ref().unwrap();
            (wd.params_json(), wd.status_bits())
        };
        if pj != pre_params {
            self.flag(format!("{}/{}/execute-changed-params", self.last.kind, self.last.msg), format!("`{line}` changed factory params: {pre_params} -> {pj}"));
        }
        if st != pre.st {
            self.flag(format!("{}/{}/execute-changed-status", self.last.kind, self.last.msg), format!("`{line}` changed minter status {} -> {}", pre.st, st));
        }
    }
    /// the effect of a hand-over message the harness sent itself and saw succeed, on its own bookkeeping
    fn ghost_handover(&mut self, kind: &str, msg: &str, line: &str) {
        let fam = kind.split('.').next().unwrap_or("");
        let g = &mut self.ghost;
        match (fam, msg) {
            ("c", "update_collection_info") => {
                if let Some(Some(nc)) = kv_opt_u64(line, "nc") {
                    g.cr = nc;
                }
            }
            ("c", "freeze_collection_info") => g.fz = true,
            ("c", "transfer_ownership") => {
                g.pend = Some(kv_u64(line, "no").unwrap_or(STRANGER));
                g.pex = kv_opt_u64(line, "ex").flatten();
            }
            ("c", "accept_ownership") => {
                g.own = g.pend;
                g.pend = None;
                g.pex = None;
            }
            ("c", "renounce_ownership") => {
                g.own = None;
                g.pend = None;
                g.pex = None;
            }
            ("w", "update_admins") => g.wa = ids(line, "al"),
            ("w", "freeze") => g.wm = false,
            ("splits", "update_admin") => g.sa = kv_opt_u64(line, "na").flatten(),
            ("group", "update_admin") => g.ga = kv_opt_u64(line, "na").flatten(),
            ("group", "update_members") => {
                for a in ids(line, "add") {
                    if !g.mem.contains(&a) {
                        g.mem.push(a);
                    }
                }
                let rm = ids(line, "rm");
                g.mem.retain(|a| !rm.contains(a));
                g.mem.sort();
            }
            _ => {}
        }
    }
}

impl Sut for S {
    fn begin(&mut self, header: &str) -> (String, String) {
        if header.contains("coverage") {
            self.wd = None;
            return (header.to_string(), "bad-case".to_string()); // the driver answers `bad-case` to a header without a state
        }
        let mut wd = Wd::new(header).unwrap_or_else(|e| panic!("world setup failed for `{header}`: {e}"));
        let o = wd.obs();
        let now = wd.w.time();
        let ms = fmt_list(&wd.merge_sources);
        // the ghost starts from what the harness itself named at creation; who ends up admin / owner / creator at creation
        // is property C08's business — a difference is noted and the observation is adopted
        let mut ghost = wd.setup.clone();
        ghost.pv = o.pv;
        ghost.st = o.st;
        if let Some(d) = ghost.auth_diff(&o) {
            self.notes.insert(format!("initial principals differ from what was named at creation (owned by C08): {d}"));
            ghost = o.clone();
        }
        self.wd = Some(wd);
        self.cur = o.clone();
        self.init = ghost.clone();
        self.ghost = ghost;
        self.snap = None;
        self.finding = None;
        self.frozen_admins = None;
        self.last = LastOp::default();
        (format!("{header} now={now} {} ms={ms}", o.render_header()), format!("case {}", o.render()))
    }

    fn exec(&mut self, line: &str) -> (String, String) {
        self.finding = None;
        let op = line.split_whitespace().next().unwrap_or("");
        match op {
            "row" => {
                let (k, m) = (kv(line, "k").unwrap_or(""), kv(line, "m").unwrap_or(""));
                return (line.to_string(), format!("cls={}", cls_name(rust_principal(k, m))));
            }
            "irow" => {
                return (line.to_string(), format!("cls={}", cls_name(rust_inst_principal(kv(line, "k").unwrap_or("")))));
            }
            "cover" => {
                // n = the principal passed at least once; g = the guard was REACHED (non-principals failed and the principal
                // then succeeded in the very same state); gp = the same after the principal had been handed over.
                // x* = documented exception of the harness for that column (see docs/C05.md)
                let (k, m) = (kv(line, "k").unwrap_or(""), kv(line, "m").unwrap_or(""));
                let cls = rust_principal(k, m);
                let b = |key: &str, xkey: &str| (kv_u64(line, key).unwrap_or(0) > 0 || kv_u64(line, xkey).unwrap_or(0) > 0) as u8;
                let r = reservable(cls);
                return (
                    line.to_string(),
                    format!("n={} g={} gp={}", (r && b("n", "xn") == 1) as u8, (r && b("g", "xg") == 1) as u8, (r && needs_post(cls) && b("gp", "xgp") == 1) as u8),
                );
            }
            _ => {}
        }
        if self.wd.is_none() {
            return (line.to_string(), "bad-op".into());
        }
        match op {
            "t" => {
                let n = kv_u64(line, "now").unwrap_or(0);
                self.wd.as_mut().unwrap().w.set_time(n);
                self.last = LastOp { kind: "-".into(), msg: "t".into(), ok: true, ..Default::default() };
                let post = self.after(line);
                (line.to_string(), format!("ok {}", post.render()))
            }
            "x" => {
                let kind = kv(line, "k").unwrap_or("").to_string();
                let msg = kv(line, "m").unwrap_or("").to_string();
                let caller = kv_u64(line, "c").unwrap_or(0);
                let caller_s = addr(caller);
                let pre = self.cur.clone();
                let (is_contract, target, merge_sources, pre_params, now) = {
                    let wd = self.wd.as_ref().unwrap();
                    (wd.is_contract(caller), wd.target(&kind), wd.merge_sources.clone(), wd.params_json(), wd.w.time())
                };
                let Some(target) = target else { return (line.to_string(), "bad-op".into()) };
                let cls = rust_principal(&kind, &msg);
                let authorised = rust_auth(&self.ghost, &merge_sources, caller, is_contract, cls, now);
                let post_ep = post_epoch(cls, &self.ghost, &self.init);
                if kind == "splits" && msg == "distribute" {
                    // test setup, not part of the call: the splits contract always has something to distribute
                    let wd = self.wd.as_mut().unwrap();
                    let sp = wd.splits.clone();
                    if wd.w.balance(&sp, 0) < 1_000_000 {
                        wd.w.fund(&sp, 0, 3_000_000);
                        self.snap = None;
                    }
                }
                let snap = self.take_snap();
                let (v, funds) = self.wd.as_mut().unwrap().build_msg(&kind, &msg, line, &caller_s);
                if has_msg(&kind, &msg) {
                    // the JSON we send is, for the repo's own typed enum, exactly the message kind of this row; if it is not
                    // (a field was added / renamed) the row's principal will fail and the coverage floor reports the row
                    match typed_name(&kind, &v) {
                        Ok(n) if n == msg => {}
                        other => {
                            self.notes.insert(format!("the harness's JSON for {kind}/{msg} no longer round-trips as that variant through the repo's typed message: {:?}", other));
                        }
                    }
                }
                let res = self.wd.as_mut().unwrap().w.exec(&caller_s, &target, &v, &funds);
                let ok = res.is_ok();
                self.last = LastOp { kind: kind.clone(), msg: msg.clone(), caller, is_contract, cls: Some(cls), authorised, ok, err: res.err().unwrap_or_default(), post_epoch: post_ep };
                if std::env::var("C05_DEBUG").map(|v| v == "all").unwrap_or(false) {
                    eprintln!("X {line} target={target} msg={v} => ok={ok} {}", self.last.err.replace('\n', " "));
                }
                if ok && !authorised {
                    self.flag(
                        format!("{kind}/{msg}/non-principal-succeeded"),
                        format!("caller {caller} is not the {} of `{line}` in state [{}] (the harness's own bookkeeping of who is who) but the call succeeded", cls_name(cls), self.ghost.render()),
                    );
                }
                if ok {
                    self.snap = None;
                    self.ghost_handover(&kind, &msg, line);
                } else {
                    self.check_unchanged(&snap, line);
                }
                self.check_gov_frame(&pre, &pre_params, line);
                let post = self.after(line);
                (format!("{line} ct={} w={}", is_contract as u8, ok as u8), format!("{} {}", if ok { "ok" } else { "err" }, post.render()))
            }
            "i" => {
                let kind = kv(line, "k").unwrap_or("").to_string();
                let caller = kv_u64(line, "c").unwrap_or(0);
                let caller_s = addr(caller);
                let pre = self.cur.clone();
                let (is_contract, pre_params) = {
                    let wd = self.wd.as_ref().unwrap();
                    (wd.is_contract(caller), wd.params_json())
                };
                let cls = rust_inst_principal(&kind);
                let snap = self.take_snap();
                let Some((code, v, funds)) = self.wd.as_mut().unwrap().inst_msg(&kind, &caller_s, line) else { return (line.to_string(), "bad-op".into()) };
                let res = self.wd.as_mut().unwrap().w.instantiate(code, &caller_s, &v, &funds, None);
                let ok = res.is_ok();
                let authorised = cls != Cls::ContractOnly || is_contract;
                self.last = LastOp { kind: kind.clone(), msg: "instantiate".into(), caller, is_contract, cls: Some(cls), authorised, ok, err: res.err().unwrap_or_default(), post_epoch: false };
                if ok && !authorised {
                    // truth = the harness's own knowledge of which of ITS accounts are contracts (the role accounts are not)
                    self.flag(
                        format!("{kind}/instantiate/by-non-contract"),
                        format!("the plain account {caller} instantiated a {kind} directly (`{line}`, message {v}) — only a contract may"),
                    );
                }
                if ok {
                    self.snap = None;
                } else {
                    self.check_unchanged(&snap, line);
                }
                self.check_gov_frame(&pre, &pre_params, line);
                let post = self.after(line);
                (format!("{line} ct={} w={}", is_contract as u8, ok as u8), format!("{} {}", if ok { "ok" } else { "err" }, post.render()))
            }
            "s" => {
                let kind = kv(line, "k").unwrap_or("").to_string();
                let msg = kv(line, "m").unwrap_or("").to_string();
                let arg = kv_u64(line, "arg").unwrap_or(0);
                let (target, v) = {
                    let wd = self.wd.as_ref().unwrap();
                    if kind.starts_with("f.") {
                        let ext = if wd.mk.factory() == FactoryKind::Base { Value::Null } else { json!({}) };
                        (wd.factory.clone(), json!({"update_params":{"max_trading_offset_secs": arg, "extension": ext}}))
                    } else {
                        (wd.minter.clone(), json!({"update_status":{"is_verified": arg & 1 == 1, "is_blocked": arg & 2 == 2, "is_explicit": arg & 4 == 4}}))
                    }
                };
                match typed_sudo_name(&kind, &v) {
                    Ok(n) if n == msg => {}
                    other => {
                        self.notes.insert(format!("the harness's sudo JSON for {kind}/{msg} no longer round-trips as that variant: {:?}", other));
                    }
                }
                let res = self.wd.as_mut().unwrap().w.sudo(&target, &v);
                let ok = res.is_ok();
                self.snap = None;
                self.last = LastOp { kind: kind.clone(), msg: format!("sudo_{msg}"), ok, err: res.err().unwrap_or_default(), ..Default::default() };
                let post = self.after(line);
                // what governance sets params / status TO is property C18's business: the new version is a witness
                self.ghost.pv = post.pv;
                self.ghost.st = post.st;
                let val = if kind.starts_with("f.") { post.pv } else { post.st };
                (format!("{line} v={val} w={}", ok as u8), format!("{} {}", if ok { "ok" } else { "err" }, post.render()))
            }
            _ => (line.to_string(), "bad-op".into()),
        }
    }

    fn monitor(&mut self) -> Option<(String, String)> {
        self.finding.take()
    }
}

// ------------------------------------------------------------------------------------------------ generators

#[derive(Default)]
struct Gen {
    /// (kind, msg) -> number of successful calls by an authorised caller
    succ: BTreeMap<(String, String), u64>,
    /// (kind, msg) -> number of non-principal failures that a success of the principal IN THE SAME STATE (no tick, no
    /// successful call in between) shows to be failures of the guard, not of some other precondition
    guard: BTreeMap<(String, String), u64>,
    /// the same, counted only when the row's principal had already been handed over
    guard_post: BTreeMap<(String, String), u64>,
    /// non-principal failures since the state last changed
    np_pending: BTreeMap<(String, String), u64>,
    phase: String,
    /// this world leaves the creator's `enable_updatable` until after the creator hand-over
    eu_late: bool,
    unknown_seen: BTreeSet<String>,
}

/// messages whose success is irreversible for the rest of the case: the sweeps leave them to the explicit phases
const DESTRUCTIVE: [&str; 5] = ["freeze_collection_info", "freeze_token_metadata", "freeze", "renounce_ownership", "burn_remaining"];
/// messages whose "otherwise valid" arguments have a ladder (`alt=`): the principal retries coarser rungs when a rung fails
const LADDER: [&str; 9] = ["mint_for", "update_mint_price", "update_start_time", "update_end_time", "update_start_trading_time", "update_discount_price", "enable_updatable", "add_stage", "update_stage_config"];

fn wd(sut: &S) -> &Wd {
    sut.wd.as_ref().unwrap()
}
fn world_kinds(sut: &S) -> Vec<String> {
    let w = wd(sut);
    vec![fk_tok(w.mk.factory()).into(), mk_tok(w.mk).into(), ck_tok(w.ck).into(), wk_tok(w.wk).into(), "splits".into(), "group".into()]
}
fn contract_callers(sut: &S) -> Vec<u64> {
    let w = wd(sut);
    let mut v: Vec<u64> = [&w.factory, &w.minter, &w.coll, &w.wl, &w.group, &w.splits].iter().map(|a| addr_id(a)).collect();
    if let Some(s) = &w.src_coll {
        v.push(addr_id(s));
    }
    v
}
fn all_callers(sut: &S) -> Vec<u64> {
    let mut v = ROLES.to_vec();
    v.extend(contract_callers(sut));
    v
}
fn role_class(sut: &S, c: u64) -> &'static str {
    if sut.last.authorised {
        "principal"
    } else if c == STRANGER || c == BUYER {
        "stranger"
    } else if c >= 1000 {
        "contract"
    } else {
        "other-role"
    }
}

/// arguments of the hand-over messages: the principal hands over to itself (the sweep must not change who is who),
/// everybody else tries to appoint himself
fn sweep_args(kind: &str, msg: &str, caller: u64, principal: bool, o: &Obs) -> String {
    let fam = kind.split('.').next().unwrap_or("");
    match (fam, msg) {
        ("c", "update_collection_info") => format!(" nc={}", if principal { o.cr } else { caller }),
        ("c", "transfer_ownership") => format!(" no={} ex=-", if principal { o.own.unwrap_or(caller) } else { caller }),
        ("w", "update_admins") => format!(" al={}", if principal { fmt_list(&o.wa) } else { caller.to_string() }),
        ("splits", "update_admin") => format!(" na={}", if principal { fmt_opt(&o.sa) } else { caller.to_string() }),
        ("group", "update_admin") => format!(" na={}", if principal { fmt_opt(&o.ga) } else { caller.to_string() }),
        ("group", "update_members") => {
            if principal {
                " add=- rm=-".to_string()
            } else {
                format!(" add={caller} rm=-")
            }
        }
        _ => String::new(),
    }
}

fn do_line(ses: &mut Session, sut: &mut S, g: &mut Gen, line: &str) -> bool {
    let out = ses.step(sut, line);
    let l = sut.last.clone();
    let ok = out.starts_with("ok");
    if l.cls.is_some() {
        let key = (l.kind.clone(), l.msg.clone());
        if !l.authorised && !ok {
            *g.np_pending.entry(key.clone()).or_insert(0) += 1;
        }
        if l.authorised && ok {
            *g.succ.entry(key.clone()).or_insert(0) += 1;
            if let Some(n) = g.np_pending.get(&key).copied() {
                // the state has not changed since those callers failed (failed transactions change nothing, nothing
                // succeeded, the clock did not move) and the principal now passes: they failed BECAUSE of who they are
                *g.guard.entry(key.clone()).or_insert(0) += n;
                if l.post_epoch {
                    *g.guard_post.entry(key.clone()).or_insert(0) += n;
                }
                ses.mark(format!("guard/{}/{}/{}", if l.post_epoch { "post" } else { "pre" }, l.kind, l.msg));
            }
        }
        let rc = role_class(sut, l.caller);
        ses.mark(format!("{}/{}/{}/{}/{}", l.kind, l.msg, rc, g.phase, if ok { "ok" } else { "err" }));
        if !ok {
            // error kinds are logged (never compared, never used by a monitor): authorisation vs other reasons
            let unauth = l.err.contains("nauthorized") || l.err.contains("not an admin") || l.err.contains("NotOwner") || l.err.contains("not the contract's") || l.err.contains("Caller is not");
            ses.count(&format!("err:{}:{}", rc, if unauth { "unauthorised" } else if l.err.contains("parsing") || l.err.contains("unknown variant") || l.err.contains("Error parsing") { "no-such-message" } else if l.err.starts_with("panic") { "panic" } else { "other" }));
            if std::env::var("C05_DEBUG").map(|v| v == "all").unwrap_or(false) {
                eprintln!("ERR [{}] {} => {}", g.phase, line, l.err.replace('\n', " "));
            }
            if l.authorised {
                ses.count(&format!("principal-failed:{}/{}", l.kind, l.msg));
                if std::env::var("C05_DEBUG").is_ok() {
                    eprintln!("PF [{}] {} => {}", g.phase, line, l.err.replace('\n', " "));
                }
            }
        }
    }
    if ok {
        // the state (or the clock) moved: earlier failures no longer say anything about the present state
        g.np_pending.clear();
    }
    ok
}

fn do_x(ses: &mut Session, sut: &mut S, g: &mut Gen, kind: &str, msg: &str, caller: u64, extra: &str) -> bool {
    do_line(ses, sut, g, &format!("x k={kind} m={msg} c={caller}{extra}"))
}
fn tick(ses: &mut Session, sut: &mut S, g: &mut Gen, to: u64) {
    do_line(ses, sut, g, &format!("t now={to}"));
}
fn now(sut: &S) -> u64 {
    wd(sut).w.time()
}
fn is_auth(sut: &S, kind: &str, msg: &str, c: u64) -> bool {
    let w = wd(sut);
    rust_auth(&sut.ghost, &w.merge_sources, c, w.is_contract(c), rust_principal(kind, msg), w.w.time())
}

/// one row × callers: non-principals first (each in a state in which the principal's call succeeds), the principals last
fn sweep_row(ses: &mut Session, sut: &mut S, g: &mut Gen, kind: &str, msg: &str, mn: Option<&str>) {
    let cls = rust_principal(kind, msg);
    let minter_id = addr_id(&wd(sut).minter);
    let callers: Vec<u64> = match cls {
        Cls::Anyone => vec![STRANGER, BUYER, minter_id],
        Cls::Nobody | Cls::SudoOnly => vec![CREATOR, WL_ADMIN, SPLITS_ADMIN, STRANGER, minter_id],
        _ => all_callers(sut),
    };
    let (pr, np): (Vec<u64>, Vec<u64>) = callers.into_iter().partition(|c| cls != Cls::Anyone && is_auth(sut, kind, msg, *c));
    let skip_principal = |g: &Gen, sut: &S| DESTRUCTIVE.contains(&msg) || (msg == "enable_updatable" && g.eu_late && !post_epoch(Cls::Creator, &sut.ghost, &sut.init));
    let tail = mn.map(|n| format!(" mn={n}")).unwrap_or_default();
    if (msg == "update_discount_price" || msg == "remove_discount_price") && !pr.is_empty() {
        // the discount messages are rate-limited: move the clock BEFORE the non-principals try, so that they are refused in
        // exactly the state in which the admin is accepted
        let t = now(sut) + 13 * HOUR;
        tick(ses, sut, g, t);
    }
    for c in np {
        let a = sweep_args(kind, msg, c, false, &sut.ghost);
        do_x(ses, sut, g, kind, msg, c, &format!("{a}{tail}"));
        if kind.starts_with("c.") && msg == "update_collection_info" && (c == STRANGER || c == sut.ghost.adm) {
            do_x(ses, sut, g, kind, msg, c, " nc=-"); // not even touching the creator field
        }
        if msg == "receive_nft" && has_msg(kind, msg) && (c >= 1000 || c == STRANGER) {
            do_x(ses, sut, g, kind, msg, c, " sv=1"); // the `sender` FIELD names the configured source collection
        }
    }
    for c in pr {
        if skip_principal(g, sut) || !is_auth(sut, kind, msg, c) {
            continue;
        }
        let a = sweep_args(kind, msg, c, true, &sut.ghost);
        let mut ok = do_x(ses, sut, g, kind, msg, c, &format!("{a}{tail}"));
        let mut alt = 1;
        while !ok && LADDER.contains(&msg) && alt <= MAX_ALT {
            ok = do_x(ses, sut, g, kind, msg, c, &format!("{a}{tail} alt={alt}"));
            alt += 1;
        }
    }
}

/// every row of the table for the contracts of this world × callers
fn sweep(ses: &mut Session, sut: &mut S, g: &mut Gen, only: Option<&[&str]>) {
    for kind in world_kinds(sut) {
        if let Some(f) = only {
            if !f.iter().any(|p| kind.starts_with(p)) {
                continue;
            }
        }
        for msg in family_tokens(&kind) {
            sweep_row(ses, sut, g, &kind, msg, None);
        }
        // variants the table does not know (found in the repo's schema at run time): default-deny under the same monitors
        for name in unknown_variants(&kind) {
            if g.unknown_seen.insert(format!("{kind}/{name}")) {
                ses.note(format!("UNKNOWN MESSAGE KIND `{name}` on {kind}: not a row of the table; swept as `other` (default-deny: reserved to the {})", cls_name(default_deny(&kind))));
            }
            ses.mark(format!("unknown-variant/{kind}/{name}"));
            sweep_row(ses, sut, g, &kind, "other", Some(&name));
        }
    }
}

/// user / contract `instantiate` of every contract kind of the workspace. For collections the `minter` FIELD of the message
/// is varied independently of the sender: (a) a plain account naming itself, (b) a plain account naming an EXISTING contract
/// (the minter, the factory, the collection, the splits contract), (c) a contract (the legitimate path).
fn instantiate_sweep(ses: &mut Session, sut: &mut S, g: &mut Gen) {
    let (f, m, s, c, src) = {
        let w = wd(sut);
        (addr_id(&w.factory), addr_id(&w.minter), addr_id(&w.splits), addr_id(&w.coll), w.src_coll.as_ref().map(|x| addr_id(x)))
    };
    for k in ALL_MINTERS {
        for u in [CREATOR, STRANGER] {
            do_line(ses, sut, g, &format!("i k={} c={u}", mk_tok(k)));
        }
        for cc in [s, m, f] {
            do_line(ses, sut, g, &format!("i k={} c={cc}", mk_tok(k)));
        }
    }
    for k in ALL_COLL {
        let kt = ck_tok(k);
        for u in [CREATOR, STRANGER, BUYER] {
            do_line(ses, sut, g, &format!("i k={kt} c={u}"));
        }
        let mut named = vec![m, f, c, s];
        named.extend(src);
        for (i, mt) in named.iter().enumerate() {
            let u = [STRANGER, CREATOR, BUYER][i % 3];
            let ok = do_line(ses, sut, g, &format!("i k={kt} c={u} mt={mt}"));
            ses.mark(format!("inst/user-names-existing-contract/{kt}/{}", if ok { "ok" } else { "err" }));
        }
        // the legitimate path: a contract instantiates the collection naming itself (what every minter does), or another contract
        for cc in [m, f] {
            let ok = do_line(ses, sut, g, &format!("i k={kt} c={cc}"));
            ses.mark(format!("inst/contract-names-itself/{kt}/{}", if ok { "ok" } else { "err" }));
        }
        do_line(ses, sut, g, &format!("i k={kt} c={f} mt={m}"));
        do_line(ses, sut, g, &format!("i k={kt} c={m} mt={STRANGER}"));
    }
    for k in ALL_FACT {
        do_line(ses, sut, g, &format!("i k={} c={STRANGER}", fk_tok(k)));
    }
    for k in ALL_WL {
        do_line(ses, sut, g, &format!("i k={} c={STRANGER}", wk_tok(k)));
    }
    do_line(ses, sut, g, &format!("i k=group c={STRANGER}"));
    do_line(ses, sut, g, &format!("i k=splits c={s}"));
}

/// collection creator hand-over: a stranger trying first, then the creator to `to`, then the old creator is out
fn creator_handover(ses: &mut Session, sut: &mut S, g: &mut Gen, to: u64) {
    let ck = ck_tok(wd(sut).ck);
    do_x(ses, sut, g, ck, "update_collection_info", STRANGER, &format!(" nc={STRANGER}"));
    let cr = sut.ghost.cr;
    do_x(ses, sut, g, ck, "update_collection_info", to, &format!(" nc={to}")); // the appointee cannot appoint himself
    do_x(ses, sut, g, ck, "update_collection_info", cr, &format!(" nc={to}"));
    do_x(ses, sut, g, ck, "update_collection_info", cr, &format!(" nc={cr}")); // the old creator is out
}

/// the explicit hand-overs (each by the current principal, taken from the harness's own bookkeeping)
fn handover_phase(ses: &mut Session, sut: &mut S, g: &mut Gen) {
    let (ck, wk, fk, mk) = {
        let w = wd(sut);
        (ck_tok(w.ck), wk_tok(w.wk), fk_tok(w.mk.factory()), mk_tok(w.mk))
    };
    // collection creator: -> NEW_CREATOR, or (when an early hand-over already made NEW_CREATOR the creator) -> NEW_CREATOR2
    let to = if sut.ghost.cr == NEW_CREATOR { NEW_CREATOR2 } else { NEW_CREATOR };
    creator_handover(ses, sut, g, to);
    // cw_ownable: a transfer overwritten by a second one; expiry at the exact boundary instants −1 ns / 0 / +1 ns
    if let Some(owner) = sut.ghost.own {
        let t0 = now(sut);
        do_x(ses, sut, g, ck, "transfer_ownership", owner, &format!(" no={NEW_MEMBER} ex=-"));
        do_x(ses, sut, g, ck, "transfer_ownership", owner, &format!(" no={NEW_OWNER} ex={}", t0 + 10_000));
        do_x(ses, sut, g, ck, "accept_ownership", NEW_MEMBER, ""); // the first appointee was overwritten
        do_x(ses, sut, g, ck, "mint", NEW_OWNER, ""); // pending owner is not the minter yet
        tick(ses, sut, g, t0 + 9_999);
        do_x(ses, sut, g, ck, "accept_ownership", STRANGER, "");
        tick(ses, sut, g, t0 + 10_000);
        let r0 = do_x(ses, sut, g, ck, "accept_ownership", NEW_OWNER, ""); // expired exactly now
        ses.mark(format!("expiry/accept/0/{}", if r0 { "ok" } else { "err" }));
        tick(ses, sut, g, t0 + 10_001);
        let r1 = do_x(ses, sut, g, ck, "accept_ownership", NEW_OWNER, ""); // and one ns later
        ses.mark(format!("expiry/accept/+1/{}", if r1 { "ok" } else { "err" }));
        do_x(ses, sut, g, ck, "transfer_ownership", owner, &format!(" no={NEW_OWNER} ex={}", t0 + 20_000));
        tick(ses, sut, g, t0 + 19_999);
        do_x(ses, sut, g, ck, "accept_ownership", STRANGER, "");
        do_x(ses, sut, g, ck, "accept_ownership", owner, ""); // the owner cannot accept his own offer
        let r2 = do_x(ses, sut, g, ck, "accept_ownership", NEW_OWNER, ""); // one ns before the expiry
        ses.mark(format!("expiry/accept/-1/{}", if r2 { "ok" } else { "err" }));
        do_x(ses, sut, g, ck, "accept_ownership", NEW_OWNER, ""); // same block, again: nothing is pending any more
        do_x(ses, sut, g, ck, "mint", owner, ""); // the old minter is out
        do_x(ses, sut, g, ck, "mint", NEW_OWNER, "");
    }
    // whitelist admins: [WL_ADMIN] -> [WL_ADMIN2, WL_ADMIN] -> a list of 101 (beyond any page size) -> [WL_ADMIN2]
    if let Some(a0) = sut.ghost.wa.first().copied() {
        do_x(ses, sut, g, wk, "update_admins", a0, &format!(" al={WL_ADMIN2},{a0}"));
        let mut big: Vec<u64> = (200..300).collect();
        big.push(WL_ADMIN2);
        do_x(ses, sut, g, wk, "update_admins", WL_ADMIN2, &format!(" al={}", fmt_list(&big)));
        do_x(ses, sut, g, wk, "update_admins", a0, &format!(" al={a0}")); // removed admin is out
        do_x(ses, sut, g, wk, "update_admins", STRANGER, &format!(" al={STRANGER}"));
        let r = do_x(ses, sut, g, wk, "update_admins", 299, &format!(" al={WL_ADMIN2}")); // the 100th admin of 101 acts
        ses.mark(format!("big/wl-admins-101/{}", if r { "ok" } else { "err" }));
        do_x(ses, sut, g, wk, "update_admins", 299, &format!(" al=299"));
    }
    // splits admin -> NEW_SPLITS_ADMIN; group members: +NEW_MEMBER −MEMBER1; group admin -> MEMBER2
    if let Some(sa) = sut.ghost.sa {
        do_x(ses, sut, g, "splits", "update_admin", sa, &format!(" na={NEW_SPLITS_ADMIN}"));
        do_x(ses, sut, g, "splits", "distribute", sa, "");
        do_x(ses, sut, g, "splits", "distribute", NEW_SPLITS_ADMIN, "");
    }
    if let Some(ga) = sut.ghost.ga {
        do_x(ses, sut, g, "group", "update_members", ga, &format!(" add={NEW_MEMBER} rm={MEMBER1}"));
        do_x(ses, sut, g, "group", "update_admin", ga, &format!(" na={MEMBER2}"));
        do_x(ses, sut, g, "group", "update_members", ga, &format!(" add={ga} rm=-"));
    }
    // governance: sudo is the only way to change params / status
    do_line(ses, sut, g, &format!("s k={fk} m=update_params arg=4242"));
    do_line(ses, sut, g, &format!("s k={mk} m=update_status arg=5"));
}

/// the splits admin is removed: group members distribute — also the LAST of a group grown to the maximum the splits
/// contract supports (25: beyond the cw4 default page of 10)
fn members_phase(ses: &mut Session, sut: &mut S, g: &mut Gen) {
    let Some(sa) = sut.ghost.sa else { return };
    do_x(ses, sut, g, "splits", "update_admin", sa, " na=-");
    sweep(ses, sut, g, Some(&["splits", "group"]));
    if let Some(ga) = sut.ghost.ga {
        let have = sut.ghost.mem.len() as u64;
        let max = sg_splits::contract::MAX_GROUP_SIZE as u64;
        if have < max {
            let extra: Vec<u64> = (400..400 + (max - have)).collect();
            let last = *extra.last().unwrap();
            do_x(ses, sut, g, "group", "update_members", ga, &format!(" add={} rm=-", fmt_list(&extra)));
            do_x(ses, sut, g, "splits", "distribute", STRANGER, "");
            do_x(ses, sut, g, "splits", "distribute", 399, "");
            let r = do_x(ses, sut, g, "splits", "distribute", last, "");
            ses.mark(format!("big/group-at-max/{}", if r { "ok" } else { "err" }));
            do_x(ses, sut, g, "group", "update_members", ga, &format!(" add=- rm={}", fmt_list(&extra)));
            do_x(ses, sut, g, "splits", "distribute", last, ""); // removed again: out
        }
    }
}

fn frozen_phase(ses: &mut Session, sut: &mut S, g: &mut Gen) {
    let (ck, wk) = {
        let w = wd(sut);
        (ck_tok(w.ck), wk_tok(w.wk))
    };
    if let Some(a) = sut.ghost.wa.first().copied() {
        do_x(ses, sut, g, wk, "freeze", STRANGER, "");
        do_x(ses, sut, g, wk, "freeze", a, "");
        do_x(ses, sut, g, wk, "update_admins", a, &format!(" al={a},{STRANGER}")); // admins themselves are out now
        do_x(ses, sut, g, wk, "freeze", a, "");
    }
    let cr = sut.ghost.cr;
    do_x(ses, sut, g, ck, "freeze_collection_info", STRANGER, "");
    do_x(ses, sut, g, ck, "freeze_collection_info", sut.ghost.adm, ""); // the minter admin is not the creator any more
    do_x(ses, sut, g, ck, "freeze_collection_info", cr, "");
    do_x(ses, sut, g, ck, "freeze_token_metadata", STRANGER, "");
    do_x(ses, sut, g, ck, "freeze_token_metadata", cr, "");
    do_x(ses, sut, g, ck, "update_collection_info", cr, &format!(" nc={STRANGER}")); // frozen: even the creator fails
}

fn random_walk(ses: &mut Session, sut: &mut S, g: &mut Gen, rng: &mut Rng, n: u64) {
    let kinds = world_kinds(sut);
    let pool: Vec<u64> = ROLES.to_vec();
    for _ in 0..n {
        if rng.chance(1, 10) {
            // time: random step, or exactly around a pending ownership expiry
            let t = now(sut);
            let to = match sut.ghost.pex {
                Some(e) if e > t && rng.chance(2, 3) => *rng.pick(&[e - 1, e, e + 1]),
                _ => t + rng.range(1, 2 * DAY),
            };
            if to > t {
                tick(ses, sut, g, to);
            }
            continue;
        }
        let kind = rng.pick(&kinds).clone();
        let toks = family_tokens(&kind);
        // bias towards the hand-over messages
        let msg: &str = if rng.chance(1, 2) {
            let hs: Vec<&str> = toks.iter().copied().filter(|m| matches!(*m, "update_collection_info" | "transfer_ownership" | "accept_ownership" | "renounce_ownership" | "update_admins" | "freeze" | "update_admin" | "update_members" | "freeze_collection_info")).collect();
            if hs.is_empty() { *rng.pick(&toks) } else { *rng.pick(&hs) }
        } else {
            *rng.pick(&toks)
        };
        let callers = all_callers(sut);
        let principals: Vec<u64> = callers.iter().copied().filter(|c| is_auth(sut, &kind, msg, *c)).collect();
        let want_principal = rng.chance(2, 5) && !principals.is_empty() && rust_principal(&kind, msg) != Cls::Anyone;
        let c = if want_principal { *rng.pick(&principals) } else { *rng.pick(&callers) };
        if (msg == "add_hook" || msg == "remove_hook") && is_auth(sut, &kind, msg, c) {
            continue; // a hook on an account address would make the real `update_members` fail for a non-modelled reason
        }
        if msg == "renounce_ownership" && is_auth(sut, &kind, msg, c) && rng.chance(3, 4) {
            continue; // keep an owner most of the time
        }
        let pick_some = |rng: &mut Rng, k: u64| -> Vec<u64> {
            let mut p = pool.clone();
            rng.shuffle(&mut p);
            p.truncate(k as usize);
            p
        };
        let fam = kind.split('.').next().unwrap_or("");
        let extra = match (fam, msg) {
            ("c", "update_collection_info") => format!(" nc={}", if rng.chance(1, 4) { "-".to_string() } else { rng.pick(&pool).to_string() }),
            ("c", "transfer_ownership") => {
                let t = now(sut);
                let ex = match rng.below(3) {
                    0 => "-".to_string(),
                    1 => (t + rng.range(1, 3 * DAY)).to_string(),
                    _ => t.to_string(), // already expired
                };
                let mut cand = pool.clone();
                cand.push(addr_id(&wd(sut).minter));
                format!(" no={} ex={ex}", rng.pick(&cand))
            }
            ("w", "update_admins") => {
                let k = rng.range(0, 3);
                let mut l = pick_some(rng, k);
                if !l.is_empty() && rng.chance(1, 5) {
                    l.push(l[0]); // a duplicate entry
                }
                format!(" al={}", fmt_list(&l))
            }
            ("splits", "update_admin") | ("group", "update_admin") => format!(" na={}", if rng.chance(1, 3) { "-".to_string() } else { rng.pick(&pool).to_string() }),
            ("group", "update_members") => {
                let (ka, kr) = (rng.range(0, 2), rng.range(0, 2));
                format!(" add={} rm={}", fmt_list(&pick_some(rng, ka)), fmt_list(&pick_some(rng, kr)))
            }
            ("m", "receive_nft") => if rng.chance(1, 2) { " sv=1".to_string() } else { String::new() },
            _ => String::new(),
        };
        if DESTRUCTIVE.contains(&msg) && is_auth(sut, &kind, msg, c) {
            // an irreversible message by its principal: a stranger tries the same thing in the same state first
            do_x(ses, sut, g, &kind, msg, STRANGER, &extra);
        }
        do_x(ses, sut, g, &kind, msg, c, &extra);
    }
}

fn run_world(ses: &mut Session, sut: &mut S, g: &mut Gen, rng: &mut Rng, header: &str, random_ops: u64, full: bool) {
    ses.begin_case(sut, header);
    g.np_pending.clear();
    let early = kv_u64(header, "early") == Some(1);
    g.eu_late = kv(header, "eu") == Some("late");
    g.phase = "fresh".into();
    sweep(ses, sut, g, None);
    if early {
        // the collection creator is handed over BEFORE the sale starts: from here on "minter admin" (fixed at creation) and
        // "collection creator" are different accounts while every configuration / airdrop message can still succeed
        g.phase = "early-handover".into();
        creator_handover(ses, sut, g, NEW_CREATOR);
        sweep(ses, sut, g, Some(&["m.", "c."]));
    }
    // started
    g.phase = "started".into();
    let start = {
        let w = wd(sut);
        let cfg = w.w.query(&w.minter, &json!({"config":{}})).unwrap_or(Value::Null);
        jnanos(&cfg["start_time"]).max(w.create.start_time)
    };
    tick(ses, sut, g, start + 1);
    sweep(ses, sut, g, if full { None } else { Some(&["m.", "c.", "w."]) });
    // sold out (burn-remaining by the admin; base minter has no supply)
    g.phase = "soldout".into();
    let (mk, adm) = (mk_tok(wd(sut).mk), sut.ghost.adm);
    if wd(sut).mk.is_open_edition() {
        // open editions can only be burnt / purged after their end time
        let end = {
            let w = wd(sut);
            let cfg = w.w.query(&w.minter, &json!({"config":{}})).unwrap_or(Value::Null);
            jnanos(&cfg["end_time"])
        };
        if end > 0 {
            do_x(ses, sut, g, mk, "burn_remaining", adm, ""); // too early: fails for a non-authorisation reason
            tick(ses, sut, g, end + 1);
        }
    }
    do_x(ses, sut, g, mk, "burn_remaining", STRANGER, "");
    do_x(ses, sut, g, mk, "burn_remaining", sut.ghost.cr, ""); // (early worlds: the creator is not the admin)
    do_x(ses, sut, g, mk, "burn_remaining", adm, "");
    sweep(ses, sut, g, Some(&["m."]));
    // hand-overs
    g.phase = "handover".into();
    handover_phase(ses, sut, g);
    sweep(ses, sut, g, None);
    // splits admin removed: group members distribute
    members_phase(ses, sut, g);
    // frozen
    g.phase = "frozen".into();
    frozen_phase(ses, sut, g);
    sweep(ses, sut, g, Some(&["c.", "w."]));
    // random continuation (real hand-overs by random principals, strangers in between, exact expiry instants)
    g.phase = "random".into();
    random_walk(ses, sut, g, rng, random_ops);
    sweep(ses, sut, g, if full { None } else { Some(&["c.", "w.", "splits"]) });
    // renounced ownership: nobody is the collection's minter any more
    g.phase = "renounced".into();
    let ck = ck_tok(wd(sut).ck);
    if let Some(o) = sut.ghost.own {
        do_x(ses, sut, g, ck, "renounce_ownership", STRANGER, "");
        do_x(ses, sut, g, ck, "renounce_ownership", o, "");
        sweep(ses, sut, g, Some(&["c."]));
    }
    g.phase = "instantiate".into();
    instantiate_sweep(ses, sut, g);
    ses.end_case();
    for n in std::mem::take(&mut sut.notes) {
        ses.note(n);
    }
}

/// rows whose guard cannot be seen working AFTER the hand-over in this harness, with the reason (docs/C05.md)
fn post_exception(kind: &str, msg: &str) -> bool {
    // irreversible messages are sent once per world, by the explicit phases: each is covered in ONE of the two epochs
    if DESTRUCTIVE.contains(&msg) {
        return true;
    }
    // sg721-updatable and sg721-nt have no ownership transfer: their minter (cw_ownable owner) can never change hands
    if (kind == "c.updatable" || kind == "c.nt") && matches!(msg, "mint" | "update_start_trading_time") {
        return true;
    }
    false
}

fn main() {
    let mut ses = Session::new("C05");
    let mut sut = S::new();
    if ses.maybe_replay(&mut sut) {
        ses.finish(&mut sut);
    }
    let mut rng = ses.rng.fork();
    let mut g = Gen::default();
    let thorough = ses.tier() != Tier::Quick;

    // (minter, collection, whitelist): quick = every minter kind once, all 4 collection and 7 whitelist kinds covered,
    // whitelist kind compatible with the minter's `set_whitelist` where one exists
    let base_combo: [(MinterKind, CollKind, WlKind); 13] = [
        (MinterKind::Vending, CollKind::Base, WlKind::Plain),
        (MinterKind::VendingFeatured, CollKind::Updatable, WlKind::Tiered),
        (MinterKind::VendingFlex, CollKind::Base, WlKind::Flex),
        (MinterKind::VendingFlexFeatured, CollKind::Base, WlKind::TieredFlex),
        (MinterKind::VendingMerkle, CollKind::Updatable, WlKind::Merkle),
        (MinterKind::VendingMerkleFeatured, CollKind::Base, WlKind::TieredMerkle),
        (MinterKind::OpenEdition, CollKind::Updatable, WlKind::Tiered),
        (MinterKind::OpenEditionFlex, CollKind::Base, WlKind::Flex),
        (MinterKind::OpenEditionMerkle, CollKind::Base, WlKind::Merkle),
        (MinterKind::TokenMerge, CollKind::Base, WlKind::Immutable),
        (MinterKind::Base, CollKind::Base, WlKind::Plain),
        // the two collection kinds no minter of the workspace is fully compatible with (sg721-nt has no trading-time
        // update, sg721-metadata-onchain needs a Metadata extension on mint) ride on a second vending world
        (MinterKind::Vending, CollKind::MetadataOnchain, WlKind::Plain),
        (MinterKind::VendingFeatured, CollKind::Nt, WlKind::Tiered),
    ];
    // (minter, collection, whitelist, random ops, full sweeps, mig, early, eu-late)
    struct Combo(MinterKind, CollKind, WlKind, u64, bool, bool, bool, bool);
    let rq = ses.scale(150, 1500);
    // every minter kind gets its EARLY-hand-over world (creator handed over before the sale starts); the two extra vending
    // worlds keep the late shape (hand-over after start and sell-out)
    let mut combos: Vec<Combo> = base_combo.iter().enumerate().map(|(i, (m, c, w))| Combo(*m, *c, *w, rq, true, false, i < 11, false)).collect();
    // sg721-base migrated to sg721-updatable: `enable_updatable` can succeed — once before the creator hand-over (late world) …
    combos.push(Combo(MinterKind::VendingMerkle, CollKind::Updatable, WlKind::TieredMerkle, rq, true, true, false, false));
    // … and once after it (early hand-over, the creator's own `enable_updatable` held back until then)
    combos.push(Combo(MinterKind::VendingFlex, CollKind::Updatable, WlKind::Flex, rq / 2, true, true, true, true));
    if thorough {
        // every minter kind × every collection kind, whitelist kinds rotating, several seeds of random continuation
        let mut i = 0;
        for m in ALL_MINTERS {
            for c in ALL_COLL {
                for rep in 0..2 {
                    let mig = c == CollKind::Updatable && rep == 0;
                    combos.push(Combo(m, c, ALL_WL[i % 7], ses.scale(150, 1200), false, mig, rep == 0, mig && i % 4 == 0));
                    i += 1;
                }
            }
        }
    }
    // fixed corpus (corpus/C05/minter-admin-not-creator.json, Lean: C05_clause_minter_admin_counterexample): after a creator
    // hand-over the OLD creator is still the minter admin, the NEW creator is not — on one minter of every family
    for mk in [MinterKind::Vending, MinterKind::OpenEdition, MinterKind::TokenMerge] {
        let kt = mk_tok(mk);
        ses.begin_case(&mut sut, &format!("case corpus=minter-admin-not-creator mk={kt} ck=c.base wk=w.plain n=100 mig=0 early=0"));
        g.np_pending.clear();
        g.phase = "corpus".into();
        do_x(&mut ses, &mut sut, &mut g, kt, "mint_to", NEW_CREATOR, "");
        do_x(&mut ses, &mut sut, &mut g, kt, "mint_to", CREATOR, "");
        do_x(&mut ses, &mut sut, &mut g, "c.base", "update_collection_info", CREATOR, &format!(" nc={NEW_CREATOR}"));
        let new_ok = do_x(&mut ses, &mut sut, &mut g, kt, "mint_to", NEW_CREATOR, "");
        let old_ok = do_x(&mut ses, &mut sut, &mut g, kt, "mint_to", CREATOR, "");
        do_x(&mut ses, &mut sut, &mut g, kt, "update_per_address_limit", NEW_CREATOR, "");
        do_x(&mut ses, &mut sut, &mut g, kt, "update_per_address_limit", CREATOR, "");
        ses.mark(format!("corpus:minter-admin-not-creator:{kt}:new-creator-{}:old-creator-{}", if new_ok { "ok" } else { "err" }, if old_ok { "ok" } else { "err" }));
        ses.end_case();
    }

    for (i, Combo(m, c, w, rops, full, mig, early, eu_late)) in combos.iter().enumerate() {
        let header = format!(
            "case world{} mk={} ck={} wk={} n=100 mig={} early={}{}",
            i,
            mk_tok(*m),
            ck_tok(*c),
            wk_tok(*w),
            *mig as u8,
            *early as u8,
            if *eu_late { " eu=late" } else { "" }
        );
        let mut r = rng.fork();
        run_world(&mut ses, &mut sut, &mut g, &mut r, &header, *rops, *full);
    }

    // the two tables (Rust monitors' vs Lean theorems') agree on every row; every reservable row of the LEAN table was passed
    // by its principal, and its guard was reached (before and after the hand-over of that principal)
    ses.begin_case(&mut sut, "case coverage");
    let mut all_kinds: Vec<String> = vec![];
    all_kinds.extend(ALL_FACT.iter().map(|k| fk_tok(*k).to_string()));
    all_kinds.extend(ALL_MINTERS.iter().map(|k| mk_tok(*k).to_string()));
    all_kinds.extend(ALL_COLL.iter().map(|k| ck_tok(*k).to_string()));
    all_kinds.extend(ALL_WL.iter().map(|k| wk_tok(*k).to_string()));
    all_kinds.push("splits".into());
    all_kinds.push("group".into());
    let mut gaps: Vec<String> = vec![];
    for k in &all_kinds {
        ses.step(&mut sut, &format!("irow k={k}"));
        for m in family_tokens(k) {
            ses.step(&mut sut, &format!("row k={k} m={m}"));
        }
        ses.step(&mut sut, &format!("row k={k} m=other"));
        // the driver answers from the LEAN table which rows need which coverage: a reserved row the harness never even tried
        // shows up as a difference here
        for m in family_tokens(k) {
            let key = (k.clone(), m.to_string());
            let (n, gd, gp) = (g.succ.get(&key).copied().unwrap_or(0), g.guard.get(&key).copied().unwrap_or(0), g.guard_post.get(&key).copied().unwrap_or(0));
            let xgp = post_exception(k, m) as u8;
            let cls = rust_principal(k, m);
            if reservable(cls) && (n == 0 || gd == 0 || (needs_post(cls) && gp == 0 && xgp == 0)) {
                gaps.push(format!("{k}/{m}:n={n},g={gd},gp={gp}"));
            }
            ses.step(&mut sut, &format!("cover k={k} m={m} n={n} g={gd} gp={gp} xgp={xgp}"));
        }
    }
    ses.end_case();
    if !gaps.is_empty() {
        ses.note(format!("COVERAGE GAPS (reserved rows whose principal never passed / whose guard was never reached): {:?}", gaps));
    }

    // coverage floor: without these the run would be vacuous in the respect named
    for k in ALL_MINTERS {
        let kt = mk_tok(k);
        if k == MinterKind::Base {
            ses.require(format!("guard/post/{kt}/mint"));
            continue;
        }
        // the guard of the configuration / airdrop rows seen working while creator ≠ minter admin, before the sale starts
        ses.require(format!("guard/post/{kt}/mint_to"));
        ses.require(format!("guard/post/{kt}/update_start_time"));
        ses.require(format!("guard/post/{kt}/update_per_address_limit"));
        if k != MinterKind::TokenMerge {
            ses.require(format!("guard/post/{kt}/set_whitelist"));
            ses.require(format!("guard/post/{kt}/update_mint_price"));
        }
        ses.require(format!("{kt}/burn_remaining/principal/soldout/ok"));
    }
    for k in ALL_MINTERS {
        // direct instantiate of the minter code: plain accounts refused, a contract (a factory) accepted in the same state
        ses.require(format!("guard/pre/{}/instantiate", mk_tok(k)));
    }
    ses.require("guard/pre/m.tm/receive_nft");
    for kt in ["m.vending", "m.oe", "m.tm"] {
        // what the code does today (see docs/C05.md, "the minter admin is not the live creator"); if this flips, the model's
        // `minterAdmin` principal and the counter-example theorem have to be revisited
        ses.require(format!("corpus:minter-admin-not-creator:{kt}:new-creator-err:old-creator-ok"));
    }
    for c in ALL_COLL {
        let kt = ck_tok(c);
        ses.require(format!("guard/pre/{kt}/update_collection_info"));
        ses.require(format!("guard/post/{kt}/update_collection_info"));
        if c == CollKind::Base || c == CollKind::MetadataOnchain {
            ses.require(format!("guard/post/{kt}/mint"));
            ses.require(format!("guard/pre/{kt}/accept_ownership"));
        }
        // instantiate: plain accounts refused (naming themselves AND naming an existing contract), a contract accepted
        ses.require(format!("inst/user-names-existing-contract/{kt}/err"));
        ses.require(format!("inst/contract-names-itself/{kt}/ok"));
        ses.require(format!("guard/pre/{kt}/instantiate"));
    }
    ses.require("guard/pre/c.updatable/enable_updatable");
    ses.require("guard/post/c.updatable/enable_updatable");
    ses.require("guard/post/c.updatable/update_token_metadata");
    for e in ["expiry/accept/-1/ok", "expiry/accept/0/err", "expiry/accept/+1/err", "big/wl-admins-101/ok", "big/group-at-max/ok"] {
        ses.require(e);
    }
    for w in ALL_WL {
        if w != WlKind::Immutable {
            ses.require(format!("guard/post/{}/update_admins", wk_tok(w)));
            ses.require(format!("{}/freeze/principal/frozen/ok", wk_tok(w)));
        }
    }
    for r in ["guard/post/w.plain/update_start_time", "guard/post/w.plain/remove_members", "guard/post/w.tiered/add_stage", "guard/pre/splits/distribute", "guard/post/splits/distribute", "guard/post/splits/update_admin", "guard/post/group/update_members"] {
        ses.require(r);
    }
    if let Ok(pat) = std::env::var("C05_CLASSES") {
        for c in ses.classes.iter().filter(|c| c.contains(&pat)) {
            eprintln!("CLASS {c}");
        }
    }
    ses.note("callers: 14 account roles + every contract of the world; phases: fresh, early-handover (creator handed over before the sale starts), started, soldout, handover (overwritten transfer, expiry −1ns/0/+1ns, 101 admins), splits admin removed (group grown to the maximum), frozen, random continuation, renounced, instantiate (sender and named minter varied independently)");
    ses.finish(&mut sut);
}
