//! C11 — whitelist membership accounting, capacity and fees.
//! The five REAL list-based whitelist contracts in a cw-multi-test App vs `LP.WlMembers` (Lean).
//!
//! Protocol: see lean/LaunchpadModel/Driver/C11.lean. Every observation enumerates the stored members by paging the
//! `Members` query to exhaustion AND by reading the contract's storage through the crate's own typed `state::` maps,
//! asks `HasMember` / `StageMemberInfo` / `AllStageMemberInfo` / `Member` for every address of the case's probe list, reads
//! `Config`, `Stage(k)`, `Stages` and the bank balances (native and one other denom) of every funded account, the contract
//! and the fair-burn pool.
//!
//! Projection: the part of an answer before ` ## ` is what C11 constrains; burn/pool split, answers for invalid addresses,
//! the out-of-range `StageMemberInfo` row, the active-stage index and the model's "adopted variant" note are DRIFT only.
use std::collections::{BTreeMap, BTreeSet};

use cosmwasm_std::{Addr, Coin, Order, Timestamp};
use cw_multi_test::{BankSudo, Executor, SudoMsg};
use cw_storage_plus::Map as CwMap;
use lp_harness::boxes::{self, App};
use lp_harness::world::{addr, addr_id, denom, ID_FAIRBURN_POOL};
use lp_harness::*;
use serde_json::{json, Value};

// ------------------------------------------------------------------------------------------------ naming

const NATIVE: &str = "ustars";
/// ids >= 90000 are rendered as two-character strings, which `MockApi::addr_validate` rejects (too short);
/// they sort after every valid name, so string order == numeric order over the whole universe.
fn name(id: u64) -> String {
    if id >= 90000 {
        format!("z{}", id - 90000)
    } else {
        addr(id)
    }
}
fn name_id(s: &str) -> u64 {
    if let Some(k) = s.strip_prefix('z') {
        if let Ok(k) = k.parse::<u64>() {
            return 90000 + k;
        }
    }
    addr_id(s)
}

#[derive(Clone, Copy, Debug, PartialEq, Eq)]
enum Kind {
    Plain,
    Flex,
    Tiered,
    TFlex,
    Immutable,
}
const MUTABLE: [Kind; 4] = [Kind::Plain, Kind::Flex, Kind::Tiered, Kind::TFlex];

impl Kind {
    fn parse(s: &str) -> Kind {
        match s {
            "plain" => Kind::Plain,
            "flex" => Kind::Flex,
            "tiered" => Kind::Tiered,
            "tflex" => Kind::TFlex,
            "immutable" => Kind::Immutable,
            k => panic!("kind {k}"),
        }
    }
    fn tag(self) -> &'static str {
        match self {
            Kind::Plain => "plain",
            Kind::Flex => "flex",
            Kind::Tiered => "tiered",
            Kind::TFlex => "tflex",
            Kind::Immutable => "immutable",
        }
    }
    /// crate directory name, used in monitor keys
    fn krate(self) -> &'static str {
        match self {
            Kind::Plain => "whitelist",
            Kind::Flex => "whitelist-flex",
            Kind::Tiered => "tiered-whitelist",
            Kind::TFlex => "tiered-whitelist-flex",
            Kind::Immutable => "whitelist-immutable",
        }
    }
    fn is_flex(self) -> bool {
        matches!(self, Kind::Flex | Kind::TFlex)
    }
    fn is_tiered(self) -> bool {
        matches!(self, Kind::Tiered | Kind::TFlex)
    }
    /// the crate's own `pub const MAX_MEMBERS` (the monitor uses the implementation's value)
    fn max_members(self) -> u64 {
        match self {
            Kind::Plain => sg_whitelist::contract::MAX_MEMBERS as u64,
            Kind::Flex => sg_whitelist_flex::contract::MAX_MEMBERS as u64,
            Kind::Tiered => sg_tiered_whitelist::contract::MAX_MEMBERS as u64,
            Kind::TFlex => sg_tiered_whitelist_flex::contract::MAX_MEMBERS as u64,
            Kind::Immutable => 0,
        }
    }
    fn boxed(self) -> boxes::Boxed {
        match self {
            Kind::Plain => boxes::whitelist(),
            Kind::Flex => boxes::whitelist_flex(),
            Kind::Tiered => boxes::tiered_whitelist(),
            Kind::TFlex => boxes::tiered_whitelist_flex(),
            Kind::Immutable => boxes::whitelist_immutable(),
        }
    }
    /// storage namespace of the member map, taken from the crate's typed constant (a rename is followed automatically)
    fn member_namespace(self) -> String {
        let ns: &[u8] = match self {
            Kind::Plain => sg_whitelist::state::WHITELIST.namespace(),
            Kind::Flex => sg_whitelist_flex::state::WHITELIST.namespace(),
            Kind::Tiered => sg_tiered_whitelist::state::WHITELIST_STAGES.namespace(),
            Kind::TFlex => sg_tiered_whitelist_flex::state::WHITELIST_STAGES.namespace(),
            Kind::Immutable => whitelist_immutable::state::WHITELIST.namespace(),
        };
        String::from_utf8_lossy(ns).to_string()
    }
    /// JSON schema of the crate's `ExecuteMsg` (run-time view of the message surface)
    fn exec_schema(self) -> Value {
        let v = match self {
            Kind::Plain => serde_json::to_value(cosmwasm_schema::schema_for!(sg_whitelist::msg::ExecuteMsg)),
            Kind::Flex => serde_json::to_value(cosmwasm_schema::schema_for!(sg_whitelist_flex::msg::ExecuteMsg)),
            Kind::Tiered => serde_json::to_value(cosmwasm_schema::schema_for!(sg_tiered_whitelist::msg::ExecuteMsg)),
            Kind::TFlex => serde_json::to_value(cosmwasm_schema::schema_for!(sg_tiered_whitelist_flex::msg::ExecuteMsg)),
            Kind::Immutable => serde_json::to_value(cosmwasm_schema::schema_for!(whitelist_immutable::msg::ExecuteMsg)),
        };
        v.unwrap_or(Value::Null)
    }
}

/// The property text: "100 STARS per started thousand" — literal, in ustars.
const HUNDRED_STARS: u128 = 100_000_000;
fn fee_for_limit(limit: u64) -> u128 {
    ((limit as u128 + 999) / 1000) * HUNDRED_STARS
}

// ------------------------------------------------------------------------------------------------ message surface (run time)

/// execute variants this harness knows how to drive, with the protocol op that sends them
const KNOWN_VARIANTS: [(&str, &str); 11] = [
    ("update_start_time", "env"),
    ("update_end_time", "env"),
    ("update_per_address_limit", "env"),
    ("update_admins", "env"),
    ("freeze", "env"),
    ("update_stage_config", "env"),
    ("add_members", "add"),
    ("remove_members", "rm"),
    ("add_stage", "addstage"),
    ("remove_stage", "rmstage"),
    ("increase_member_limit", "inc"),
];

/// variant names of an `ExecuteMsg` schema, each with its sub-schema
fn schema_variants(schema: &Value) -> Vec<(String, Value)> {
    let mut out = vec![];
    for key in ["oneOf", "anyOf"] {
        if let Some(arr) = schema[key].as_array() {
            for v in arr {
                if let Some(req) = v["required"].as_array() {
                    if let Some(n) = req.first().and_then(|x| x.as_str()) {
                        out.push((n.to_string(), v["properties"][n].clone()));
                    }
                } else if let Some(en) = v["enum"].as_array() {
                    for n in en.iter().filter_map(|x| x.as_str()) {
                        out.push((n.to_string(), Value::Null));
                    }
                }
            }
        }
    }
    out
}

/// a minimal, plausible argument for a schema node (used only for variants the harness has never heard of)
fn sample(node: &Value, defs: &Value, depth: u32) -> Value {
    if depth > 6 || node.is_null() {
        return Value::Null;
    }
    if let Some(r) = node["$ref"].as_str() {
        let n = r.rsplit('/').next().unwrap_or("");
        if n.starts_with("Uint") || n.starts_with("Int") || n == "Timestamp" || n == "Decimal" {
            return json!("1");
        }
        return sample(&defs[n], defs, depth + 1);
    }
    for key in ["allOf", "anyOf", "oneOf"] {
        if let Some(arr) = node[key].as_array() {
            if let Some(first) = arr.iter().find(|x| x["type"] != "null") {
                return sample(first, defs, depth + 1);
            }
        }
    }
    if let Some(en) = node["enum"].as_array() {
        return en.first().cloned().unwrap_or(Value::Null);
    }
    let ty = match &node["type"] {
        Value::String(s) => s.clone(),
        Value::Array(a) => a.iter().filter_map(|x| x.as_str()).find(|x| *x != "null").unwrap_or("null").to_string(),
        _ => "object".to_string(),
    };
    match ty.as_str() {
        "object" => {
            let mut m = serde_json::Map::new();
            if let Some(req) = node["required"].as_array() {
                for r in req.iter().filter_map(|x| x.as_str()) {
                    m.insert(r.to_string(), sample(&node["properties"][r], defs, depth + 1));
                }
            }
            Value::Object(m)
        }
        "array" => json!([]),
        "integer" | "number" => json!(1),
        "boolean" => json!(false),
        "string" => json!(name(10)),
        _ => Value::Null,
    }
}

/// (known variant names present, unknown variants with a ready-made message)
fn surface(kind: Kind) -> (Vec<String>, Vec<(String, Value)>) {
    let schema = kind.exec_schema();
    let defs = schema["definitions"].clone();
    let mut known = vec![];
    let mut unknown = vec![];
    for (n, sub) in schema_variants(&schema) {
        if KNOWN_VARIANTS.iter().any(|(k, _)| *k == n) {
            known.push(n);
        } else {
            let arg = if sub.is_null() { Value::Null } else { sample(&sub, &defs, 0) };
            let msg = if sub.is_null() { json!(n) } else { json!({ n.clone(): arg }) };
            unknown.push((n, msg));
        }
    }
    (known, unknown)
}

// ------------------------------------------------------------------------------------------------ world

/// accounts that hold funds and send messages
const FUNDED: [u64; 4] = [5, 6, 7, 8];
const START_NATIVE: u128 = 1_000_000_000_000_000;
const START_OTHER: u128 = 1_000_000_000;

type Map = BTreeMap<u64, u64>; // address id -> mint count (0 for the bool-valued kinds)
type Pairs = Vec<(u64, u64)>;

#[derive(Clone, Debug, Default)]
struct Snap {
    num: u64,
    limit: u64,
    /// members enumerated by paging `Members`, in the order returned, duplicates preserved (one list per stage / one for flat kinds)
    paged: Vec<Pairs>,
    /// members read from storage through the crate's typed map (ground truth of what is stored), in key order
    stored: Vec<Pairs>,
    /// the typed read failed / was empty although paging found members: `stored` is a copy of `paged`
    stored_fallback: bool,
    /// `Stage(k).member_count`
    counts: Vec<u64>,
    /// `Stages{}.stages[k].member_count` (a separate expression in the Rust)
    counts_list: Vec<u64>,
    /// stage windows (tiered) or [(start, end)] (flat)
    times: Vec<(u64, u64)>,
    admins: Vec<u64>,
    /// `ActiveStageId` - 1
    act: Option<u64>,
    has: Vec<Option<bool>>,
    /// StageMemberInfo per stage 0..=nstages per probe address
    sm: Vec<Vec<Option<bool>>>,
    /// AllStageMemberInfo per probe address
    asm: Vec<Option<Vec<bool>>>,
    mc: Vec<Option<u64>>,
    bal: u128,
    bal2: u128,
    paid: u128,
    paid2: u128,
    burned: u128,
    pool: u128,
}

/// The harness's own bookkeeping, derived only from what it SENT and from whether the call succeeded.
#[derive(Clone, Debug, Default)]
struct Ghost {
    maps: Vec<Map>,
    limit: u64,
    /// native funds attached to successful fee-bearing calls
    fees_sent: u128,
    /// funds attached to successful calls of messages that charge nothing (native / other denom)
    tips: u128,
    tips2: u128,
}

struct S {
    kind: Kind,
    uni: Vec<u64>,
    literal: bool,
    app: App,
    wl: Option<Addr>,
    log: Vec<String>,
    // monitor bookkeeping (independent of the Lean model)
    prev: Option<Snap>,
    cur: Option<Snap>,
    ghost: Option<Ghost>,
    last_line: String,
    last_ok: bool,
    now: u64,
    fallbacks: u64,
}

fn fresh_app() -> App {
    let mut app = boxes::custom_mock_app();
    for id in FUNDED {
        app.sudo(SudoMsg::Bank(BankSudo::Mint {
            to_address: addr(id),
            amount: vec![Coin::new(START_NATIVE, NATIVE), Coin::new(START_OTHER, denom(1))],
        }))
        .unwrap();
    }
    app
}

fn members_json(kind: Kind, ms: &[(u128, u128)]) -> Value {
    if kind.is_flex() {
        Value::Array(ms.iter().map(|(a, c)| json!({"address": name(*a as u64), "mint_count": *c as u64})).collect())
    } else {
        Value::Array(ms.iter().map(|(a, _)| json!(name(*a as u64))).collect())
    }
}
fn stage_json(kind: Kind, i: usize, start: u128, end: u128) -> Value {
    let mut v = json!({
        "name": format!("stage{i}"),
        "start_time": start.to_string(),
        "end_time": end.to_string(),
        "mint_price": {"denom": NATIVE, "amount": "100"},
        "mint_count_limit": null,
    });
    if kind == Kind::Tiered {
        v["per_address_limit"] = json!(1);
    }
    v
}
fn parse_lists(s: &str) -> Vec<Vec<(u128, u128)>> {
    if s == "~" {
        return vec![];
    }
    s.split('|')
        .map(|p| {
            if p == "-" || p.is_empty() {
                vec![]
            } else {
                p.split(',').filter_map(|x| { let (a, b) = x.split_once(':')?; Some((a.parse().ok()?, b.parse().ok()?)) }).collect()
            }
        })
        .collect()
}
fn funds_of(pairs: &[(u128, u128)]) -> Vec<Coin> {
    pairs.iter().map(|(d, a)| Coin::new(*a, denom(*d as u64))).collect()
}
fn tip_of(t: u128, t2: u128) -> Vec<Coin> {
    let mut v = vec![];
    if t2 > 0 {
        v.push(Coin::new(t2, denom(1)));
    }
    if t > 0 {
        v.push(Coin::new(t, NATIVE));
    }
    v
}
/// what a member list stores when it is processed into `map`: plain kinds `true` (0), flex kinds the first mint count listed
fn ghost_insert(kind: Kind, map: &mut Map, ms: &[(u128, u128)]) {
    for (a, c) in ms {
        map.entry(*a as u64).or_insert(if kind.is_flex() { *c as u64 } else { 0 });
    }
}

impl S {
    fn new() -> S {
        S {
            kind: Kind::Plain,
            uni: vec![],
            literal: false,
            app: fresh_app(),
            wl: None,
            log: vec![],
            prev: None,
            cur: None,
            ghost: None,
            last_line: String::new(),
            last_ok: false,
            now: 0,
            fallbacks: 0,
        }
    }
    fn reset_world(&mut self) {
        self.app = fresh_app();
        self.wl = None;
        self.prev = None;
        self.cur = None;
        self.ghost = None;
    }
    fn set_now(&mut self, now: u64) {
        self.now = now;
        self.app.update_block(|b| {
            b.time = Timestamp::from_nanos(now);
            b.height += 1;
        });
    }
    fn q(&self, msg: Value) -> Option<Value> {
        let wl = self.wl.clone()?;
        catch(|| self.app.wrap().query_wasm_smart::<Value>(wl, &msg).ok()).ok().flatten()
    }
    fn bal(&self, who: &str, d: &str) -> u128 {
        self.app.wrap().query_balance(who, d).map(|c| c.amount.u128()).unwrap_or(0)
    }
    fn valid(&self, a: u64) -> bool {
        self.kind == Kind::Immutable || a < 90000
    }

    fn n_stages(&self) -> usize {
        match self.q(json!({"stages": {}})) {
            Some(v) => v["stages"].as_array().map(|a| a.len()).unwrap_or(0),
            None => 0,
        }
    }

    /// one `Members` query; None = query error
    fn page(&self, stage: u64, after: Option<u64>, limit: Option<u64>) -> Option<Pairs> {
        let mut m = json!({"start_after": after.map(name), "limit": limit});
        if self.kind.is_tiered() {
            m["stage_id"] = json!(stage);
        }
        let v = self.q(json!({ "members": m }))?;
        let arr = v["members"].as_array()?;
        Some(
            arr.iter()
                .map(|x| match x {
                    Value::String(s) => (name_id(s), 0),
                    o => (name_id(o["address"].as_str().unwrap_or("?")), o["mint_count"].as_u64().unwrap_or(u64::MAX)),
                })
                .collect(),
        )
    }
    /// walk all pages with page size `pg`, in the order the contract returns them
    fn walk(&self, stage: u64, pg: u64) -> Pairs {
        let mut out: Pairs = vec![];
        let mut after = None;
        for _ in 0..20_000 {
            match self.page(stage, after, Some(pg)) {
                None => break,
                Some(p) if p.is_empty() => break,
                Some(p) => {
                    let last = p.last().unwrap().0;
                    out.extend(p);
                    // a cursor that does not advance (broken paging) would never end: keep what was returned and stop
                    if after == Some(last) || out.len() > 50_000 {
                        break;
                    }
                    after = Some(last);
                }
            }
        }
        out
    }

    /// What is stored, read through the crate's own map namespace with a value type that accepts anything.
    /// None = the typed read failed (key layout changed): the caller falls back to the paged enumeration.
    fn stored(&self, n_stages: usize) -> Option<Vec<Pairs>> {
        let wl = self.wl.as_ref()?;
        let ns = self.kind.member_namespace();
        let val = |v: &Value| -> u64 {
            match v {
                Value::Number(n) => n.as_u64().unwrap_or(u64::MAX),
                _ => 0,
            }
        };
        let storage = self.app.contract_storage(wl);
        let r = catch(|| -> Option<Vec<Pairs>> {
            if self.kind.is_tiered() {
                let m: CwMap<(u32, String), Value> = CwMap::new(&ns);
                let mut maps: BTreeMap<u64, Pairs> = BTreeMap::new();
                for e in m.range(&*storage, None, None, Order::Ascending) {
                    let ((k, a), v) = e.ok()?;
                    maps.entry(k as u64).or_default().push((name_id(&a), val(&v)));
                }
                let n = n_stages.max(maps.keys().next_back().map(|k| *k as usize + 1).unwrap_or(0));
                Some((0..n as u64).map(|i| maps.get(&i).cloned().unwrap_or_default()).collect())
            } else {
                let m: CwMap<String, Value> = CwMap::new(&ns);
                let mut l: Pairs = vec![];
                for e in m.range(&*storage, None, None, Order::Ascending) {
                    let (a, v) = e.ok()?;
                    l.push((name_id(&a), val(&v)));
                }
                Some(vec![l])
            }
        });
        r.ok().flatten()
    }

    fn snapshot(&mut self, pg: u64) -> Option<Snap> {
        let wl = self.wl.clone()?;
        let mut s = Snap::default();
        let uni = self.uni.clone();
        match self.kind {
            Kind::Immutable => {
                s.num = self.q(json!({"address_count": {}})).and_then(|v| v.as_u64()).unwrap_or(u64::MAX);
                s.limit = 0;
                s.has = uni.iter().map(|a| self.q(json!({"includes_address": {"address": name(*a)}})).and_then(|v| v.as_bool())).collect();
            }
            _ => {
                let cfg = self.q(json!({"config": {}})).unwrap_or(Value::Null);
                s.num = cfg["num_members"].as_u64().unwrap_or(u64::MAX);
                s.limit = cfg["member_limit"].as_u64().unwrap_or(u64::MAX);
                let adm = self.q(json!({"admin_list": {}})).unwrap_or(Value::Null);
                s.admins = adm["admins"].as_array().map(|a| a.iter().map(|x| name_id(x.as_str().unwrap_or("?"))).collect()).unwrap_or_default();
                let ts = |v: &Value| v.as_str().and_then(|x| x.parse::<u64>().ok()).unwrap_or(0);
                if self.kind.is_tiered() {
                    let st = self.q(json!({"stages": {}})).unwrap_or(Value::Null);
                    let arr = st["stages"].as_array().cloned().unwrap_or_default();
                    for (i, g) in arr.iter().enumerate() {
                        s.times.push((ts(&g["stage"]["start_time"]), ts(&g["stage"]["end_time"])));
                        s.counts_list.push(g["member_count"].as_u64().unwrap_or(u64::MAX));
                        // per-stage query, independent of the list query
                        let one = self.q(json!({"stage": {"stage_id": i}})).unwrap_or(Value::Null);
                        s.counts.push(one["member_count"].as_u64().unwrap_or(u64::MAX));
                        s.paged.push(self.walk(i as u64, pg));
                    }
                    for k in 0..=arr.len() {
                        s.sm.push(
                            uni.iter().map(|a| self.q(json!({"stage_member_info": {"stage_id": k, "member": name(*a)}})).and_then(|v| v["is_member"].as_bool())).collect(),
                        );
                    }
                    s.asm = uni
                        .iter()
                        .map(|a| {
                            let v = self.q(json!({"all_stage_member_info": {"member": name(*a)}}))?;
                            let arr = v["all_stage_member_info"].as_array()?;
                            // answers are matched to stages by their own `stage_id` field when present, else by position
                            let mut bits = vec![false; arr.len()];
                            for (pos, e) in arr.iter().enumerate() {
                                let idx = e["stage_id"].as_u64().map(|x| x as usize).unwrap_or(pos);
                                if idx < bits.len() {
                                    bits[idx] = e["is_member"].as_bool().unwrap_or(false);
                                }
                            }
                            Some(bits)
                        })
                        .collect();
                    s.act = self.q(json!({"active_stage_id": {}})).and_then(|v| v.as_u64()).and_then(|x| x.checked_sub(1));
                } else {
                    s.times.push((ts(&cfg["start_time"]), ts(&cfg["end_time"])));
                    s.paged.push(self.walk(0, pg));
                }
                s.has = uni.iter().map(|a| self.q(json!({"has_member": {"member": name(*a)}})).and_then(|v| v["has_member"].as_bool())).collect();
                if self.kind.is_flex() {
                    s.mc = uni.iter().map(|a| self.q(json!({"member": {"member": name(*a)}})).and_then(|v| v["mint_count"].as_u64())).collect();
                }
            }
        }
        // ground truth of what is stored
        let n_st = if self.kind.is_tiered() { s.paged.len() } else { 1 };
        let paged_any = s.paged.iter().any(|p| !p.is_empty());
        match self.stored(n_st) {
            Some(st) if self.kind == Kind::Immutable || !(paged_any && st.iter().all(|m| m.is_empty())) => s.stored = st,
            _ => {
                // unreadable (or unrecognised) storage layout: never a failure by itself
                s.stored = s.paged.clone();
                s.stored_fallback = true;
                self.fallbacks += 1;
            }
        }
        if self.kind == Kind::Immutable {
            s.paged = s.stored.clone();
        }
        s.bal = self.bal(wl.as_str(), NATIVE);
        s.pool = self.bal(&addr(ID_FAIRBURN_POOL), NATIVE);
        let users: u128 = FUNDED.iter().map(|id| self.bal(&addr(*id), NATIVE)).sum();
        let total0 = START_NATIVE * FUNDED.len() as u128;
        s.paid = total0 - users;
        s.burned = total0 - users - s.bal - s.pool;
        let d1 = denom(1);
        s.bal2 = self.bal(wl.as_str(), &d1);
        let users2: u128 = FUNDED.iter().map(|id| self.bal(&addr(*id), &d1)).sum();
        s.paid2 = START_OTHER * FUNDED.len() as u128 - users2;
        Some(s)
    }

    /// must mirror `renderObs` of the Lean driver field by field
    fn render(&self, s: &Snap) -> String {
        let bit = |o: &Option<bool>| match o {
            Some(true) => '1',
            Some(false) => '0',
            None => 'e',
        };
        let k = self.kind;
        let nst = s.times.len();
        let dot = |x: String| if x.is_empty() { ".".to_string() } else { x };
        let mem = if s.paged.is_empty() { "-".to_string() } else { s.paged.iter().map(|p| fmt_pairs(p)).collect::<Vec<_>>().join("|") };
        let cnt = if k.is_tiered() { fmt_list(&s.counts) } else { "-".into() };
        let cntl = if k.is_tiered() { fmt_list(&s.counts_list) } else { "-".into() };
        let has: String = self.uni.iter().zip(&s.has).map(|(a, b)| if self.valid(*a) { bit(b) } else { '-' }).collect();
        let row = |r: &Vec<Option<bool>>, only_valid: bool| -> String { self.uni.iter().zip(r).filter(|(a, _)| !only_valid || self.valid(**a)).map(|(_, b)| bit(b)).collect() };
        let sm = if k.is_tiered() && nst > 0 { (0..nst).map(|i| row(&s.sm[i], true)).collect::<Vec<_>>().join("|") } else { "-".into() };
        let asm = if k.is_tiered() {
            self.uni.iter().zip(&s.asm).map(|(a, r)| if !self.valid(*a) { "-".to_string() } else { match r { Some(bs) => dot(bs.iter().map(|b| if *b { '1' } else { '0' }).collect()), None => "e".into() } }).collect::<Vec<_>>().join(",")
        } else {
            "-".into()
        };
        let mc_of = |c: &Option<u64>| c.map(|x| x.to_string()).unwrap_or_else(|| "x".into());
        let mc = if k.is_flex() { self.uni.iter().zip(&s.mc).map(|(a, c)| if self.valid(*a) { mc_of(c) } else { "-".into() }).collect::<Vec<_>>().join(",") } else { "-".into() };
        // outside the projection
        let act = if k.is_tiered() { fmt_opt(&s.act) } else { "-".into() };
        let invs: Vec<usize> = (0..self.uni.len()).filter(|i| !self.valid(self.uni[*i])).collect();
        let inv = if invs.is_empty() {
            "-".to_string()
        } else {
            invs.iter()
                .map(|&i| {
                    let mut x = String::new();
                    x.push(bit(&s.has[i]));
                    if k.is_tiered() {
                        for st in 0..nst {
                            x.push(bit(&s.sm[st][i]));
                        }
                        x.push(if s.asm[i].is_some() { 'a' } else { 'e' });
                    }
                    if k.is_flex() {
                        x.push_str(&mc_of(&s.mc[i]));
                    }
                    x
                })
                .collect::<Vec<_>>()
                .join(",")
        };
        let smx = if k.is_tiered() { dot(row(&s.sm[nst], false)) } else { "-".into() };
        format!(
            "n={} lim={} mem={} cnt={} cntl={} has={} sm={} asm={} mc={} bal={} bal2={} paid={} out={} ## burned={} pool={} act={} inv={} smx={} adopt=-",
            s.num, s.limit, mem, cnt, cntl, has, sm, asm, mc, s.bal, s.bal2, s.paid, s.burned + s.pool, s.burned, s.pool, act, inv, smx
        )
    }

    fn observe(&mut self, pg: u64) -> String {
        let snap = self.snapshot(pg);
        let out = match &snap {
            None => "none".to_string(),
            Some(s) => self.render(s),
        };
        self.prev = self.cur.take();
        self.cur = snap;
        out
    }

    fn execute(&mut self, sender: u64, msg: Value, funds: Vec<Coin>) -> Result<bool, String> {
        let Some(wl) = self.wl.clone() else { return Ok(false) };
        let app = &mut self.app;
        catch(move || app.execute_contract(Addr::unchecked(name(sender)), wl, &msg, &funds).is_ok())
    }

    /// Rebuild the world from the op log (after a panic inside a contract call the App may be half-written).
    fn rebuild(&mut self) {
        let log = std::mem::take(&mut self.log);
        self.reset_world();
        for l in &log {
            let _ = self.exec_inner(l);
        }
        self.log = log;
    }

    /// witness fields for the model: what happened and what the contract now reports about admins / schedule
    fn witness(&self, ok: bool) -> String {
        match &self.cur {
            Some(s) => format!(" w_res={} w_adm={} w_t={} w_act={}", ok as u8, fmt_list(&s.admins), fmt_pairs(&s.times), fmt_opt(&s.act)),
            None => format!(" w_res={} w_adm=- w_t=- w_act=-", ok as u8),
        }
    }

    /// bookkeeping of what the successful messages listed (never looks at the contract)
    fn update_ghost(&mut self, op: &str, line: &str) {
        let kind = self.kind;
        let (tip, tip2) = (kv_u128(line, "tip").unwrap_or(0), kv_u128(line, "tip2").unwrap_or(0));
        if op == "inst" {
            let mut g = Ghost { limit: kv_u64(line, "limit").unwrap_or(0), ..Default::default() };
            let funds = kv_pairs(line, "funds").unwrap_or_default();
            g.fees_sent = funds.iter().filter(|(d, _)| *d == 0).map(|(_, a)| *a).sum();
            if kind.is_tiered() {
                for l in parse_lists(kv(line, "smembers").unwrap_or("~")) {
                    let mut m = Map::new();
                    ghost_insert(kind, &mut m, &l);
                    g.maps.push(m);
                }
            } else {
                let mut m = Map::new();
                ghost_insert(kind, &mut m, &kv_pairs(line, "members").unwrap_or_default());
                g.maps.push(m);
            }
            if kind == Kind::Immutable {
                g.limit = 0;
            }
            self.ghost = Some(g);
            return;
        }
        let Some(g) = self.ghost.as_mut() else { return };
        let stage = if kind.is_tiered() { kv_u64(line, "stage").unwrap_or(0) as usize } else { 0 };
        match op {
            "add" => {
                if let Some(m) = g.maps.get_mut(stage) {
                    ghost_insert(kind, m, &kv_pairs(line, "members").unwrap_or_default());
                }
            }
            "rm" => {
                if let Some(m) = g.maps.get_mut(stage) {
                    for a in kv_list(line, "addrs").unwrap_or_default() {
                        m.remove(&(a as u64));
                    }
                }
            }
            "addstage" => {
                let mut m = Map::new();
                ghost_insert(kind, &mut m, &kv_pairs(line, "members").unwrap_or_default());
                g.maps.push(m);
            }
            "rmstage" => g.maps.truncate(stage),
            "inc" => {
                g.limit = kv_u64(line, "limit").unwrap_or(g.limit);
                g.fees_sent += kv_pairs(line, "funds").unwrap_or_default().iter().filter(|(d, _)| *d == 0).map(|(_, a)| *a).sum::<u128>();
            }
            _ => {}
        }
        if op != "inc" {
            g.tips += tip;
            g.tips2 += tip2;
        }
    }

    fn exec_inner(&mut self, line: &str) -> (String, String) {
        let op = line.split_whitespace().next().unwrap_or("");
        let pg = kv_u64(line, "pg").unwrap_or(7);
        let kind = self.kind;
        let sender = kv_u64(line, "sender").unwrap_or(5);
        if let Some(now) = kv_u64(line, "now") {
            self.set_now(now);
        }
        self.last_line = line.to_string();
        self.last_ok = false;
        let tip = kv_u128(line, "tip").unwrap_or(0);
        let tip2 = kv_u128(line, "tip2").unwrap_or(0);
        let stage = kv_u64(line, "stage").unwrap_or(0);
        let mut panicked = false;
        let mut res = |r: Result<bool, String>| -> bool {
            match r {
                Ok(b) => b,
                Err(_) => {
                    panicked = true;
                    false
                }
            }
        };
        let bad = || (line.to_string(), "bad-op".to_string());
        let ok: bool = match op {
            "inst" => {
                self.reset_world();
                let Some(now) = kv_u64(line, "now") else { return bad() };
                self.set_now(now);
                let (Some(funds), Some(limit), Some(whale), Some(admins), Some(start), Some(end), Some(members), Some(stages), Some(sm)) = (
                    kv_pairs(line, "funds"), kv_u64(line, "limit"), kv_opt_u64(line, "whale"), kv_list(line, "admins"), kv_u128(line, "start"),
                    kv_u128(line, "end"), kv_pairs(line, "members"), kv_pairs(line, "stages"), kv(line, "smembers"),
                ) else { return bad() };
                let funds = funds_of(&funds);
                let admins: Vec<String> = admins.iter().map(|a| name(*a as u64)).collect();
                let smembers = parse_lists(sm);
                let msg = match kind {
                    Kind::Plain => json!({"members": members_json(kind, &members), "start_time": start.to_string(), "end_time": end.to_string(),
                        "mint_price": {"denom": NATIVE, "amount": "100"}, "per_address_limit": 1, "member_limit": limit,
                        "admins": admins, "admins_mutable": true}),
                    Kind::Flex => json!({"members": members_json(kind, &members), "start_time": start.to_string(), "end_time": end.to_string(),
                        "mint_price": {"denom": NATIVE, "amount": "100"}, "member_limit": limit,
                        "admins": admins, "admins_mutable": true, "whale_cap": whale}),
                    Kind::Tiered => json!({"members": smembers.iter().map(|l| members_json(kind, l)).collect::<Vec<_>>(),
                        "stages": stages.iter().enumerate().map(|(i, (s, e))| stage_json(kind, i, *s, *e)).collect::<Vec<_>>(),
                        "member_limit": limit, "admins": admins, "admins_mutable": true}),
                    Kind::TFlex => json!({"members": smembers.iter().map(|l| members_json(kind, l)).collect::<Vec<_>>(),
                        "stages": stages.iter().enumerate().map(|(i, (s, e))| stage_json(kind, i, *s, *e)).collect::<Vec<_>>(),
                        "member_limit": limit, "admins": admins, "admins_mutable": true, "whale_cap": whale}),
                    Kind::Immutable => json!({"addresses": members.iter().map(|(a, _)| name(*a as u64)).collect::<Vec<_>>(),
                        "per_address_limit": 1, "mint_discount_bps": null}),
                };
                let code = self.app.store_code(kind.boxed());
                let app = &mut self.app;
                let r = catch(move || app.instantiate_contract(code, Addr::unchecked(name(sender)), &msg, &funds, "wl", None).ok());
                match r {
                    Ok(Some(a)) => {
                        self.wl = Some(a);
                        true
                    }
                    Ok(None) => false,
                    Err(_) => {
                        // nothing existed before an instantiate: a fresh world is the rolled-back state
                        self.reset_world();
                        self.set_now(now);
                        false
                    }
                }
            }
            "add" => {
                let Some(ms) = kv_pairs(line, "members") else { return bad() };
                let mut m = json!({"to_add": members_json(kind, &ms)});
                if kind.is_tiered() {
                    m["stage_id"] = json!(stage);
                }
                res(self.execute(sender, json!({ "add_members": m }), tip_of(tip, tip2)))
            }
            "rm" => {
                let Some(xs) = kv_list(line, "addrs") else { return bad() };
                let xs: Vec<String> = xs.iter().map(|a| name(*a as u64)).collect();
                let mut m = json!({ "to_remove": xs });
                if kind.is_tiered() {
                    m["stage_id"] = json!(stage);
                }
                res(self.execute(sender, json!({ "remove_members": m }), tip_of(tip, tip2)))
            }
            "addstage" => {
                let (Some(ms), Some(start), Some(end)) = (kv_pairs(line, "members"), kv_u128(line, "start"), kv_u128(line, "end")) else { return bad() };
                let n = self.n_stages();
                let st = stage_json(if kind.is_tiered() { kind } else { Kind::Tiered }, n, start, end);
                res(self.execute(sender, json!({"add_stage": {"stage": st, "members": members_json(kind, &ms)}}), tip_of(tip, tip2)))
            }
            "rmstage" => res(self.execute(sender, json!({"remove_stage": {"stage_id": stage}}), tip_of(tip, tip2))),
            "inc" => {
                let (Some(funds), Some(limit)) = (kv_pairs(line, "funds"), kv_u64(line, "limit")) else { return bad() };
                res(self.execute(sender, json!({ "increase_member_limit": limit }), funds_of(&funds)))
            }
            "env" => {
                let msg = match kv(line, "what").unwrap_or("") {
                    "upd_start" => json!({"update_start_time": kv_u128(line, "t").unwrap_or(0).to_string()}),
                    "upd_end" => json!({"update_end_time": kv_u128(line, "t").unwrap_or(0).to_string()}),
                    "upd_pal" => json!({"update_per_address_limit": kv_u64(line, "n").unwrap_or(1)}),
                    "upd_admins" => json!({"update_admins": {"admins": kv_list(line, "admins").unwrap_or_default().iter().map(|a| name(*a as u64)).collect::<Vec<_>>()}}),
                    "freeze" => json!({"freeze": {}}),
                    "upd_stage" => {
                        let mut m = json!({"stage_id": stage, "name": null, "mint_price": null, "mint_count_limit": null,
                            "start_time": kv_opt_u128(line, "start").unwrap_or(None).map(|t| t.to_string()),
                            "end_time": kv_opt_u128(line, "end").unwrap_or(None).map(|t| t.to_string())});
                        if kind == Kind::Tiered {
                            m["per_address_limit"] = Value::Null;
                        }
                        json!({ "update_stage_config": m })
                    }
                    _ => return bad(),
                };
                res(self.execute(sender, msg, tip_of(tip, tip2)))
            }
            "raw" => {
                // a message given verbatim (hex of its JSON): variants the harness has never heard of
                let Some(msg) = kv(line, "json").and_then(|h| hex::decode(h).ok()).and_then(|b| serde_json::from_slice::<Value>(&b).ok()) else { return bad() };
                res(self.execute(sender, msg, tip_of(tip, tip2)))
            }
            "q" | "page" => true,
            _ => return bad(),
        };
        if panicked {
            return (line.to_string(), "PANIC".into());
        }
        self.last_ok = ok;
        if ok && !matches!(op, "q" | "page") {
            self.update_ghost(op, line);
        }
        match op {
            "page" => {
                let (Some(after), Some(limit)) = (kv_opt_u64(line, "after"), kv_opt_u64(line, "limit")) else { return bad() };
                let out = if self.wl.is_none() || kind == Kind::Immutable {
                    "err".to_string()
                } else {
                    let r = match self.page(stage, after, limit) {
                        Some(p) => format!("ok {}", fmt_pairs(&p)),
                        None => "err".into(),
                    };
                    // an invalid `start_after`: what it answers is outside the projection
                    match after {
                        Some(a) if a >= 90000 => format!("page ## {r}"),
                        _ => r,
                    }
                };
                (line.to_string(), out)
            }
            "inst" => {
                let obs = self.observe(pg);
                (format!("{line}{}", self.witness(ok)), if ok { format!("ok {obs}") } else { "err none".into() })
            }
            _ => {
                let obs = self.observe(pg);
                (format!("{line}{}", self.witness(ok)), format!("{} {obs}", if ok { "ok" } else { "err" }))
            }
        }
    }
}

impl Sut for S {
    fn begin(&mut self, header: &str) -> (String, String) {
        self.kind = Kind::parse(kv(header, "kind").unwrap_or("plain"));
        self.uni = kv_list(header, "uni").unwrap_or_default().iter().map(|x| *x as u64).collect();
        self.literal = kv(header, "literal") == Some("1");
        self.log.clear();
        self.reset_world();
        self.last_line.clear();
        (header.to_string(), "case".into())
    }

    fn exec(&mut self, line: &str) -> (String, String) {
        let (m, mut out) = self.exec_inner(line);
        let mut m = m;
        if out == "PANIC" {
            // a panic inside a contract call = failed transaction; rebuild the world from the log, then observe
            self.rebuild();
            self.last_line = line.to_string();
            self.last_ok = false;
            let pg = kv_u64(line, "pg").unwrap_or(7);
            if let Some(now) = kv_u64(line, "now") {
                self.set_now(now);
            }
            let obs = self.observe(pg);
            out = if line.starts_with("inst") { "err none".into() } else { format!("err {obs}") };
            m = format!("{line}{}", self.witness(false));
        }
        self.log.push(line.to_string());
        (m, out)
    }

    /// Direct transcription of property C11 on the implementation's own observations and the harness's own bookkeeping
    /// of what it sent (no Lean model involved).
    fn monitor(&mut self) -> Option<(String, String)> {
        let line = self.last_line.clone();
        let op = line.split_whitespace().next().unwrap_or("").to_string();
        if op == "page" || op.is_empty() {
            return None;
        }
        let opname = match op.as_str() {
            "inst" => "instantiate",
            "add" => "add_members",
            "rm" => "remove_members",
            "addstage" => "add_stage",
            "rmstage" => "remove_stage",
            "inc" => "increase_member_limit",
            "env" | "raw" => "other",
            _ => "query",
        };
        let kind = self.kind;
        let cur = self.cur.clone()?;
        // a message the harness has never heard of: what it is MEANT to do to the member maps / the limit is unknown, so the ledger
        // is re-read from storage; the state invariants below (count = stored, capacity, limit monotone, fees, balances) still apply
        if op == "raw" && self.last_ok {
            if let Some(g) = self.ghost.as_mut() {
                g.maps = cur.stored.iter().map(|p| p.iter().copied().collect()).collect();
                g.limit = cur.limit;
            }
        }
        let ghost = self.ghost.clone().unwrap_or_default();
        let bad = |p: &str, w: String| Some((format!("{}/{}/{}", kind.krate(), opname, p), format!("{w} after `{line}`")));
        let as_map = |p: &Pairs| -> Map { p.iter().copied().collect() };
        let stored: Vec<Map> = cur.stored.iter().map(as_map).collect();

        // (1) reported count == number of distinct members actually stored, in total and per stage
        let stored_total: u64 = stored.iter().map(|m| m.len() as u64).sum();
        if cur.num != stored_total {
            let p = if kind.is_tiered() && opname == "instantiate" && kv(&line, "smembers").map(|s| parse_lists(s).len()) != kv_pairs(&line, "stages").map(|s| s.len()) {
                "member-lists-ne-stages"
            } else {
                "count-ne-stored"
            };
            return bad(p, format!("num_members={} but {} distinct members are stored", cur.num, stored_total));
        }
        // paging enumerates exactly what is stored: same entries, same order, nothing twice; nothing stored under a stage that does not exist
        if cur.paged != cur.stored.iter().take(cur.paged.len()).cloned().collect::<Vec<_>>() {
            let dup = cur.paged.iter().any(|p| as_map(p).len() != p.len());
            return bad(if dup { "paged-duplicates" } else { "paged-ne-stored" }, format!("paging Members enumerates {:?}, storage holds {:?}", cur.paged, cur.stored));
        }
        if cur.stored.iter().skip(cur.paged.len()).any(|m| !m.is_empty()) {
            return bad("orphan-members", format!("members are stored under a stage that does not exist: {:?}", cur.stored));
        }
        if kind.is_tiered() {
            for k in 0..cur.times.len() {
                let st = stored.get(k).map(|m| m.len() as u64).unwrap_or(0);
                if cur.counts.get(k) != Some(&st) {
                    return bad("stage-count-ne-stored", format!("stage {k}: Stage.member_count={:?} but {st} members are stored", cur.counts.get(k)));
                }
                if cur.counts_list.get(k) != Some(&st) {
                    return bad("stages-count-ne-stored", format!("stage {k}: Stages[].member_count={:?} but {st} members are stored", cur.counts_list.get(k)));
                }
            }
        }
        // the storage holds exactly what the successful messages listed (harness bookkeeping; values: first one listed wins)
        if self.ghost.is_some() {
            let mut want = ghost.maps.clone();
            let mut have = stored.clone();
            while want.last().map(|m| m.is_empty()).unwrap_or(false) && want.len() > have.len() { want.pop(); }
            while have.last().map(|m| m.is_empty()).unwrap_or(false) && have.len() > want.len() { have.pop(); }
            if want != have {
                return bad("stored-ne-listed", format!("storage holds {:?} but the successful messages listed {:?}", have, want));
            }
        }
        // (2) capacity: count <= limit <= MAX, limit never decreases and is what was asked for
        if kind != Kind::Immutable {
            if cur.num > cur.limit {
                return bad("count-gt-limit", format!("num_members={} exceeds member_limit={}", cur.num, cur.limit));
            }
            if cur.limit > kind.max_members() {
                return bad("limit-gt-max", format!("member_limit={} exceeds MAX_MEMBERS={}", cur.limit, kind.max_members()));
            }
            if op != "inst" {
                if let Some(p) = &self.prev {
                    if cur.limit < p.limit {
                        return bad("limit-decreased", format!("member_limit went {} -> {}", p.limit, cur.limit));
                    }
                }
            }
            if self.ghost.is_some() && cur.limit != ghost.limit {
                return bad("limit-ne-requested", format!("member_limit={} but the last successful instantiate / IncreaseMemberLimit asked for {}", cur.limit, ghost.limit));
            }
        }
        // (3) membership queries answer true exactly for stored members (tiered HasMember / Member: of the stage the contract calls active)
        let active: Option<usize> = if kind.is_tiered() { cur.act.map(|x| x as usize) } else { Some(0) };
        for (i, a) in self.uni.iter().enumerate() {
            let valid = self.valid(*a);
            let want = match active {
                Some(k) => stored.get(k).map(|m| m.contains_key(a)).unwrap_or(false),
                None => false,
            };
            match cur.has[i] {
                Some(b) if b != want => return bad("has-member-ne-stored", format!("HasMember({a})={b} but stored={want} (active stage {:?})", active)),
                None if valid => return bad("has-member-error", format!("HasMember({a}) failed for a valid address")),
                _ => {}
            }
            if kind.is_tiered() {
                for k in 0..cur.times.len() {
                    let w = stored.get(k).map(|m| m.contains_key(a)).unwrap_or(false);
                    if let Some(b) = cur.sm[k][i] {
                        if b != w {
                            return bad("stage-member-ne-stored", format!("StageMemberInfo({k},{a})={b} but stored={w}"));
                        }
                    } else if valid {
                        return bad("stage-member-error", format!("StageMemberInfo({k},{a}) failed"));
                    }
                }
                match &cur.asm[i] {
                    Some(bs) => {
                        let w: Vec<bool> = (0..cur.times.len()).map(|k| stored.get(k).map(|m| m.contains_key(a)).unwrap_or(false)).collect();
                        if *bs != w {
                            return bad("all-stage-member-ne-stored", format!("AllStageMemberInfo({a})={:?} but stored={:?}", bs, w));
                        }
                    }
                    None if valid => return bad("all-stage-member-error", format!("AllStageMemberInfo({a}) failed")),
                    None => {}
                }
            }
            if kind.is_flex() && valid {
                let w = active.and_then(|k| stored.get(k)).and_then(|m| m.get(a)).copied();
                if cur.mc[i] != w {
                    return bad("member-ne-stored", format!("Member({a})={:?} but stored={:?}", cur.mc[i], w));
                }
            }
        }
        // (4) add: never double-counted, flex rejects an existing member; remove: requires existing members
        if let (Some(p), true) = (&self.prev, self.last_ok) {
            let k = if kind.is_tiered() { kv_u64(&line, "stage").unwrap_or(0) as usize } else { 0 };
            let before: Map = p.stored.get(k).map(as_map).unwrap_or_default();
            let after: Map = stored.get(k).cloned().unwrap_or_default();
            if op == "add" {
                let listed: Vec<u64> = kv_pairs(&line, "members").unwrap_or_default().iter().map(|(a, _)| *a as u64).collect();
                let distinct_new: BTreeSet<u64> = listed.iter().filter(|a| !before.contains_key(a)).copied().collect();
                if cur.num != p.num + distinct_new.len() as u64 {
                    return bad("add-miscounted", format!("count {} -> {} but {} new distinct members were listed", p.num, cur.num, distinct_new.len()));
                }
                if listed.iter().any(|a| !after.contains_key(a)) {
                    return bad("add-not-stored", "a listed member is not stored after a successful add".into());
                }
                if kind == Kind::Flex && (listed.iter().any(|a| before.contains_key(a)) || distinct_new.len() != listed.len()) {
                    return bad("add-existing-accepted", "whitelist-flex accepted an already stored / repeated member".into());
                }
                // an existing member keeps its stored value
                for (a, c) in &before {
                    if after.get(a) != Some(c) {
                        return bad("add-overwrote", format!("stored value of {a} changed"));
                    }
                }
            }
            if op == "rm" {
                let listed: Vec<u64> = kv_list(&line, "addrs").unwrap_or_default().iter().map(|a| *a as u64).collect();
                let set: BTreeSet<u64> = listed.iter().copied().collect();
                if listed.iter().any(|a| !before.contains_key(a)) || set.len() != listed.len() {
                    return bad("remove-nonmember-accepted", "remove succeeded although a listed address was not a (distinct) stored member".into());
                }
                if cur.num + listed.len() as u64 != p.num {
                    return bad("remove-miscounted", format!("count {} -> {} for {} removals", p.num, cur.num, listed.len()));
                }
            }
            if op == "rmstage" {
                let gone: u64 = p.stored.iter().skip(k).map(|m| m.len() as u64).sum();
                if cur.num + gone != p.num {
                    return bad("remove-stage-miscounted", format!("count {} -> {} but {} members were stored under the removed stages", p.num, cur.num, gone));
                }
            }
            // messages that charge a fee or only touch admins / schedule store and remove nothing
            if matches!(op.as_str(), "inc" | "env") && (p.stored != cur.stored || p.num != cur.num) {
                return bad("members-changed", format!("stored members / count changed: {:?} ({}) -> {:?} ({})", p.stored, p.num, cur.stored, cur.num));
            }
            if matches!(op.as_str(), "add" | "rm" | "addstage" | "rmstage" | "env") && p.limit != cur.limit {
                return bad("limit-changed", format!("member_limit went {} -> {} by a message that is not IncreaseMemberLimit", p.limit, cur.limit));
            }
        }
        // (5) fees: ever paid == 100 STARS per started thousand of the current limit; paid exactly; nothing of a fee stays
        let fees_paid = cur.paid.saturating_sub(ghost.tips);
        let want = if kind == Kind::Immutable { 0 } else { fee_for_limit(cur.limit) };
        if fees_paid != want || cur.paid < ghost.tips {
            return bad("fees-ne-tiers", format!("fees ever paid {} != {} for member_limit {}", fees_paid, want, cur.limit));
        }
        if self.ghost.is_some() && ghost.fees_sent != want {
            return bad("fees-sent-ne-tiers", format!("funds attached to the successful instantiate / IncreaseMemberLimit calls {} != {} for member_limit {}", ghost.fees_sent, want, cur.limit));
        }
        if cur.bal != ghost.tips || cur.bal2 != ghost.tips2 {
            return bad("holds-funds", format!("whitelist balance is {} ustars / {} other (funds attached to non-fee messages: {} / {})", cur.bal, cur.bal2, ghost.tips, ghost.tips2));
        }
        if cur.burned + cur.pool != fees_paid {
            return bad("fee-not-burned", format!("burned {} + pool {} != fees paid {}", cur.burned, cur.pool, fees_paid));
        }
        if cur.paid2 != ghost.tips2 {
            return bad("other-denom-moved", format!("{} units of a non-native denom left the senders, {} were attached to successful non-fee messages", cur.paid2, ghost.tips2));
        }
        if self.last_ok && (op == "inst" || op == "inc") && kind != Kind::Immutable {
            let funds = kv_pairs(&line, "funds").unwrap_or_default();
            let paid: u128 = funds.iter().map(|(_, a)| *a).sum();
            let due = if op == "inst" { fee_for_limit(cur.limit) } else { fee_for_limit(cur.limit) - self.prev.as_ref().map(|p| fee_for_limit(p.limit)).unwrap_or(0) };
            if funds.iter().any(|(d, _)| *d != 0) || paid != due {
                return bad("fee-not-exact", format!("accepted funds {:?} although {} was due", funds, due));
            }
        }
        // LITERAL reading of "a whitelist never holds funds" (only in cases that ask for it: `literal=1` in the header)
        if self.literal && (cur.bal != 0 || cur.bal2 != 0) {
            return bad("holds-funds-nonfee", format!("the whitelist holds {} ustars and {} of another denom: funds attached to a message that charges no fee are kept (no handler calls nonpayable)", cur.bal, cur.bal2));
        }
        None
    }
}

// ------------------------------------------------------------------------------------------------ generators

const GENESIS: u64 = 1_647_032_400_000_000_000;
const SEC: u64 = 1_000_000_000;
const T0: u64 = GENESIS + 1_000 * SEC;

struct Gen {
    kind: Kind,
    uni: Vec<u64>,
    valid: Vec<u64>,
    /// lists long enough to cross the pagination limits (25 / 100)
    big: bool,
    /// parsed from the last observation
    exists: bool,
    num: u64,
    limit: u64,
    maps: Vec<Vec<(u64, u64)>>,
    start: u64,
    times: Vec<(u64, u64)>,
    whale: Option<u64>,
    /// execute variants of this kind's schema that the harness has no op for (sent verbatim)
    unknown: Vec<(String, Value)>,
    /// class of the op just generated (marked together with its outcome)
    cls: String,
}

fn parse_obs(g: &mut Gen, out: &str) {
    let body = primary_part(out).splitn(2, ' ').nth(1).unwrap_or("none");
    if body == "none" {
        g.exists = false;
        return;
    }
    g.exists = true;
    g.num = kv_u64(body, "n").unwrap_or(0);
    g.limit = kv_u64(body, "lim").unwrap_or(0);
    let mem = kv(body, "mem").unwrap_or("-");
    g.maps = if mem == "-" && g.kind.is_tiered() { vec![] } else { parse_lists(mem).into_iter().map(|l| l.into_iter().map(|(a, c)| (a as u64, c as u64)).collect()).collect() };
}

impl Gen {
    fn max(&self) -> u64 {
        self.kind.max_members()
    }
    fn pick_limit(&self, rng: &mut Rng, above: u64) -> u64 {
        let max = self.max();
        let mut c: Vec<u64> = if self.big {
            vec![24, 25, 26, 27, 60, 99, 100, 101, 102, 131, 200, 999, 1000, 1001, 2000, 2001, max]
        } else {
            vec![1, 2, 3, 4, 5, 6, 8, 999, 1000, 1001, 1999, 2000, 2001, 2999, 3000, 3001, max.saturating_sub(1), max, max / 2]
        };
        c.retain(|x| *x > above && *x <= max);
        if c.is_empty() {
            return max + 1;
        }
        let small: Vec<u64> = c.iter().copied().filter(|x| *x <= if self.big { 131 } else { 8 }).collect();
        if rng.chance(1, 6) {
            rng.range(above + 1, max)
        } else if above < 131 && rng.chance(1, 2) && !small.is_empty() {
            // stay small so that capacity is hit by the member lists
            *rng.pick(&small)
        } else {
            *rng.pick(&c)
        }
    }
    fn members(&self, rng: &mut Rng, n: usize, dup: bool, invalid: bool) -> Vec<(u64, u64)> {
        let mut v: Vec<(u64, u64)> = vec![];
        let mut pool = self.valid.clone();
        rng.shuffle(&mut pool);
        for a in pool.into_iter().take(n) {
            v.push((a, self.count(rng)));
        }
        if dup && !v.is_empty() {
            for _ in 0..rng.range(1, 2) {
                let x = *rng.pick(&v);
                v.push((x.0, if rng.chance(1, 2) { x.1 } else { self.count(rng) }));
            }
            if rng.chance(1, 2) {
                rng.shuffle(&mut v);
            }
        }
        if invalid {
            let pos = rng.below(v.len() as u64 + 1) as usize;
            v.insert(pos, (90001, 1));
        }
        v
    }
    fn count(&self, rng: &mut Rng) -> u64 {
        if !self.kind.is_flex() {
            return 0;
        }
        match self.whale {
            Some(c) if rng.chance(1, 3) => *rng.pick(&[c.saturating_sub(1), c, c]),
            _ => rng.range(0, 5),
        }
    }
    /// a list size around the pagination limits (big mode) or small
    fn size(&self, rng: &mut Rng, room: u64) -> usize {
        let n = if self.big {
            match rng.below(8) {
                0 => room,
                1 => room + 1,
                2 => 0,
                _ => *rng.pick(&[1, 2, 24, 25, 26, 27, 30, 60, 99, 100, 101]),
            }
        } else {
            match rng.below(6) {
                0 => room,
                1 => room + 1,
                2 => 0,
                _ => rng.range(1, 3),
            }
        };
        (n as usize).min(self.valid.len())
    }
}

fn fmt_members(ms: &[(u64, u64)]) -> String {
    fmt_pairs(ms)
}

/// funds for a fee: exact, or a single-fault mutation
fn fee_funds(rng: &mut Rng, fee: u128, fault: bool) -> (Vec<(u128, u128)>, &'static str) {
    if !fault {
        return (if fee == 0 { vec![] } else { vec![(0, fee)] }, "exact");
    }
    match rng.below(10) {
        0 => (vec![(0, fee + 1)], "plus1"),
        1 if fee > 0 => (vec![(0, fee - 1)], "minus1"),
        2 => (vec![], "none"),
        3 => (vec![(1, fee.max(1))], "wrong-denom"),
        4 => (vec![(0, fee.max(1)), (1, 5)], "two-coins"),
        5 => (vec![(0, fee + HUNDRED_STARS)], "tier-up"),
        6 if fee >= HUNDRED_STARS => (vec![(0, fee - HUNDRED_STARS)].into_iter().filter(|c| c.1 > 0).collect(), "tier-down"),
        7 => (vec![(0, 0)], "zero-coin"),
        8 => (vec![(0, fee.max(1)), (1, 0)], "zero-second"),
        _ => (vec![(0, fee * 2 + 7)], "double"),
    }
}

/// funds attached to a message that charges nothing: (ustars, other denom)
fn gen_tip(rng: &mut Rng) -> (u64, u64) {
    match rng.below(40) {
        0 => (rng.range(1, 1000), 0),
        1 => (0, rng.range(1, 1000)),
        2 => (rng.range(1, 1000), rng.range(1, 1000)),
        _ => (0, 0),
    }
}
fn tip_class(t: (u64, u64)) -> &'static str {
    match (t.0 > 0, t.1 > 0) {
        (false, false) => "none",
        (true, false) => "native",
        (false, true) => "other",
        (true, true) => "both",
    }
}

fn gen_inst(g: &mut Gen, rng: &mut Rng, fault: bool) -> String {
    let kind = g.kind;
    let f = if fault { rng.range(1, 12) } else { 0 };
    let now = T0;
    let mut limit = g.pick_limit(rng, 0);
    if kind == Kind::Immutable {
        limit = 8;
    }
    if f == 1 {
        limit = *rng.pick(&[0, g.max() + 1, g.max() + 1000]);
    }
    let fee = if limit == 0 { HUNDRED_STARS } else { fee_for_limit(limit) };
    let (funds, ftag) = if kind == Kind::Immutable {
        if f == 2 { (vec![(0u128, 5u128)], "pays") } else { (vec![], "none") }
    } else {
        fee_funds(rng, fee, f == 2)
    };
    // whale cap (flex kinds): must exceed the member limit
    let whale: Option<u64> = if kind.is_flex() {
        if f == 3 {
            Some(*rng.pick(&[limit, limit.saturating_sub(1), 0]))
        } else if rng.chance(1, 2) {
            Some(limit + rng.range(1, 3))
        } else {
            None
        }
    } else {
        None
    };
    g.whale = whale;
    let admins: Vec<u64> = if f == 4 { vec![5, 90002] } else if rng.chance(1, 2) { vec![5, 6] } else { vec![5] };
    // flat schedule
    let (mut start, mut end) = (T0 + 1_000 * SEC, T0 + 5_000 * SEC);
    if f == 5 && !kind.is_tiered() && kind != Kind::Immutable {
        match rng.below(4) {
            0 => start = now,
            1 => start = now - 1,
            2 => end = start - 1,
            _ => {
                start = GENESIS - 1;
                end = start + 10;
            }
        }
    } else if rng.chance(1, 6) {
        start = now + 1;
        end = start;
    }
    // member list sizes around the capacity (big mode: around the pagination limits)
    let cap = limit.min(g.valid.len() as u64) as usize;
    let n = if f == 6 {
        (limit as usize + 1).min(g.valid.len())
    } else if rng.chance(1, 4) {
        cap
    } else if rng.chance(1, 8) {
        0
    } else if g.big {
        g.size(rng, cap as u64).min(cap)
    } else {
        rng.range(0, cap as u64) as usize
    };
    let dup = rng.chance(1, 3) || f == 7;
    let invalid = f == 8;
    let mut members = g.members(rng, n, dup, invalid);
    if f == 9 && kind.is_flex() {
        if let (Some(c), false) = (whale, members.is_empty()) {
            let i = rng.below(members.len() as u64) as usize;
            members[i].1 = c + 1;
        }
    }
    // stages
    let mut stages: Vec<(u64, u64)> = vec![];
    let mut sm: Vec<Vec<(u64, u64)>> = vec![];
    if kind.is_tiered() {
        let ns = if f == 10 { *rng.pick(&[0u64, 4]) } else { rng.range(1, 3) };
        let mut t = T0 + 1_000 * SEC;
        for _ in 0..ns {
            let len = rng.range(1, 3) * 500 * SEC;
            stages.push((t, t + len));
            t += len + if rng.chance(1, 2) { 0 } else { 300 * SEC };
        }
        if f == 11 && !stages.is_empty() {
            match rng.below(4) {
                0 => stages[0].0 = now,
                1 => { let k = stages.len() - 1; stages[k].1 = stages[k].0; }
                2 if stages.len() > 1 => stages[1].0 = stages[0].1 - 1,
                _ => stages[0].0 = now - 1,
            }
        }
        let nl = if f == 12 { if rng.chance(1, 2) { ns + 1 } else { ns.saturating_sub(1) } } else { ns };
        // split the capacity over the stages
        let mut left = if f == 6 { limit as usize + 1 } else { cap };
        for i in 0..nl {
            let k = if i + 1 == nl && f == 6 {
                left.min(g.valid.len())
            } else if g.big && rng.chance(1, 2) {
                g.size(rng, left as u64).min(left)
            } else {
                rng.range(0, left.min(g.valid.len()) as u64) as usize
            };
            left = left.saturating_sub(k);
            let d2 = dup && rng.chance(1, 2);
            sm.push(g.members(rng, k, d2, invalid && i == 0));
        }
        if f == 9 {
            if let (Some(c), Some(l)) = (whale, sm.iter_mut().find(|l| !l.is_empty())) {
                l[0].1 = c + 1;
            }
        }
    }
    g.start = start;
    let lists = if sm.is_empty() { "~".to_string() } else { sm.iter().map(|l| fmt_members(l)).collect::<Vec<_>>().join("|") };
    let sender = *rng.pick(&[5u64, 7]);
    let raw_n: usize = if kind.is_tiered() { sm.iter().map(|l| l.len()).sum() } else { members.len() };
    g.cls = format!("{}:inst:f{}:{}:lim{}:raw{}:{}", kind.tag(), f, ftag, limit_class(limit, g.max()), cmp_class(raw_n as u64, limit), size_class(raw_n as u64));
    format!(
        "inst sender={sender} now={now} funds={} limit={limit} whale={} admins={} start={start} end={end} members={} stages={} smembers={} pg={}",
        fmt_pairs(&funds), fmt_opt(&whale), fmt_list(&admins), fmt_members(&members), fmt_pairs(&stages), lists, pick_pg(rng, g.big)
    )
}

fn pick_pg(rng: &mut Rng, big: bool) -> u64 {
    if big { *rng.pick(&[7, 24, 25, 26, 99, 100, 101, 1000]) } else { rng.range(1, 4) }
}
fn limit_class(l: u64, max: u64) -> String {
    if l == 0 { "0".into() } else if l > max { "gtmax".into() } else if l == max { "max".into() } else if l + 1 == max { "max-1".into() }
    else if l % 1000 == 0 { "k000".into() } else if l % 1000 == 1 { "k001".into() } else if l % 1000 == 999 { "k999".into() } else if l <= 8 { "small".into() } else { "mid".into() }
}
fn cmp_class(a: u64, b: u64) -> &'static str {
    if a < b { "lt" } else if a == b { "eq" } else { "gt" }
}
/// list length relative to the pagination limits
fn size_class(n: u64) -> &'static str {
    if n <= 8 { "s" } else if n < 25 { "lt25" } else if n == 25 { "25" } else if n < 100 { "26-99" } else if n == 100 { "100" } else { "gt100" }
}

fn gen_op(g: &mut Gen, rng: &mut Rng) -> String {
    let kind = g.kind;
    let pg = pick_pg(rng, g.big);
    let fault = rng.chance(3, 10);
    let ns = g.maps.len() as u64;
    // clock: mostly before anything starts; sometimes exactly at an edge
    let edges: Vec<u64> = if kind.is_tiered() { g.times.iter().flat_map(|(s, e)| [*s, *e]).collect() } else { vec![g.start] };
    let now = if rng.chance(1, 5) && !edges.is_empty() {
        let e = *rng.pick(&edges);
        *rng.pick(&[e - 1, e, e + 1])
    } else {
        T0 + rng.range(1, 900) * SEC
    };
    let sender = if fault && rng.chance(1, 4) { 7 } else { 5 };
    let tip = gen_tip(rng);
    let tips = format!("tip={} tip2={}", tip.0, tip.1);
    let stage = if kind.is_tiered() {
        if fault && rng.chance(1, 5) { ns } else { rng.below(ns.max(1)) }
    } else {
        0
    };
    let cur: Vec<(u64, u64)> = g.maps.get(stage as usize).cloned().unwrap_or_default();
    let room = g.limit.saturating_sub(g.num);
    let roll = rng.below(100);
    let tiered = kind.is_tiered();
    if roll < 36 {
        // add
        let n = g.size(rng, room);
        let mut ms = if kind == Kind::Flex && !fault {
            // flex rejects existing members: draw from the non-members
            let mut non: Vec<u64> = g.valid.iter().copied().filter(|a| !cur.iter().any(|m| m.0 == *a)).collect();
            rng.shuffle(&mut non);
            non.into_iter().take(n).map(|a| (a, g.count(rng))).collect()
        } else {
            let (d2, i2) = (fault && rng.chance(1, 3), fault && rng.chance(1, 6));
            g.members(rng, n, d2, i2)
        };
        if rng.chance(1, 5) && !cur.is_empty() {
            // include an existing member (skipped / rejected), first or last
            let x = *rng.pick(&cur);
            if rng.chance(1, 2) { ms.insert(0, (x.0, g.count(rng))) } else { ms.push((x.0, g.count(rng))) }
        }
        // a mint count above the whale cap: `add_members` does not look at the cap
        let mut overcap = 0;
        if let (Some(c), true, false) = (g.whale, rng.chance(1, 8), ms.is_empty()) {
            let i = rng.below(ms.len() as u64) as usize;
            ms[i].1 = c + 1;
            overcap = 1;
        }
        let existing = ms.iter().filter(|m| cur.iter().any(|c| c.0 == m.0)).count();
        let distinct_new: BTreeSet<u64> = ms.iter().map(|m| m.0).filter(|a| !cur.iter().any(|c| c.0 == *a)).collect();
        g.cls = format!("{}:add:new{}:room{}:existing{}:sender{}:tip-{}:overcap{}:{}", kind.tag(), cmp_class(distinct_new.len() as u64, room), room.min(2), existing.min(2), sender, tip_class(tip), overcap, size_class(ms.len() as u64));
        format!("add sender={sender} now={now} {tips} stage={stage} members={} pg={pg}", fmt_members(&ms))
    } else if roll < 56 {
        // remove
        let mut xs: Vec<u64> = vec![];
        let mut pool = cur.clone();
        rng.shuffle(&mut pool);
        let k = if g.big && rng.chance(1, 2) { *rng.pick(&[25usize, 26, 30, 100, 101]) } else { rng.range(1, 2) as usize };
        for m in pool.iter().take(k) {
            xs.push(m.0);
        }
        let mut tag = "members";
        if fault {
            match rng.below(4) {
                0 => { if let Some(x) = xs.first().copied() { xs.push(x); tag = "repeated"; } }
                1 => { let non: Vec<u64> = g.valid.iter().copied().filter(|a| !cur.iter().any(|m| m.0 == *a)).collect(); if !non.is_empty() { xs.push(*rng.pick(&non)); tag = "nonmember"; } }
                2 => { xs.push(90001); tag = "invalid"; }
                _ => {}
            }
        }
        if xs.is_empty() { tag = "empty"; }
        let started = if tiered { g.times.get(stage as usize).map(|t| now >= t.0).unwrap_or(false) } else { now >= g.start };
        g.cls = format!("{}:rm:{}:started{}:sender{}:tip-{}:{}", kind.tag(), tag, started, sender, tip_class(tip), size_class(xs.len() as u64));
        format!("rm sender={sender} now={now} {tips} stage={stage} addrs={} pg={pg}", fmt_list(&xs))
    } else if roll < 72 {
        // increase limit — anybody may call it
        let sender = *rng.pick(&[5u64, 7, 8]);
        let lim = if fault && rng.chance(1, 3) { *rng.pick(&[g.limit, g.limit.saturating_sub(1), g.max() + 1]) } else { g.pick_limit(rng, g.limit) };
        let fee = if lim > g.limit { fee_for_limit(lim) - fee_for_limit(g.limit) } else { 0 };
        let ff = fault && rng.chance(1, 2);
        let (funds, ftag) = fee_funds(rng, fee, ff);
        g.cls = format!("{}:inc:{}->{}:fee{}:{}", kind.tag(), limit_class(g.limit, g.max()), limit_class(lim, g.max()), (fee / HUNDRED_STARS).min(3), ftag);
        format!("inc sender={sender} now={now} funds={} limit={lim} pg={pg}", fmt_pairs(&funds))
    } else if roll < 82 && (tiered || rng.chance(1, 6)) {
        // add stage (flat kinds: the message does not exist)
        let last_end = g.times.last().map(|t| t.1).unwrap_or(T0 + 1_000 * SEC);
        let mut start = last_end + if rng.chance(1, 2) { 0 } else { 100 * SEC };
        let mut end = start + 500 * SEC;
        let mut now2 = T0 + rng.range(1, 900) * SEC;
        let mut tag = "valid";
        if fault {
            match rng.below(4) {
                0 => { start = last_end.saturating_sub(1); tag = "overlap"; }
                1 => { end = start; tag = "empty-window"; }
                2 => { now2 = g.times.first().map(|t| t.0).unwrap_or(start); tag = "first-started"; }
                _ => {}
            }
        }
        let n = g.size(rng, room);
        let (d2, i2) = (rng.chance(1, 3), fault && rng.chance(1, 8));
        let mut ms = g.members(rng, n, d2, i2);
        // tiered-flex `add_stage` does enforce the whale cap
        let mut overcap = 0;
        if let (Some(c), true, false) = (g.whale, rng.chance(1, 8), ms.is_empty()) {
            let i = rng.below(ms.len() as u64) as usize;
            ms[i].1 = c + 1;
            overcap = 1;
        }
        g.cls = format!("{}:addstage:{}:ns{}:n{}:sender{}:overcap{}:tip-{}:{}", kind.tag(), tag, ns, cmp_class(n as u64, room), sender, overcap, tip_class(tip), size_class(ms.len() as u64));
        format!("addstage sender={sender} now={now2} {tips} start={start} end={end} members={} pg={pg}", fmt_members(&ms))
    } else if roll < 88 && (tiered || rng.chance(1, 6)) {
        let started = g.times.get(stage as usize).map(|t| now >= t.0).unwrap_or(false);
        let held: usize = g.maps.iter().skip(stage as usize).map(|m| m.len()).sum();
        g.cls = format!("{}:rmstage:stage{}of{}:started{}:sender{}:tip-{}:{}", kind.tag(), stage, ns, started, sender, tip_class(tip), size_class(held as u64));
        format!("rmstage sender={sender} now={now} {tips} stage={stage} pg={pg}")
    } else if roll < 94 {
        // messages that only touch admins / times; every fourth carries funds
        let tip = if rng.chance(1, 4) {
            match rng.below(3) {
                0 => (rng.range(2, 50), 0),
                1 => (0, rng.range(1, 50)),
                _ => (rng.range(1, 50), rng.range(1, 50)),
            }
        } else {
            (0, 0)
        };
        let tips = format!("tip={} tip2={}", tip.0, tip.1);
        if !g.unknown.is_empty() && rng.chance(1, 2) {
            // a message this harness has never heard of, sent as the schema describes it
            let (n, msg) = rng.pick(&g.unknown).clone();
            g.cls = format!("{}:surface:unknown:{}", kind.tag(), n);
            return format!("raw sender={sender} now={now} {tips} name={n} json={} pg={pg}", hex::encode(serde_json::to_vec(&msg).unwrap_or_default()));
        }
        let what: Vec<&str> = if tiered { vec!["upd_stage", "upd_admins", "freeze"] } else if kind == Kind::Plain { vec!["upd_start", "upd_end", "upd_admins", "freeze", "upd_pal"] } else { vec!["upd_start", "upd_end", "upd_admins", "freeze"] };
        let w = *rng.pick(&what);
        g.cls = format!("{}:env:{}:tip-{}", kind.tag(), w, tip_class(tip));
        match w {
            "upd_start" => format!("env what=upd_start sender={sender} now={now} {tips} t={} pg={pg}", T0 + rng.range(500, 1500) * SEC),
            "upd_end" => format!("env what=upd_end sender={sender} now={now} {tips} t={} pg={pg}", T0 + rng.range(900, 6000) * SEC),
            "upd_pal" => format!("env what=upd_pal sender={sender} now={now} {tips} n={} pg={pg}", rng.range(0, 31)),
            "upd_admins" => format!("env what=upd_admins sender={sender} now={now} {tips} admins={} pg={pg}", if rng.chance(1, 2) { "5,6" } else { "5" }),
            "freeze" => format!("env what=freeze sender={sender} now={now} {tips} pg={pg}"),
            _ => {
                let (s, e) = g.times.get(stage as usize).copied().unwrap_or((T0, T0 + 1));
                let ns_ = if rng.chance(1, 2) { fmt_opt(&Some(s + rng.range(0, 50) * SEC)) } else { "-".into() };
                let ne = if rng.chance(1, 2) { fmt_opt(&Some(e - rng.range(0, 50) * SEC)) } else { "-".into() };
                format!("env what=upd_stage sender={sender} now={now} {tips} stage={stage} start={ns_} end={ne} pg={pg}")
            }
        }
    } else if roll < 97 {
        g.cls = format!("{}:q", kind.tag());
        format!("q now={now} pg={pg}")
    } else {
        let after = if rng.chance(1, 2) { None } else { Some(*rng.pick(&g.uni)) };
        let limit = match rng.below(6) { 0 => None, 1 => Some(0), 2 => Some(1000), 3 => Some(*rng.pick(&[24, 25, 26, 99, 100, 101])), _ => Some(rng.range(1, 5)) };
        g.cls = format!("{}:page:after{}:limit{}:{}", kind.tag(), after.map(|a| if a >= 90000 { "invalid" } else { "some" }).unwrap_or("none"), limit.map(|l| l.min(102).to_string()).unwrap_or("none".into()), size_class(cur.len() as u64));
        format!("page stage={stage} after={} limit={}", fmt_opt(&after), fmt_opt(&limit))
    }
}

/// keep the generator's view of the schedule in step with what the contract reports
fn absorb_env(g: &mut Gen, sut: &S) {
    if let Some(s) = &sut.cur {
        if g.kind.is_tiered() {
            g.times = s.times.clone();
        } else if let Some(t) = s.times.first() {
            g.start = t.0;
        }
    }
}

fn outcome(out: &str) -> &str {
    out.split(' ').next().unwrap_or("?")
}

fn run_trace(ses: &mut Session, sut: &mut S, kind: Kind, rng: &mut Rng, n_ops: u64, big: bool, unknown: &[(String, Value)]) {
    let (uni, valid): (Vec<u64>, Vec<u64>) = if big {
        (vec![100, 124, 125, 126, 199, 200, 201, 230, 231, 90001], (100..=230).collect())
    } else {
        (vec![10, 11, 12, 13, 14, 15, 16, 17, 90001], (10..=17).collect())
    };
    let mut g = Gen { kind, uni: uni.clone(), valid, big, exists: false, num: 0, limit: 0, maps: vec![], start: 0, times: vec![], whale: None, unknown: unknown.to_vec(), cls: String::new() };
    ses.begin_case(sut, &format!("case kind={} uni={}{}", kind.tag(), fmt_list(&uni), if big { " big=1" } else { "" }));
    // an op before any instantiate
    if rng.chance(1, 10) {
        ses.step(sut, "q now=1 pg=2");
    }
    let mut tries = 0;
    while !g.exists && tries < 4 {
        let fault = rng.chance(3, 10);
        let line = gen_inst(&mut g, rng, fault);
        let out = ses.step(sut, &line);
        ses.mark(format!("{}:{}", g.cls, outcome(&out)));
        parse_obs(&mut g, &out);
        ses.count(&format!("inst:{}:{}", kind.tag(), if g.exists { "ok" } else { "err" }));
        tries += 1;
    }
    absorb_env(&mut g, sut);
    if g.exists {
        for _ in 0..n_ops {
            let line = gen_op(&mut g, rng);
            let out = ses.step(sut, &line);
            ses.mark(format!("{}:{}", g.cls, outcome(&out)));
            if !line.starts_with("page") {
                parse_obs(&mut g, &out);
            }
            absorb_env(&mut g, sut);
            if kind == Kind::Immutable && rng.chance(1, 3) {
                break;
            }
        }
    }
    ses.end_case();
}

/// mark `class` only if the implementation answered as the unchanged code does (coverage-floor classes)
fn expect(ses: &mut Session, out: &str, want: &str, class: String) {
    if outcome(out) == want {
        ses.mark(class);
    }
}

fn range_members(lo: u64, hi: u64, kind: Kind) -> String {
    (lo..=hi).map(|a| format!("{a}:{}", if kind.is_flex() { a % 5 } else { 0 })).collect::<Vec<_>>().join(",")
}

/// hand-written boundary scenarios (limits around the fee tiers and MAX, duplicate handling, capacity quirks, tips, sizes
/// beyond the pagination limits)
fn scripted(ses: &mut Session, sut: &mut S, literal: bool) {
    let uni = "10,11,12,13,14,15,16,17,90001";
    let st = T0 + 1_000 * SEC;
    let en = T0 + 5_000 * SEC;
    for kind in MUTABLE {
        let max = kind.max_members();
        let k = kind.tag();
        let stages = format!("{}:{},{}:{}", st, st + 500 * SEC, st + 500 * SEC, st + 900 * SEC);
        let inst = |limit: u64, funds: &str, members: &str, sm: &str| {
            format!("inst sender=5 now={T0} funds={funds} limit={limit} whale=- admins=5 start={st} end={en} members={members} stages={stages} smembers={sm} pg=3")
        };
        let inst_fee = |limit: u64, funds: u128, members: &str, sm: &str| inst(limit, &format!("0:{funds}"), members, sm);
        // fee tiers at instantiate: exact fee accepted, neighbours rejected
        for limit in [1u64, 999, 1000, 1001, 1999, 2000, 2001, max - 1, max, max + 1] {
            ses.begin_case(sut, &format!("case kind={k} uni={uni} scripted=inst-tier-{limit}"));
            let fee = fee_for_limit(limit);
            let lc = limit_class(limit, max);
            let o = ses.step(sut, &inst_fee(limit, fee - 1, "10:1", "10:1|-"));
            expect(ses, &o, "err", format!("{k}:fee:inst:minus1:err:{lc}"));
            let o = ses.step(sut, &inst_fee(limit, fee + 1, "10:1", "10:1|-"));
            expect(ses, &o, "err", format!("{k}:fee:inst:plus1:err:{lc}"));
            let o = ses.step(sut, &inst_fee(limit, fee + HUNDRED_STARS, "10:1", "10:1|-"));
            expect(ses, &o, "err", format!("{k}:fee:inst:tier-up:err:{lc}"));
            ses.step(sut, &inst(limit, &format!("1:{fee}"), "10:1", "10:1|-"));
            ses.step(sut, &inst(limit, &format!("0:{fee},1:0"), "10:1", "10:1|-"));
            let o = ses.step(sut, &inst_fee(limit, fee, "10:1,11:2", "10:1|11:2"));
            expect(ses, &o, if limit <= max { "ok" } else { "err" }, format!("{k}:fee:inst:exact:{}:{lc}", if limit <= max { "ok" } else { "err" }));
            ses.mark(format!("{k}:scripted:inst-tier:{lc}"));
            ses.end_case();
        }
        // chain of limit increases across the tiers (telescoping), free inside a tier
        ses.begin_case(sut, &format!("case kind={k} uni={uni} scripted=inc-chain"));
        ses.step(sut, &inst_fee(1, HUNDRED_STARS, "10:1", "10:1|-"));
        let mut cur = 1u64;
        for lim in [999u64, 1000, 1001, 1001, 1000, 1999, 2000, 2001, 4000, max - 1, max, max + 1] {
            let fee = if lim > cur && lim <= max { fee_for_limit(lim) - fee_for_limit(cur) } else { 0 };
            let fc = if fee > 0 { "paid" } else { "free" };
            // wrong payments first
            let o = ses.step(sut, &format!("inc sender=7 now={} funds=0:{} limit={lim} pg=2", T0 + SEC, fee + 1));
            expect(ses, &o, "err", format!("{k}:fee:inc:plus1:err:{fc}"));
            if fee > 0 {
                let o = ses.step(sut, &format!("inc sender=7 now={} funds=- limit={lim} pg=2", T0 + SEC));
                expect(ses, &o, "err", format!("{k}:fee:inc:none:err"));
                let o = ses.step(sut, &format!("inc sender=7 now={} funds=0:{} limit={lim} pg=2", T0 + SEC, fee - 1));
                expect(ses, &o, "err", format!("{k}:fee:inc:minus1:err"));
                ses.step(sut, &format!("inc sender=7 now={} funds=1:{fee} limit={lim} pg=2", T0 + SEC));
            } else {
                // inside a tier nothing is due: a zero coin / a coin of another denom must not be taken either
                ses.step(sut, &format!("inc sender=7 now={} funds=0:0 limit={lim} pg=2", T0 + SEC));
                ses.step(sut, &format!("inc sender=7 now={} funds=1:5 limit={lim} pg=2", T0 + SEC));
            }
            let f = if fee == 0 { "-".to_string() } else { format!("0:{fee}") };
            // the exact payment comes from the admin (an authorisation rule on this message would be C05's business;
            // that anybody may pay today is exercised by the wrong payments above and by the random traces)
            let out = ses.step(sut, &format!("inc sender=5 now={} funds={f} limit={lim} pg=2", T0 + SEC));
            if out.starts_with("ok") {
                cur = lim;
                ses.mark(format!("{k}:fee:inc:exact:ok:{fc}"));
            }
            ses.mark(format!("{k}:scripted:inc:{}", limit_class(lim, max)));
        }
        ses.end_case();
        // duplicates at instantiate (the repaired F-C11a/b/c inputs)
        ses.begin_case(sut, &format!("case kind={k} uni={uni} scripted=inst-dups"));
        ses.step(sut, &inst_fee(3, HUNDRED_STARS, "10:1,10:2,11:1", "10:1,10:2|11:1,11:1"));
        ses.step(sut, &inst_fee(2, HUNDRED_STARS, "10:1,10:2,11:1", "10:1,10:2|11:1"));
        ses.step(sut, &inst_fee(5, HUNDRED_STARS, "12:3,10:1,12:4,10:2", "12:3,10:1,12:4|10:2,10:2,13:1"));
        if kind.is_tiered() {
            ses.step(sut, &inst_fee(5, HUNDRED_STARS, "-", "10:1"));
            ses.step(sut, &inst_fee(5, HUNDRED_STARS, "-", "10:1|11:1,12:1|13:1"));
            ses.step(sut, &inst_fee(5, HUNDRED_STARS, "-", "~"));
            ses.step(sut, &inst_fee(5, HUNDRED_STARS, "-", "-|-"));
            ses.step(sut, &format!("addstage sender=5 now={} tip=0 tip2=0 start={} end={} members=10:1,10:2,11:1,10:3 pg=1", T0 + SEC, st + 900 * SEC, st + 1000 * SEC));
            ses.step(sut, &format!("rmstage sender=5 now={} tip=0 tip2=0 stage=0 pg=1", T0 + SEC));
            ses.step(sut, &format!("addstage sender=5 now={} tip=0 tip2=0 start={} end={} members=12:1,12:1 pg=1", T0 + SEC, st, st + 10));
        }
        ses.mark(format!("{k}:scripted:dups"));
        ses.end_case();
        // capacity: fill exactly to the limit, one more is rejected; an existing member at a full list; same-block repeats
        ses.begin_case(sut, &format!("case kind={k} uni={uni} scripted=full"));
        let o = ses.step(sut, &inst_fee(3, HUNDRED_STARS, "11:1", "11:1|-"));
        expect(ses, &o, "ok", format!("{k}:ok:inst"));
        let o = ses.step(sut, &format!("add sender=5 now={} tip=0 tip2=0 stage=0 members=12:1,13:1,14:1 pg=2", T0 + SEC));
        expect(ses, &o, "err", format!("{k}:cap:add:room+1:err"));
        let o = ses.step(sut, &format!("add sender=5 now={} tip=0 tip2=0 stage=0 members=12:1,13:1 pg=2", T0 + SEC));
        expect(ses, &o, "ok", format!("{k}:cap:add:room:ok"));
        expect(ses, &o, "ok", format!("{k}:ok:add"));
        ses.step(sut, &format!("add sender=5 now={} tip=0 tip2=0 stage=0 members=14:1 pg=2", T0 + SEC));
        ses.step(sut, &format!("add sender=5 now={} tip=0 tip2=0 stage=0 members=11:1 pg=2", T0 + SEC));
        let o = ses.step(sut, &format!("rm sender=5 now={} tip=0 tip2=0 stage=0 addrs=12 pg=2", T0 + SEC));
        expect(ses, &o, "ok", format!("{k}:ok:rm"));
        // the same removal again in the same block: the member is gone
        let o = ses.step(sut, &format!("rm sender=5 now={} tip=0 tip2=0 stage=0 addrs=12 pg=2", T0 + SEC));
        expect(ses, &o, "err", format!("{k}:rm:repeat-same-block:err"));
        ses.step(sut, &format!("add sender=5 now={} tip=0 tip2=0 stage=0 members=10:1,11:1 pg=2", T0 + SEC));
        ses.step(sut, &format!("rm sender=5 now={} tip=0 tip2=0 stage=0 addrs=10 pg=2", T0 + SEC));
        ses.step(sut, &format!("add sender=5 now={} tip=0 tip2=0 stage=0 members=12:1,11:1 pg=2", T0 + SEC));
        ses.step(sut, &format!("rm sender=5 now={} tip=0 tip2=0 stage=0 addrs=11,11 pg=2", T0 + SEC));
        // an increase between two adds: the list is full, then it is not
        ses.step(sut, &format!("add sender=5 now={} tip=0 tip2=0 stage=0 members=15:1 pg=2", T0 + SEC));
        let o = ses.step(sut, &format!("inc sender=5 now={} funds=- limit=4 pg=2", T0 + SEC));
        expect(ses, &o, "ok", format!("{k}:ok:inc"));
        let o = ses.step(sut, &format!("add sender=5 now={} tip=0 tip2=0 stage=0 members=17:1 pg=2", T0 + SEC));
        expect(ses, &o, "ok", format!("{k}:cap:add-after-inc:ok"));
        ses.step(sut, &format!("add sender=5 now={} tip=0 tip2=0 stage=0 members=16:1 pg=2", T0 + SEC));
        // anybody may pay for more capacity (no admin check in the code)
        ses.step(sut, &format!("inc sender=8 now={} funds=- limit=5 pg=2", T0 + SEC));
        // the removal gate at start -1 / 0 / +1 ns (the schedule is C12/C13's; here: count and storage stay exact either way)
        ses.step(sut, &format!("rm sender=5 now={} tip=0 tip2=0 stage=0 addrs=11 pg=2", st - 1));
        ses.step(sut, &format!("rm sender=5 now={} tip=0 tip2=0 stage=0 addrs=13 pg=2", st));
        ses.step(sut, &format!("rm sender=5 now={} tip=0 tip2=0 stage=0 addrs=13 pg=2", st + 1));
        ses.step(sut, &format!("q now={} pg=1", st + 500 * SEC));
        ses.step(sut, &format!("q now={} pg=1", st + 500 * SEC + 1));
        ses.step(sut, &format!("raw sender=5 now={} tip=0 tip2=0 name=no_such_message json={} pg=1", st + 500 * SEC + 1, hex::encode(b"{\"no_such_message\":{}}")));
        ses.mark(format!("{k}:scripted:full"));
        ses.end_case();
        // funds attached to messages that charge nothing (native, another denom, both) — on every such message
        ses.begin_case(sut, &format!("case kind={k} uni={uni} scripted=tips{}", if literal { " literal=1" } else { "" }));
        ses.step(sut, &inst_fee(1000, HUNDRED_STARS, "11:1", "11:1|-"));
        let o = ses.step(sut, &format!("add sender=5 now={} tip=5 tip2=0 stage=0 members=12:1 pg=2", T0 + SEC));
        expect(ses, &o, "ok", format!("{k}:tip:native:ok"));
        let o = ses.step(sut, &format!("add sender=5 now={} tip=0 tip2=7 stage=0 members=13:1 pg=2", T0 + SEC));
        expect(ses, &o, "ok", format!("{k}:tip:other:ok"));
        ses.step(sut, &format!("add sender=7 now={} tip=9 tip2=9 stage=0 members=14:1 pg=2", T0 + SEC));
        ses.step(sut, &format!("rm sender=5 now={} tip=3 tip2=4 stage=0 addrs=12 pg=2", T0 + SEC));
        let o = ses.step(sut, &format!("env what=upd_admins sender=5 now={} tip=2 tip2=6 admins=5,6 pg=2", T0 + SEC));
        expect(ses, &o, "ok", format!("{k}:tip:env:ok"));
        expect(ses, &o, "ok", format!("{k}:ok:env"));
        ses.step(sut, &format!("env what=freeze sender=7 now={} tip=2 tip2=6 pg=2", T0 + SEC));
        if kind.is_tiered() {
            let o = ses.step(sut, &format!("addstage sender=5 now={} tip=1 tip2=1 start={} end={} members=10:1,12:1 pg=2", T0 + SEC, st + 900 * SEC, st + 1000 * SEC));
            expect(ses, &o, "ok", format!("{k}:ok:addstage"));
            let o = ses.step(sut, &format!("rmstage sender=5 now={} tip=1 tip2=1 stage=1 pg=2", T0 + SEC));
            expect(ses, &o, "ok", format!("{k}:ok:rmstage"));
            let o = ses.step(sut, &format!("env what=upd_stage sender=5 now={} tip=10 tip2=0 stage=0 start=- end={} pg=2", T0 + SEC, st + 400 * SEC));
            expect(ses, &o, "ok", format!("{k}:tip:schedule:ok"));
        } else {
            let o = ses.step(sut, &format!("env what=upd_end sender=5 now={} tip=10 tip2=0 t={} pg=2", T0 + SEC, en + SEC));
            expect(ses, &o, "ok", format!("{k}:tip:schedule:ok"));
            ses.step(sut, &format!("env what=upd_start sender=5 now={} tip=12 tip2=3 t={} pg=2", T0 + SEC, st + SEC));
        }
        // a fee-bearing message after the tips: the fee is still burned completely, the tips stay
        ses.step(sut, &format!("inc sender=8 now={} funds=0:{HUNDRED_STARS} limit=1001 pg=2", T0 + SEC));
        ses.step(sut, &format!("inc sender=8 now={} funds=0:{HUNDRED_STARS},1:5 limit=2001 pg=2", T0 + SEC));
        ses.mark(format!("{k}:scripted:tips"));
        ses.end_case();

        // ---- sizes beyond the pagination limits: 26 and 101 members in one list / stage, 30 more, big removals
        let buni = "100,124,125,126,199,200,201,230,231,90001";
        ses.begin_case(sut, &format!("case kind={k} uni={buni} scripted=big"));
        let binst = |members: &str, sm: &str, pg: u64| {
            format!("inst sender=5 now={T0} funds=0:{HUNDRED_STARS} limit=200 whale=- admins=5 start={st} end={en} members={members} stages={stages} smembers={sm} pg={pg}")
        };
        let o = ses.step(sut, &binst(&range_members(100, 125, kind), &format!("{}|{}", range_members(100, 125, kind), range_members(100, 200, kind)), 25));
        expect(ses, &o, "ok", format!("{k}:big:inst26:ok"));
        if kind.is_tiered() {
            expect(ses, &o, "ok", format!("{k}:big:inst101:ok"));
        }
        ses.step(sut, &format!("q now={} pg=1", T0 + SEC));
        ses.step(sut, "page stage=0 after=- limit=-");
        ses.step(sut, "page stage=0 after=- limit=1000");
        ses.step(sut, "page stage=0 after=124 limit=-");
        ses.step(sut, "page stage=1 after=- limit=-");
        let o = ses.step(sut, "page stage=1 after=- limit=1000");
        let _ = o;
        // flat kinds: grow the single list to 101, then 131; tiered: stage 1 from 101 to 131
        let tgt = if kind.is_tiered() { 1 } else { 0 };
        if !kind.is_tiered() {
            let o = ses.step(sut, &format!("add sender=5 now={} tip=0 tip2=0 stage=0 members={} pg=100", T0 + SEC, range_members(126, 200, kind)));
            expect(ses, &o, "ok", format!("{k}:big:inst101:ok"));
        }
        let o = ses.step(sut, &format!("add sender=5 now={} tip=0 tip2=0 stage={tgt} members={} pg=100", T0 + SEC, range_members(201, 230, kind)));
        expect(ses, &o, "ok", format!("{k}:big:add30:ok"));
        // the crates' page sizes are configuration (25 / 100 today), not part of the property: recognise "a default page shorter than
        // the list" and "an explicit huge limit capped above the default" without pinning the numbers
        let o = ses.step(sut, &format!("page stage={tgt} after=- limit=-"));
        let dflt = primary_part(&o).matches(':').count();
        if dflt > 0 && dflt < 131 {
            ses.mark(format!("{k}:big:page-default"));
        }
        let o = ses.step(sut, &format!("page stage={tgt} after=- limit=1000"));
        let mx = primary_part(&o).matches(':').count();
        if mx > dflt {
            ses.mark(format!("{k}:big:page-max"));
        }
        ses.step(sut, &format!("page stage={tgt} after=199 limit=100"));
        ses.step(sut, &format!("q now={} pg=25", T0 + SEC));
        ses.step(sut, &format!("q now={} pg=101", T0 + SEC));
        // re-adding 131 stored members (plain kinds skip them all; whitelist-flex rejects)
        ses.step(sut, &format!("add sender=5 now={} tip=0 tip2=0 stage={tgt} members={} pg=100", T0 + SEC, range_members(100, 230, kind)));
        // remove 30 in one message
        let o = ses.step(sut, &format!("rm sender=5 now={} tip=0 tip2=0 stage={tgt} addrs={} pg=26", T0 + SEC, (110..=139).map(|a| a.to_string()).collect::<Vec<_>>().join(",")));
        expect(ses, &o, "ok", format!("{k}:big:rm30:ok"));
        if kind.is_tiered() {
            // a third stage with 30 members, then remove stage 1 (101 members) and everything after it
            ses.step(sut, &format!("addstage sender=5 now={} tip=0 tip2=0 start={} end={} members={} pg=25", T0 + SEC, st + 900 * SEC, st + 1000 * SEC, range_members(150, 179, kind)));
            let o = ses.step(sut, &format!("rmstage sender=5 now={} tip=0 tip2=0 stage=1 pg=25", T0 + SEC));
            expect(ses, &o, "ok", format!("{k}:big:rmstage:ok"));
            ses.step(sut, &format!("q now={} pg=7", st + SEC));
            // the freed capacity is usable again: a new stage 1 with 101 members, same addresses
            ses.step(sut, &format!("addstage sender=5 now={} tip=0 tip2=0 start={} end={} members={} pg=100", T0 + SEC, st + 500 * SEC, st + 900 * SEC, range_members(120, 220, kind)));
            ses.step(sut, &format!("rmstage sender=5 now={} tip=0 tip2=0 stage=0 pg=100", T0 + SEC));
        } else {
            ses.step(sut, &format!("rm sender=5 now={} tip=0 tip2=0 stage=0 addrs={} pg=100", T0 + SEC, (100..=230).filter(|a| !(110..=139).contains(a)).map(|a| a.to_string()).collect::<Vec<_>>().join(",")));
        }
        ses.step(sut, &format!("q now={} pg=100", T0 + SEC));
        ses.mark(format!("{k}:scripted:big"));
        ses.end_case();
    }
    ses.begin_case(sut, &format!("case kind=immutable uni={uni} scripted=immutable"));
    ses.step(sut, &format!("inst sender=5 now={T0} funds=- limit=0 whale=- admins=5 start=0 end=0 members=- stages=- smembers=~ pg=1"));
    ses.step(sut, &format!("inst sender=5 now={T0} funds=0:5 limit=0 whale=- admins=5 start=0 end=0 members=10:0 stages=- smembers=~ pg=1"));
    ses.step(sut, &format!("inst sender=5 now={T0} funds=0:0 limit=0 whale=- admins=5 start=0 end=0 members=10:0 stages=- smembers=~ pg=1"));
    let o = ses.step(sut, &format!("inst sender=5 now={T0} funds=- limit=0 whale=- admins=5 start=0 end=0 members=12:0,10:0,12:0,90001:0,10:0 stages=- smembers=~ pg=1"));
    expect(ses, &o, "ok", "immutable:ok:inst".to_string());
    ses.step(sut, &format!("add sender=5 now={T0} tip=0 tip2=0 stage=0 members=11:0 pg=1"));
    ses.step(sut, &format!("inc sender=5 now={T0} funds=- limit=10 pg=1"));
    ses.step(sut, &format!("env what=freeze sender=5 now={T0} tip=3 tip2=0 pg=1"));
    ses.step(sut, &format!("inst sender=5 now={T0} funds=- limit=0 whale=- admins=5 start=0 end=0 members={} stages=- smembers=~ pg=1", range_members(100, 230, Kind::Immutable)));
    ses.mark("immutable:scripted");
    ses.end_case();
}

/// Exhaustive small scope (model validation, not the proof): EVERY sequence of `depth` ops over a small alphabet,
/// limit 2, three valid addresses, for the four mutable kinds.
fn exhaustive(ses: &mut Session, sut: &mut S, depth: usize) {
    let uni = "10,11,12,90001";
    let st = T0 + 1_000 * SEC;
    let en = T0 + 5_000 * SEC;
    let now = T0 + SEC;
    let mut total = 0u64;
    for kind in MUTABLE {
        let k = kind.tag();
        let inst = format!(
            "inst sender=5 now={T0} funds=0:100000000 limit=2 whale=- admins=5 start={st} end={en} members=10:1 stages={st}:{} smembers=10:1 pg=1",
            st + 500 * SEC
        );
        let mut alpha: Vec<String> = vec![
            format!("add sender=5 now={now} tip=0 tip2=0 stage=0 members=10:1 pg=1"),
            format!("add sender=5 now={now} tip=0 tip2=0 stage=0 members=11:1 pg=2"),
            format!("add sender=5 now={now} tip=0 tip2=0 stage=0 members=12:2,10:3 pg=1"),
            format!("add sender=5 now={now} tip=0 tip2=0 stage=0 members=11:1,12:1 pg=1"),
            format!("rm sender=5 now={now} tip=0 tip2=0 stage=0 addrs=10 pg=1"),
            format!("rm sender=5 now={now} tip=0 tip2=0 stage=0 addrs=11 pg=1"),
            format!("rm sender=5 now={now} tip=0 tip2=0 stage=0 addrs=10,12 pg=1"),
            format!("inc sender=7 now={now} funds=- limit=3 pg=1"),
        ];
        if kind.is_tiered() {
            alpha.push(format!("addstage sender=5 now={now} tip=0 tip2=0 start={} end={} members=11:1,10:1,11:2 pg=1", st + 500 * SEC, st + 900 * SEC));
            alpha.push(format!("add sender=5 now={now} tip=0 tip2=0 stage=1 members=12:1 pg=1"));
            alpha.push(format!("rm sender=5 now={now} tip=0 tip2=0 stage=1 addrs=10 pg=1"));
            alpha.push(format!("rmstage sender=5 now={now} tip=0 tip2=0 stage=1 pg=1"));
            alpha.push(format!("rmstage sender=5 now={now} tip=0 tip2=0 stage=0 pg=1"));
        }
        let n = alpha.len();
        let mut idx = vec![0usize; depth];
        loop {
            ses.begin_case(sut, &format!("case kind={k} uni={uni} exhaustive={}", idx.iter().map(|i| i.to_string()).collect::<Vec<_>>().join(".")));
            ses.step(sut, &inst);
            for (pos, i) in idx.iter().enumerate() {
                let out = ses.step(sut, &alpha[*i]);
                ses.mark(format!("{k}:exh:pos{pos}:op{i}:{}", outcome(&out)));
            }
            ses.end_case();
            total += 1;
            // next index vector
            let mut p = depth;
            loop {
                if p == 0 {
                    break;
                }
                p -= 1;
                idx[p] += 1;
                if idx[p] < n {
                    break;
                }
                idx[p] = 0;
                if p == 0 {
                    p = usize::MAX;
                    break;
                }
            }
            if p == usize::MAX || depth == 0 {
                break;
            }
        }
    }
    ses.note(format!("exhaustive small scope: all {total} op sequences of length {depth} over an alphabet of 8 (flat) / 13 (tiered) ops, limit 2, addresses 10..12 — model validation only"));
}

fn main() {
    let mut ses = Session::new("C11");
    let mut sut = S::new();
    if ses.maybe_replay(&mut sut) {
        ses.finish(&mut sut);
    }
    // ---- message surface, read from the crates' schemas at run time
    let mut unknown: BTreeMap<&'static str, Vec<(String, Value)>> = BTreeMap::new();
    for kind in [Kind::Plain, Kind::Flex, Kind::Tiered, Kind::TFlex, Kind::Immutable] {
        let (known, unk) = surface(kind);
        for n in &known {
            ses.mark(format!("{}:surface:known:{n}", kind.tag()));
        }
        if !unk.is_empty() {
            ses.note(format!("{}: execute variants without a harness op, sent verbatim under the monitors: {:?}", kind.krate(), unk.iter().map(|u| u.0.clone()).collect::<Vec<_>>()));
        }
        unknown.insert(kind.tag(), unk);
    }
    // ---- coverage floor: without these the run would be vacuous
    for kind in MUTABLE {
        let k = kind.tag();
        for c in ["ok:inst", "ok:add", "ok:rm", "ok:inc", "ok:env", "fee:inst:exact:ok", "fee:inst:minus1:err", "fee:inst:plus1:err", "fee:inst:exact:err:gtmax",
            "fee:inc:exact:ok:paid", "fee:inc:exact:ok:free", "fee:inc:plus1:err", "fee:inc:minus1:err", "cap:add:room:ok", "cap:add:room+1:err", "cap:add-after-inc:ok",
            "rm:repeat-same-block:err", "tip:native:ok", "tip:other:ok", "tip:env:ok", "tip:schedule:ok", "big:inst26:ok", "big:inst101:ok", "big:add30:ok", "big:rm30:ok", "big:page-default", "big:page-max",
            "surface:known:add_members", "surface:known:remove_members", "surface:known:increase_member_limit"] {
            ses.require(format!("{k}:{c}"));
        }
        if kind.is_tiered() {
            for c in ["ok:addstage", "ok:rmstage", "big:rmstage:ok", "surface:known:add_stage", "surface:known:remove_stage"] {
                ses.require(format!("{k}:{c}"));
            }
        }
    }
    ses.require("immutable:ok:inst");
    // the literal reading of "never holds funds" is a listed finding or not: the user's decision (known_findings.json)
    let literal = load_known("C11").iter().any(|k| k.status == "finding" && k.key.ends_with("holds-funds-nonfee"));
    scripted(&mut ses, &mut sut, literal);
    let depth = if ses.tier() == Tier::Thorough { 4 } else { 3 };
    exhaustive(&mut ses, &mut sut, depth);
    let mut rng = ses.rng.fork();
    let traces = ses.scale(330, 4200);
    let n_ops = if ses.tier() == Tier::Quick { 24 } else { 30 };
    for i in 0..traces {
        for kind in [Kind::Plain, Kind::Flex, Kind::Tiered, Kind::TFlex, Kind::Immutable] {
            if kind == Kind::Immutable && i % 4 != 0 {
                continue;
            }
            let big = kind != Kind::Immutable && i % 10 == 3;
            run_trace(&mut ses, &mut sut, kind, &mut rng, if big { n_ops.min(16) } else { n_ops }, big, &unknown[kind.tag()]);
        }
    }
    if sut.fallbacks > 0 {
        ses.note(format!("typed storage read failed or was empty {} times: the paged enumeration was used as the stored set there (storage layout changed?)", sut.fallbacks));
    }
    ses.note("probe list: 8 valid addresses + 1 invalid (small) / members 100..230 with probes around the 25th, 100th and last (big); member limits from {1..8, 999,1000,1001,1999,2000,2001,2999,3000,3001, MAX/2, MAX-1, MAX} (big: 24..27, 99..102, 131, 200, …) and faults {0, MAX+1}; fees exact or single-fault (±1, none, wrong denom, two coins, zero coin, ± one tier, double); funds on fee-less messages: ustars, another denom, both");
    ses.note("stored members are enumerated by paging `Members` (page sizes 1..4; big: 7,24,25,26,99,100,101,1000) to exhaustion AND read from storage through the crates' typed maps; the harness keeps its own ledger of what the successful messages listed; HasMember/StageMemberInfo/AllStageMemberInfo/Member are asked for every probe address after every op");
    ses.finish(&mut sut);
}
