//! C11 — whitelist membership accounting, capacity and fees.
//! The five REAL list-based whitelist contracts in a cw-multi-test App vs `LP.WlMembers` (Lean).
//!
//! Protocol: see lean/LaunchpadModel/Driver/C11.lean. Every observation enumerates the stored members by paging the
//! `Members` query to exhaustion (immutable: raw storage dump), asks `HasMember` / `StageMemberInfo` / `Member` for
//! every address of the case's universe, reads `Config`, `Stage(k)` and the bank balances of every funded account,
//! the contract and the fair-burn pool.
use std::collections::{BTreeMap, BTreeSet};

use cosmwasm_std::{coins, Addr, Coin, Timestamp};
use cw_multi_test::{BankSudo, Executor, SudoMsg};
use lp_harness::boxes::{self, App};
use lp_harness::world::{addr, addr_id, denom, ID_FAIRBURN_POOL};
use lp_harness::*;
use serde_json::{json, Value};

// ------------------------------------------------------------------------------------------------ naming

const NATIVE: &str = "ustars";
/// ids >= 90000 are rendered as two-character strings, which `MockApi::addr_validate` rejects (too short);
/// they sort after every valid name, so string order == numeric order over the whole universe.
fn name(id: u64) -> String {
    if id >= 90000 {
        format!("z{}", id - 90000)
    } else {
        addr(id)
    }
}
fn name_id(s: &str) -> u64 {
    if let Some(k) = s.strip_prefix('z') {
        if let Ok(k) = k.parse::<u64>() {
            return 90000 + k;
        }
    }
    addr_id(s)
}

#[derive(Clone, Copy, Debug, PartialEq, Eq)]
enum Kind {
    Plain,
    Flex,
    Tiered,
    TFlex,
    Immutable,
}
impl Kind {
    fn parse(s: &str) -> Kind {
        match s {
            "plain" => Kind::Plain,
            "flex" => Kind::Flex,
            "tiered" => Kind::Tiered,
            "tflex" => Kind::TFlex,
            "immutable" => Kind::Immutable,
            k => panic!("kind {k}"),
        }
    }
    fn tag(self) -> &'static str {
        match self {
            Kind::Plain => "plain",
            Kind::Flex => "flex",
            Kind::Tiered => "tiered",
            Kind::TFlex => "tflex",
            Kind::Immutable => "immutable",
        }
    }
    /// crate directory name, used in monitor keys
    fn krate(self) -> &'static str {
        match self {
            Kind::Plain => "whitelist",
            Kind::Flex => "whitelist-flex",
            Kind::Tiered => "tiered-whitelist",
            Kind::TFlex => "tiered-whitelist-flex",
            Kind::Immutable => "whitelist-immutable",
        }
    }
    fn is_flex(self) -> bool {
        matches!(self, Kind::Flex | Kind::TFlex)
    }
    fn is_tiered(self) -> bool {
        matches!(self, Kind::Tiered | Kind::TFlex)
    }
    /// the crate's own `pub const MAX_MEMBERS` (the monitor uses the implementation's value)
    fn max_members(self) -> u64 {
        match self {
            Kind::Plain => sg_whitelist::contract::MAX_MEMBERS as u64,
            Kind::Flex => sg_whitelist_flex::contract::MAX_MEMBERS as u64,
            Kind::Tiered => sg_tiered_whitelist::contract::MAX_MEMBERS as u64,
            Kind::TFlex => sg_tiered_whitelist_flex::contract::MAX_MEMBERS as u64,
            Kind::Immutable => 0,
        }
    }
    fn boxed(self) -> boxes::Boxed {
        match self {
            Kind::Plain => boxes::whitelist(),
            Kind::Flex => boxes::whitelist_flex(),
            Kind::Tiered => boxes::tiered_whitelist(),
            Kind::TFlex => boxes::tiered_whitelist_flex(),
            Kind::Immutable => boxes::whitelist_immutable(),
        }
    }
}

/// The property text: "100 STARS per started thousand" — literal, in ustars.
const HUNDRED_STARS: u128 = 100_000_000;
fn fee_for_limit(limit: u64) -> u128 {
    ((limit as u128 + 999) / 1000) * HUNDRED_STARS
}

// Compile-time tie to the message surface: a new / renamed execute message breaks this build.
#[allow(dead_code)]
fn surface_plain(m: &sg_whitelist::msg::ExecuteMsg) -> &'static str {
    use sg_whitelist::msg::ExecuteMsg::*;
    match m {
        UpdateStartTime(_) => "env",
        UpdateEndTime(_) => "env",
        AddMembers(_) => "add",
        RemoveMembers(_) => "rm",
        UpdatePerAddressLimit(_) => "env",
        IncreaseMemberLimit(_) => "inc",
        UpdateAdmins { .. } => "env",
        Freeze {} => "env",
    }
}
#[allow(dead_code)]
fn surface_flex(m: &sg_whitelist_flex::msg::ExecuteMsg) -> &'static str {
    use sg_whitelist_flex::msg::ExecuteMsg::*;
    match m {
        UpdateStartTime(_) => "env",
        UpdateEndTime(_) => "env",
        AddMembers(_) => "add",
        RemoveMembers(_) => "rm",
        IncreaseMemberLimit(_) => "inc",
        UpdateAdmins { .. } => "env",
        Freeze {} => "env",
    }
}
#[allow(dead_code)]
fn surface_tiered(m: &sg_tiered_whitelist::msg::ExecuteMsg) -> &'static str {
    use sg_tiered_whitelist::msg::ExecuteMsg::*;
    match m {
        AddStage(_) => "addstage",
        RemoveStage(_) => "rmstage",
        AddMembers(_) => "add",
        RemoveMembers(_) => "rm",
        UpdateStageConfig(_) => "env",
        IncreaseMemberLimit(_) => "inc",
        UpdateAdmins { .. } => "env",
        Freeze {} => "env",
    }
}
#[allow(dead_code)]
fn surface_tflex(m: &sg_tiered_whitelist_flex::msg::ExecuteMsg) -> &'static str {
    use sg_tiered_whitelist_flex::msg::ExecuteMsg::*;
    match m {
        AddStage(_) => "addstage",
        RemoveStage(_) => "rmstage",
        AddMembers(_) => "add",
        RemoveMembers(_) => "rm",
        UpdateStageConfig(_) => "env",
        IncreaseMemberLimit(_) => "inc",
        UpdateAdmins { .. } => "env",
        Freeze {} => "env",
    }
}
#[allow(dead_code)]
fn surface_immutable(m: &whitelist_immutable::msg::ExecuteMsg) -> &'static str {
    match *m {}
}

// ------------------------------------------------------------------------------------------------ world

/// accounts that hold funds and send messages
const FUNDED: [u64; 4] = [5, 6, 7, 8];
const START_NATIVE: u128 = 1_000_000_000_000_000;
const START_OTHER: u128 = 1_000_000_000;

type Map = BTreeMap<u64, u64>; // address id -> mint count (0 for the bool-valued kinds)

#[derive(Clone, Debug, Default)]
struct Snap {
    num: u64,
    limit: u64,
    /// members enumerated by paging `Members` (immutable: raw dump), one map per stage / one for flat kinds
    paged: Vec<Map>,
    /// members found in the raw storage dump
    raw: Vec<Map>,
    /// `Stage(k).member_count`
    counts: Vec<u64>,
    /// stage windows (tiered) or [(start, end)] (flat)
    times: Vec<(u64, u64)>,
    admins: Vec<u64>,
    has: Vec<Option<bool>>,
    /// StageMemberInfo per stage 0..=nstages per universe address
    sm: Vec<Vec<Option<bool>>>,
    mc: Vec<Option<u64>>,
    bal: u128,
    paid: u128,
    burned: u128,
    pool: u128,
    other_denoms_moved: bool,
}

struct S {
    kind: Kind,
    uni: Vec<u64>,
    app: App,
    wl: Option<Addr>,
    log: Vec<String>,
    // monitor bookkeeping (independent of the Lean model)
    prev: Option<Snap>,
    cur: Option<Snap>,
    last_line: String,
    last_ok: bool,
    /// native funds attached to successful calls of messages that charge nothing
    tips_ok: u128,
    /// limit after instantiate / previous op, to check monotonicity
    now: u64,
}

fn fresh_app() -> App {
    let mut app = boxes::custom_mock_app();
    for id in FUNDED {
        app.sudo(SudoMsg::Bank(BankSudo::Mint {
            to_address: addr(id),
            amount: vec![Coin::new(START_NATIVE, NATIVE), Coin::new(START_OTHER, denom(1))],
        }))
        .unwrap();
    }
    app
}

fn members_json(kind: Kind, ms: &[(u128, u128)]) -> Value {
    if kind.is_flex() {
        Value::Array(ms.iter().map(|(a, c)| json!({"address": name(*a as u64), "mint_count": *c as u64})).collect())
    } else {
        Value::Array(ms.iter().map(|(a, _)| json!(name(*a as u64))).collect())
    }
}
fn stage_json(kind: Kind, i: usize, start: u128, end: u128) -> Value {
    let mut v = json!({
        "name": format!("stage{i}"),
        "start_time": start.to_string(),
        "end_time": end.to_string(),
        "mint_price": {"denom": NATIVE, "amount": "100"},
        "mint_count_limit": null,
    });
    if kind == Kind::Tiered {
        v["per_address_limit"] = json!(1);
    }
    v
}
fn parse_lists(s: &str) -> Vec<Vec<(u128, u128)>> {
    if s == "~" {
        return vec![];
    }
    s.split('|')
        .map(|p| {
            if p == "-" || p.is_empty() {
                vec![]
            } else {
                p.split(',').map(|x| { let (a, b) = x.split_once(':').unwrap(); (a.parse().unwrap(), b.parse().unwrap()) }).collect()
            }
        })
        .collect()
}
fn funds_of(pairs: &[(u128, u128)]) -> Vec<Coin> {
    pairs.iter().map(|(d, a)| Coin::new(*a, denom(*d as u64))).collect()
}
fn tip_of(t: u128) -> Vec<Coin> {
    if t == 0 { vec![] } else { coins(t, NATIVE) }
}

impl S {
    fn new() -> S {
        S {
            kind: Kind::Plain,
            uni: vec![],
            app: fresh_app(),
            wl: None,
            log: vec![],
            prev: None,
            cur: None,
            last_line: String::new(),
            last_ok: false,
            tips_ok: 0,
            now: 0,
        }
    }
    fn reset_world(&mut self) {
        self.app = fresh_app();
        self.wl = None;
        self.prev = None;
        self.cur = None;
        self.tips_ok = 0;
    }
    fn set_now(&mut self, now: u64) {
        self.now = now;
        self.app.update_block(|b| {
            b.time = Timestamp::from_nanos(now);
            b.height += 1;
        });
    }
    fn q(&self, msg: Value) -> Option<Value> {
        let wl = self.wl.clone()?;
        catch(|| self.app.wrap().query_wasm_smart::<Value>(wl, &msg).ok()).ok().flatten()
    }
    fn bal(&self, who: &str, d: &str) -> u128 {
        self.app.wrap().query_balance(who, d).map(|c| c.amount.u128()).unwrap_or(0)
    }

    fn n_stages(&self) -> usize {
        match self.q(json!({"stages": {}})) {
            Some(v) => v["stages"].as_array().map(|a| a.len()).unwrap_or(0),
            None => 0,
        }
    }

    /// one `Members` query; None = query error
    fn page(&self, stage: u64, after: Option<u64>, limit: Option<u64>) -> Option<Vec<(u64, u64)>> {
        let mut m = json!({"start_after": after.map(name), "limit": limit});
        if self.kind.is_tiered() {
            m["stage_id"] = json!(stage);
        }
        let v = self.q(json!({ "members": m }))?;
        let arr = v["members"].as_array()?;
        Some(
            arr.iter()
                .map(|x| match x {
                    Value::String(s) => (name_id(s), 0),
                    o => (name_id(o["address"].as_str().unwrap_or("?")), o["mint_count"].as_u64().unwrap_or(u64::MAX)),
                })
                .collect(),
        )
    }
    /// walk all pages with page size `pg`, in the order the contract returns them
    fn walk(&self, stage: u64, pg: u64) -> Vec<(u64, u64)> {
        let mut out: Vec<(u64, u64)> = vec![];
        let mut after = None;
        for _ in 0..100_000 {
            match self.page(stage, after, Some(pg)) {
                None => break,
                Some(p) if p.is_empty() => break,
                Some(p) => {
                    after = Some(p.last().unwrap().0);
                    out.extend(p);
                }
            }
        }
        out
    }

    fn raw(&self) -> (Vec<Map>, BTreeMap<u64, u64>) {
        let mut maps: BTreeMap<u64, Map> = BTreeMap::new();
        let mut counts = BTreeMap::new();
        let Some(wl) = &self.wl else { return (vec![], counts) };
        for (k, v) in self.app.dump_wasm_raw(wl) {
            let val = |v: &[u8]| -> u64 {
                match serde_json::from_slice::<Value>(v) {
                    Ok(Value::Number(n)) => n.as_u64().unwrap_or(u64::MAX),
                    _ => 0,
                }
            };
            if k.starts_with(b"\x00\x02wl") {
                let a = String::from_utf8_lossy(&k[4..]).to_string();
                maps.entry(0).or_default().insert(name_id(&a), val(&v));
            } else if k.starts_with(b"\x00\x09wl_stages") && k.len() >= 17 {
                let r = &k[11..];
                let stage = u32::from_be_bytes([r[2], r[3], r[4], r[5]]) as u64;
                let a = String::from_utf8_lossy(&r[6..]).to_string();
                maps.entry(stage).or_default().insert(name_id(&a), val(&v));
            } else if k.starts_with(b"\x00\x0cmember_count") && k.len() == 18 {
                let stage = u32::from_be_bytes([k[14], k[15], k[16], k[17]]) as u64;
                counts.insert(stage, val(&v));
            }
        }
        let n = if self.kind.is_tiered() { self.n_stages().max(maps.keys().next_back().map(|k| *k as usize + 1).unwrap_or(0)) } else { 1 };
        ((0..n as u64).map(|i| maps.get(&i).cloned().unwrap_or_default()).collect(), counts)
    }

    fn snapshot(&self, pg: u64) -> Option<Snap> {
        let wl = self.wl.clone()?;
        let mut s = Snap::default();
        let (raw, _raw_counts) = self.raw();
        s.raw = raw;
        match self.kind {
            Kind::Immutable => {
                s.num = self.q(json!({"address_count": {}})).and_then(|v| v.as_u64()).unwrap_or(u64::MAX);
                s.limit = 0;
                s.paged = s.raw.clone();
                s.has = self.uni.iter().map(|a| self.q(json!({"includes_address": {"address": name(*a)}})).and_then(|v| v.as_bool())).collect();
            }
            _ => {
                let cfg = self.q(json!({"config": {}})).unwrap_or(Value::Null);
                s.num = cfg["num_members"].as_u64().unwrap_or(u64::MAX);
                s.limit = cfg["member_limit"].as_u64().unwrap_or(u64::MAX);
                let adm = self.q(json!({"admin_list": {}})).unwrap_or(Value::Null);
                s.admins = adm["admins"].as_array().map(|a| a.iter().map(|x| name_id(x.as_str().unwrap_or("?"))).collect()).unwrap_or_default();
                let ts = |v: &Value| v.as_str().and_then(|x| x.parse::<u64>().ok()).unwrap_or(0);
                if self.kind.is_tiered() {
                    let st = self.q(json!({"stages": {}})).unwrap_or(Value::Null);
                    let arr = st["stages"].as_array().cloned().unwrap_or_default();
                    for (i, g) in arr.iter().enumerate() {
                        s.times.push((ts(&g["stage"]["start_time"]), ts(&g["stage"]["end_time"])));
                        // per-stage query, independent of the list query
                        let one = self.q(json!({"stage": {"stage_id": i}})).unwrap_or(Value::Null);
                        s.counts.push(one["member_count"].as_u64().unwrap_or(u64::MAX));
                        s.paged.push(self.walk(i as u64, pg).into_iter().collect());
                    }
                    for k in 0..=arr.len() {
                        s.sm.push(
                            self.uni.iter().map(|a| self.q(json!({"stage_member_info": {"stage_id": k, "member": name(*a)}})).and_then(|v| v["is_member"].as_bool())).collect(),
                        );
                    }
                } else {
                    s.times.push((ts(&cfg["start_time"]), ts(&cfg["end_time"])));
                    s.paged.push(self.walk(0, pg).into_iter().collect());
                }
                s.has = self.uni.iter().map(|a| self.q(json!({"has_member": {"member": name(*a)}})).and_then(|v| v["has_member"].as_bool())).collect();
                if self.kind.is_flex() {
                    s.mc = self.uni.iter().map(|a| self.q(json!({"member": {"member": name(*a)}})).and_then(|v| v["mint_count"].as_u64())).collect();
                }
            }
        }
        s.bal = self.bal(wl.as_str(), NATIVE);
        s.pool = self.bal(&addr(ID_FAIRBURN_POOL), NATIVE);
        let users: u128 = FUNDED.iter().map(|id| self.bal(&addr(*id), NATIVE)).sum();
        let total0 = START_NATIVE * FUNDED.len() as u128;
        s.paid = total0 - users;
        s.burned = total0 - users - s.bal - s.pool;
        let d1 = denom(1);
        s.other_denoms_moved = FUNDED.iter().any(|id| self.bal(&addr(*id), &d1) != START_OTHER) || self.bal(wl.as_str(), &d1) != 0;
        Some(s)
    }

    /// walk order matters for the model comparison: render the paged enumeration in the order returned
    fn render(&self, s: &Snap, pg: u64) -> String {
        let bit = |o: &Option<bool>| match o {
            Some(true) => '1',
            Some(false) => '0',
            None => 'e',
        };
        let mem = if self.kind == Kind::Immutable {
            fmt_pairs(&s.raw.first().map(|m| m.iter().map(|(a, c)| (*a, *c)).collect::<Vec<_>>()).unwrap_or_default())
        } else if self.kind.is_tiered() {
            if s.paged.is_empty() {
                "-".to_string()
            } else {
                (0..s.paged.len()).map(|i| fmt_pairs(&self.walk(i as u64, pg))).collect::<Vec<_>>().join("|")
            }
        } else {
            fmt_pairs(&self.walk(0, pg))
        };
        let cnt = if self.kind.is_tiered() { fmt_list(&s.counts) } else { "-".into() };
        let has: String = s.has.iter().map(bit).collect();
        let sm = if self.kind.is_tiered() { s.sm.iter().map(|r| r.iter().map(bit).collect::<String>()).collect::<Vec<_>>().join("|") } else { "-".into() };
        let mc = if self.kind.is_flex() {
            s.mc.iter().map(|c| c.map(|x| x.to_string()).unwrap_or_else(|| "x".into())).collect::<Vec<_>>().join(",")
        } else {
            "-".into()
        };
        format!("n={} lim={} mem={} cnt={} has={} sm={} mc={} bal={} paid={} burned={} pool={}", s.num, s.limit, mem, cnt, has, sm, mc, s.bal, s.paid, s.burned, s.pool)
    }

    fn observe(&mut self, pg: u64) -> String {
        let snap = self.snapshot(pg);
        let out = match &snap {
            None => "none".to_string(),
            Some(s) => self.render(s, pg),
        };
        self.prev = self.cur.take();
        self.cur = snap;
        out
    }

    fn execute(&mut self, sender: u64, msg: Value, funds: Vec<Coin>) -> Result<bool, String> {
        let Some(wl) = self.wl.clone() else { return Ok(false) };
        let app = &mut self.app;
        catch(move || app.execute_contract(Addr::unchecked(name(sender)), wl, &msg, &funds).is_ok())
    }

    /// Rebuild the world from the op log (after a panic inside a contract call the App may be half-written).
    fn rebuild(&mut self) {
        let log = std::mem::take(&mut self.log);
        self.reset_world();
        for l in &log {
            let _ = self.exec_inner(l);
        }
        self.log = log;
    }

    /// `env` lines: append what the contract now reports for admins / times (environment witness for the model)
    fn env_model_line(&self, line: &str) -> String {
        match (&self.cur, self.kind) {
            (Some(s), k) if k != Kind::Immutable => {
                let (st, en) = if k.is_tiered() { (0, 0) } else { s.times[0] };
                let times: Vec<(u64, u64)> = if k.is_tiered() { s.times.clone() } else { vec![] };
                format!("{line} w_admins={} w_start={st} w_end={en} w_times={}", fmt_list(&s.admins), fmt_pairs(&times))
            }
            _ => line.to_string(),
        }
    }

    fn exec_inner(&mut self, line: &str) -> (String, String) {
        let op = line.split_whitespace().next().unwrap_or("");
        let pg = kv_u64(line, "pg").unwrap_or(7);
        let kind = self.kind;
        let sender = kv_u64(line, "sender").unwrap_or(5);
        if let Some(now) = kv_u64(line, "now") {
            self.set_now(now);
        }
        self.last_line = line.to_string();
        self.last_ok = false;
        let tip = kv_u128(line, "tip").unwrap_or(0);
        let stage = kv_u64(line, "stage").unwrap_or(0);
        let mut panicked = false;
        let mut res = |r: Result<bool, String>| -> bool {
            match r {
                Ok(b) => b,
                Err(_) => {
                    panicked = true;
                    false
                }
            }
        };
        let ok: bool = match op {
            "inst" => {
                self.reset_world();
                self.set_now(kv_u64(line, "now").unwrap());
                let funds = funds_of(&kv_pairs(line, "funds").unwrap());
                let limit = kv_u64(line, "limit").unwrap();
                let whale = kv_opt_u64(line, "whale").unwrap();
                let admins: Vec<String> = kv_list(line, "admins").unwrap().iter().map(|a| name(*a as u64)).collect();
                let (start, end) = (kv_u128(line, "start").unwrap(), kv_u128(line, "end").unwrap());
                let members = kv_pairs(line, "members").unwrap();
                let stages = kv_pairs(line, "stages").unwrap();
                let smembers = parse_lists(kv(line, "smembers").unwrap());
                let msg = match kind {
                    Kind::Plain => json!({"members": members_json(kind, &members), "start_time": start.to_string(), "end_time": end.to_string(),
                        "mint_price": {"denom": NATIVE, "amount": "100"}, "per_address_limit": 1, "member_limit": limit,
                        "admins": admins, "admins_mutable": true}),
                    Kind::Flex => json!({"members": members_json(kind, &members), "start_time": start.to_string(), "end_time": end.to_string(),
                        "mint_price": {"denom": NATIVE, "amount": "100"}, "member_limit": limit,
                        "admins": admins, "admins_mutable": true, "whale_cap": whale}),
                    Kind::Tiered => json!({"members": smembers.iter().map(|l| members_json(kind, l)).collect::<Vec<_>>(),
                        "stages": stages.iter().enumerate().map(|(i, (s, e))| stage_json(kind, i, *s, *e)).collect::<Vec<_>>(),
                        "member_limit": limit, "admins": admins, "admins_mutable": true}),
                    Kind::TFlex => json!({"members": smembers.iter().map(|l| members_json(kind, l)).collect::<Vec<_>>(),
                        "stages": stages.iter().enumerate().map(|(i, (s, e))| stage_json(kind, i, *s, *e)).collect::<Vec<_>>(),
                        "member_limit": limit, "admins": admins, "admins_mutable": true, "whale_cap": whale}),
                    Kind::Immutable => json!({"addresses": members.iter().map(|(a, _)| name(*a as u64)).collect::<Vec<_>>(),
                        "per_address_limit": 1, "mint_discount_bps": null}),
                };
                let code = self.app.store_code(kind.boxed());
                let app = &mut self.app;
                let r = catch(move || app.instantiate_contract(code, Addr::unchecked(name(sender)), &msg, &funds, "wl", None).ok());
                match r {
                    Ok(Some(a)) => {
                        self.wl = Some(a);
                        true
                    }
                    Ok(None) => false,
                    Err(_) => {
                        // nothing existed before an instantiate: a fresh world is the rolled-back state
                        self.reset_world();
                        false
                    }
                }
            }
            "add" => {
                let ms = kv_pairs(line, "members").unwrap();
                let mut m = json!({"to_add": members_json(kind, &ms)});
                if kind.is_tiered() {
                    m["stage_id"] = json!(stage);
                }
                res(self.execute(sender, json!({ "add_members": m }), tip_of(tip)))
            }
            "rm" => {
                let xs: Vec<String> = kv_list(line, "addrs").unwrap().iter().map(|a| name(*a as u64)).collect();
                let mut m = json!({ "to_remove": xs });
                if kind.is_tiered() {
                    m["stage_id"] = json!(stage);
                }
                res(self.execute(sender, json!({ "remove_members": m }), tip_of(tip)))
            }
            "addstage" => {
                let ms = kv_pairs(line, "members").unwrap();
                let n = self.n_stages();
                let st = stage_json(if kind.is_tiered() { kind } else { Kind::Tiered }, n, kv_u128(line, "start").unwrap(), kv_u128(line, "end").unwrap());
                res(self.execute(sender, json!({"add_stage": {"stage": st, "members": members_json(kind, &ms)}}), tip_of(tip)))
            }
            "rmstage" => res(self.execute(sender, json!({"remove_stage": {"stage_id": stage}}), tip_of(tip))),
            "inc" => {
                let funds = funds_of(&kv_pairs(line, "funds").unwrap());
                res(self.execute(sender, json!({"increase_member_limit": kv_u64(line, "limit").unwrap()}), funds))
            }
            "env" => {
                let msg = match kv(line, "what").unwrap_or("") {
                    "upd_start" => json!({"update_start_time": kv_u128(line, "t").unwrap().to_string()}),
                    "upd_end" => json!({"update_end_time": kv_u128(line, "t").unwrap().to_string()}),
                    "upd_pal" => json!({"update_per_address_limit": kv_u64(line, "n").unwrap()}),
                    "upd_admins" => json!({"update_admins": {"admins": kv_list(line, "admins").unwrap().iter().map(|a| name(*a as u64)).collect::<Vec<_>>()}}),
                    "freeze" => json!({"freeze": {}}),
                    "upd_stage" => {
                        let mut m = json!({"stage_id": stage, "name": null, "mint_price": null, "mint_count_limit": null,
                            "start_time": kv_opt_u128(line, "start").unwrap().map(|t| t.to_string()),
                            "end_time": kv_opt_u128(line, "end").unwrap().map(|t| t.to_string())});
                        if kind == Kind::Tiered {
                            m["per_address_limit"] = Value::Null;
                        }
                        json!({ "update_stage_config": m })
                    }
                    w => panic!("env what={w}"),
                };
                res(self.execute(sender, msg, vec![]))
            }
            "q" | "page" => true,
            _ => return (line.to_string(), "bad-op".into()),
        };
        if panicked {
            return (line.to_string(), "PANIC".into());
        }
        self.last_ok = ok;
        if ok && tip > 0 && matches!(op, "add" | "rm" | "addstage" | "rmstage") {
            self.tips_ok += tip;
        }
        match op {
            "page" => {
                let after = kv_opt_u64(line, "after").unwrap();
                let limit = kv_opt_u64(line, "limit").unwrap();
                let out = if self.wl.is_none() || kind == Kind::Immutable {
                    // the immutable whitelist has no `Members` query: the JSON does not parse
                    if self.wl.is_some() {
                        assert!(self.q(json!({"members": {"start_after": null, "limit": null}})).is_none());
                    }
                    "err".to_string()
                } else {
                    match self.page(stage, after, limit) {
                        Some(p) => format!("ok {}", fmt_pairs(&p)),
                        None => "err".into(),
                    }
                };
                (line.to_string(), out)
            }
            "env" => {
                let obs = self.observe(pg);
                (self.env_model_line(line), format!("env {obs}"))
            }
            "inst" => {
                let obs = self.observe(pg);
                (line.to_string(), if ok { format!("ok {obs}") } else { "err none".into() })
            }
            _ => {
                let obs = self.observe(pg);
                (line.to_string(), format!("{} {obs}", if ok { "ok" } else { "err" }))
            }
        }
    }
}

impl Sut for S {
    fn begin(&mut self, header: &str) -> (String, String) {
        self.kind = Kind::parse(kv(header, "kind").unwrap());
        self.uni = kv_list(header, "uni").unwrap().iter().map(|x| *x as u64).collect();
        self.log.clear();
        self.reset_world();
        self.last_line.clear();
        (header.to_string(), "case".into())
    }

    fn exec(&mut self, line: &str) -> (String, String) {
        let (m, mut out) = self.exec_inner(line);
        let m = m;
        if out == "PANIC" {
            // a panic inside a contract call = failed transaction; rebuild the world from the log, then observe
            self.rebuild();
            self.last_line = line.to_string();
            self.last_ok = false;
            let pg = kv_u64(line, "pg").unwrap_or(7);
            if let Some(now) = kv_u64(line, "now") {
                self.set_now(now);
            }
            let obs = self.observe(pg);
            out = if line.starts_with("env") { format!("env {obs}") } else { format!("err {obs}") };
            if line.starts_with("env") {
                self.log.push(line.to_string());
                return (self.env_model_line(line), out);
            }
        }
        self.log.push(line.to_string());
        (m, out)
    }

    /// Direct transcription of property C11 on the implementation's own observations (no Lean model involved).
    fn monitor(&mut self) -> Option<(String, String)> {
        let line = self.last_line.clone();
        let op = line.split_whitespace().next().unwrap_or("").to_string();
        if op == "page" || op.is_empty() {
            return None;
        }
        let opname = match op.as_str() {
            "inst" => "instantiate",
            "add" => "add_members",
            "rm" => "remove_members",
            "addstage" => "add_stage",
            "rmstage" => "remove_stage",
            "inc" => "increase_member_limit",
            "env" => "other",
            _ => "query",
        };
        let kind = self.kind;
        let cur = self.cur.clone()?;
        let bad = |p: &str, w: String| Some((format!("{}/{}/{}", kind.krate(), opname, p), format!("{w} after `{line}`")));

        // (1) reported count == number of distinct members actually stored, in total and per stage
        let stored_total: u64 = cur.raw.iter().map(|m| m.len() as u64).sum();
        if cur.num != stored_total {
            let p = if kind.is_tiered() && opname == "instantiate" && kv(&line, "smembers").map(|s| parse_lists(s).len()) != kv_pairs(&line, "stages").map(|s| s.len()) {
                "member-lists-ne-stages"
            } else {
                "count-ne-stored"
            };
            return bad(p, format!("num_members={} but {} distinct members are stored", cur.num, stored_total));
        }
        if cur.paged != cur.raw.iter().take(cur.paged.len()).cloned().collect::<Vec<_>>() || cur.raw.iter().skip(cur.paged.len()).any(|m| !m.is_empty()) {
            return bad("paged-ne-stored", format!("paging Members enumerates {:?}, storage holds {:?}", cur.paged, cur.raw));
        }
        if kind.is_tiered() {
            for (k, c) in cur.counts.iter().enumerate() {
                let st = cur.raw.get(k).map(|m| m.len() as u64).unwrap_or(0);
                if *c != st {
                    return bad("stage-count-ne-stored", format!("stage {k}: member_count={c} but {st} members are stored"));
                }
            }
        }
        // (2) capacity: count <= limit <= MAX, limit never decreases
        if kind != Kind::Immutable {
            if cur.num > cur.limit {
                return bad("count-gt-limit", format!("num_members={} exceeds member_limit={}", cur.num, cur.limit));
            }
            if cur.limit > kind.max_members() {
                return bad("limit-gt-max", format!("member_limit={} exceeds MAX_MEMBERS={}", cur.limit, kind.max_members()));
            }
            if op != "inst" {
                if let Some(p) = &self.prev {
                    if cur.limit < p.limit {
                        return bad("limit-decreased", format!("member_limit went {} -> {}", p.limit, cur.limit));
                    }
                }
            }
        }
        // (3) membership queries answer true exactly for stored members
        let active: Option<usize> = if kind.is_tiered() { cur.times.iter().position(|(s, e)| *s <= self.now && self.now <= *e) } else { Some(0) };
        for (i, a) in self.uni.iter().enumerate() {
            let valid = *a < 90000 || kind == Kind::Immutable;
            let want = match active {
                Some(k) => cur.raw.get(k).map(|m| m.contains_key(a)).unwrap_or(false),
                None => false,
            };
            match cur.has[i] {
                Some(b) if b != want => return bad("has-member-ne-stored", format!("HasMember({a})={b} but stored={want} (active stage {:?})", active)),
                None if valid => return bad("has-member-error", format!("HasMember({a}) failed for a valid address")),
                _ => {}
            }
            if kind.is_tiered() {
                for k in 0..cur.times.len() {
                    let w = cur.raw.get(k).map(|m| m.contains_key(a)).unwrap_or(false);
                    if let Some(b) = cur.sm[k][i] {
                        if b != w {
                            return bad("stage-member-ne-stored", format!("StageMemberInfo({k},{a})={b} but stored={w}"));
                        }
                    } else if valid {
                        return bad("stage-member-error", format!("StageMemberInfo({k},{a}) failed"));
                    }
                }
            }
            if kind.is_flex() {
                let w = active.and_then(|k| cur.raw.get(k)).and_then(|m| m.get(a)).copied();
                if cur.mc[i] != w {
                    return bad("member-ne-stored", format!("Member({a})={:?} but stored={:?}", cur.mc[i], w));
                }
            }
        }
        // (4) add: never double-counted, flex rejects an existing member; remove: requires existing members
        if let (Some(p), true) = (&self.prev, self.last_ok) {
            let k = if kind.is_tiered() { kv_u64(&line, "stage").unwrap_or(0) as usize } else { 0 };
            if op == "add" {
                let listed: Vec<u64> = kv_pairs(&line, "members").unwrap().iter().map(|(a, _)| *a as u64).collect();
                let before = p.raw.get(k).cloned().unwrap_or_default();
                let after = cur.raw.get(k).cloned().unwrap_or_default();
                let distinct_new: BTreeSet<u64> = listed.iter().filter(|a| !before.contains_key(a)).copied().collect();
                if cur.num != p.num + distinct_new.len() as u64 {
                    return bad("add-miscounted", format!("count {} -> {} but {} new distinct members were listed", p.num, cur.num, distinct_new.len()));
                }
                if listed.iter().any(|a| !after.contains_key(a)) {
                    return bad("add-not-stored", "a listed member is not stored after a successful add".into());
                }
                if kind == Kind::Flex && (listed.iter().any(|a| before.contains_key(a)) || distinct_new.len() != listed.len()) {
                    return bad("add-existing-accepted", "whitelist-flex accepted an already stored / repeated member".into());
                }
                // an existing member keeps its stored value
                for (a, c) in &before {
                    if after.get(a) != Some(c) {
                        return bad("add-overwrote", format!("stored value of {a} changed"));
                    }
                }
            }
            if op == "rm" {
                let listed: Vec<u64> = kv_list(&line, "addrs").unwrap().iter().map(|a| *a as u64).collect();
                let before = p.raw.get(k).cloned().unwrap_or_default();
                let set: BTreeSet<u64> = listed.iter().copied().collect();
                if listed.iter().any(|a| !before.contains_key(a)) || set.len() != listed.len() {
                    return bad("remove-nonmember-accepted", "remove succeeded although a listed address was not a (distinct) stored member".into());
                }
                if cur.num + listed.len() as u64 != p.num {
                    return bad("remove-miscounted", format!("count {} -> {} for {} removals", p.num, cur.num, listed.len()));
                }
            }
        }
        // (5) fees: ever paid == 100 STARS per started thousand of the current limit; paid exactly; nothing stays
        let fees_paid = cur.paid - self.tips_ok;
        let want = if kind == Kind::Immutable { 0 } else { fee_for_limit(cur.limit) };
        if fees_paid != want {
            return bad("fees-ne-tiers", format!("fees ever paid {} != {} for member_limit {}", fees_paid, want, cur.limit));
        }
        if cur.bal != self.tips_ok {
            return bad("holds-funds", format!("whitelist balance is {} (funds attached to non-fee messages: {})", cur.bal, self.tips_ok));
        }
        if cur.burned + cur.pool != fees_paid {
            return bad("fee-not-burned", format!("burned {} + pool {} != fees paid {}", cur.burned, cur.pool, fees_paid));
        }
        if cur.other_denoms_moved {
            return bad("other-denom-moved", "a non-native balance changed".into());
        }
        if self.last_ok && (op == "inst" || op == "inc") && kind != Kind::Immutable {
            let funds = kv_pairs(&line, "funds").unwrap();
            let paid: u128 = funds.iter().map(|(_, a)| *a).sum();
            let due = if op == "inst" { fee_for_limit(cur.limit) } else { fee_for_limit(cur.limit) - self.prev.as_ref().map(|p| fee_for_limit(p.limit)).unwrap_or(0) };
            if funds.iter().any(|(d, _)| *d != 0) || paid != due {
                return bad("fee-not-exact", format!("accepted funds {:?} although {} was due", funds, due));
            }
        }
        None
    }
}

// ------------------------------------------------------------------------------------------------ generators

const GENESIS: u64 = 1_647_032_400_000_000_000;
const SEC: u64 = 1_000_000_000;
const T0: u64 = GENESIS + 1_000 * SEC;

struct Gen {
    kind: Kind,
    uni: Vec<u64>,
    valid: Vec<u64>,
    /// parsed from the last observation
    exists: bool,
    num: u64,
    limit: u64,
    maps: Vec<Vec<(u64, u64)>>,
    start: u64,
    times: Vec<(u64, u64)>,
    admins: Vec<u64>,
    whale: Option<u64>,
    /// class of the op just generated (marked together with its outcome)
    cls: String,
}

fn parse_obs(g: &mut Gen, out: &str) {
    let body = out.splitn(2, ' ').nth(1).unwrap_or("none");
    if body == "none" {
        g.exists = false;
        return;
    }
    g.exists = true;
    g.num = kv_u64(body, "n").unwrap_or(0);
    g.limit = kv_u64(body, "lim").unwrap_or(0);
    let mem = kv(body, "mem").unwrap_or("-");
    g.maps = if mem == "-" && g.kind.is_tiered() { vec![] } else { parse_lists(mem).into_iter().map(|l| l.into_iter().map(|(a, c)| (a as u64, c as u64)).collect()).collect() };
}

impl Gen {
    fn max(&self) -> u64 {
        self.kind.max_members()
    }
    fn pick_limit(&self, rng: &mut Rng, above: u64) -> u64 {
        let max = self.max();
        let mut c: Vec<u64> = vec![1, 2, 3, 4, 5, 6, 8, 999, 1000, 1001, 1999, 2000, 2001, 2999, 3000, 3001, max.saturating_sub(1), max, max / 2];
        c.retain(|x| *x > above && *x <= max);
        if c.is_empty() {
            return max + 1;
        }
        let small: Vec<u64> = c.iter().copied().filter(|x| *x <= 8).collect();
        if rng.chance(1, 6) {
            rng.range(above + 1, max)
        } else if above < 8 && rng.chance(1, 2) && !small.is_empty() {
            // stay small so that capacity is hit by the member lists
            *rng.pick(&small)
        } else {
            *rng.pick(&c)
        }
    }
    fn members(&self, rng: &mut Rng, n: usize, dup: bool, invalid: bool) -> Vec<(u64, u64)> {
        let mut v: Vec<(u64, u64)> = vec![];
        let mut pool = self.valid.clone();
        rng.shuffle(&mut pool);
        for a in pool.into_iter().take(n) {
            v.push((a, self.count(rng)));
        }
        if dup && !v.is_empty() {
            for _ in 0..rng.range(1, 2) {
                let x = *rng.pick(&v);
                v.push((x.0, if rng.chance(1, 2) { x.1 } else { self.count(rng) }));
            }
            if rng.chance(1, 2) {
                rng.shuffle(&mut v);
            }
        }
        if invalid {
            let pos = rng.below(v.len() as u64 + 1) as usize;
            v.insert(pos, (90001, 1));
        }
        v
    }
    fn count(&self, rng: &mut Rng) -> u64 {
        if !self.kind.is_flex() {
            return 0;
        }
        match self.whale {
            Some(c) if rng.chance(1, 3) => *rng.pick(&[c.saturating_sub(1), c, c]),
            _ => rng.range(0, 5),
        }
    }
}

fn fmt_members(ms: &[(u64, u64)]) -> String {
    fmt_pairs(ms)
}

/// funds for a fee: exact, or a single-fault mutation
fn fee_funds(rng: &mut Rng, fee: u128, fault: bool) -> (Vec<(u128, u128)>, &'static str) {
    if !fault {
        return (if fee == 0 { vec![] } else { vec![(0, fee)] }, "exact");
    }
    match rng.below(8) {
        0 => (vec![(0, fee + 1)], "plus1"),
        1 if fee > 0 => (vec![(0, fee - 1)], "minus1"),
        2 => (vec![], "none"),
        3 => (vec![(1, fee.max(1))], "wrong-denom"),
        4 => (vec![(0, fee.max(1)), (1, 5)], "two-coins"),
        5 => (vec![(0, fee + HUNDRED_STARS)], "tier-up"),
        6 if fee >= HUNDRED_STARS => (vec![(0, fee - HUNDRED_STARS)].into_iter().filter(|c| c.1 > 0).collect(), "tier-down"),
        _ => (vec![(0, fee * 2 + 7)], "double"),
    }
}

fn gen_inst(g: &mut Gen, rng: &mut Rng, _ses: &mut Session, fault: bool) -> String {
    let kind = g.kind;
    let f = if fault { rng.range(1, 12) } else { 0 };
    let now = T0;
    let mut limit = g.pick_limit(rng, 0);
    if kind == Kind::Immutable {
        limit = 8;
    }
    if f == 1 {
        limit = *rng.pick(&[0, g.max() + 1, g.max() + 1000]);
    }
    let fee = if limit == 0 { HUNDRED_STARS } else { fee_for_limit(limit) };
    let (funds, ftag) = if kind == Kind::Immutable {
        if f == 2 { (vec![(0u128, 5u128)], "pays") } else { (vec![], "none") }
    } else {
        fee_funds(rng, fee, f == 2)
    };
    // whale cap (flex kinds): must exceed the member limit
    let whale: Option<u64> = if kind.is_flex() {
        if f == 3 {
            Some(*rng.pick(&[limit, limit.saturating_sub(1), 0]))
        } else if rng.chance(1, 2) {
            Some(limit + rng.range(1, 3))
        } else {
            None
        }
    } else {
        None
    };
    g.whale = whale;
    let admins: Vec<u64> = if f == 4 { vec![5, 90002] } else if rng.chance(1, 2) { vec![5, 6] } else { vec![5] };
    // flat schedule
    let (mut start, mut end) = (T0 + 1_000 * SEC, T0 + 5_000 * SEC);
    if f == 5 && !kind.is_tiered() && kind != Kind::Immutable {
        match rng.below(4) {
            0 => start = now,
            1 => start = now - 1,
            2 => end = start - 1,
            _ => {
                start = GENESIS - 1;
                end = start + 10;
            }
        }
    } else if rng.chance(1, 6) {
        start = now + 1;
        end = start;
    }
    // member list sizes around the capacity
    let cap = limit.min(g.valid.len() as u64) as usize;
    let n = if f == 6 {
        (limit as usize + 1).min(g.valid.len())
    } else if rng.chance(1, 4) {
        cap
    } else if rng.chance(1, 8) {
        0
    } else {
        rng.range(0, cap as u64) as usize
    };
    let dup = rng.chance(1, 3) || f == 7;
    let invalid = f == 8;
    let mut members = g.members(rng, n, dup, invalid);
    if f == 9 && kind.is_flex() {
        if let (Some(c), false) = (whale, members.is_empty()) {
            let i = rng.below(members.len() as u64) as usize;
            members[i].1 = c + 1;
        }
    }
    // stages
    let mut stages: Vec<(u64, u64)> = vec![];
    let mut sm: Vec<Vec<(u64, u64)>> = vec![];
    if kind.is_tiered() {
        let ns = if f == 10 { *rng.pick(&[0u64, 4]) } else { rng.range(1, 3) };
        let mut t = T0 + 1_000 * SEC;
        for _ in 0..ns {
            let len = rng.range(1, 3) * 500 * SEC;
            stages.push((t, t + len));
            t += len + if rng.chance(1, 2) { 0 } else { 300 * SEC };
        }
        if f == 11 && !stages.is_empty() {
            match rng.below(4) {
                0 => stages[0].0 = now,
                1 => { let k = stages.len() - 1; stages[k].1 = stages[k].0; }
                2 if stages.len() > 1 => stages[1].0 = stages[0].1 - 1,
                _ => stages[0].0 = now - 1,
            }
        }
        let nl = if f == 12 { if rng.chance(1, 2) { ns + 1 } else { ns.saturating_sub(1) } } else { ns };
        // split the capacity over the stages
        let mut left = if f == 6 { limit as usize + 1 } else { cap };
        for i in 0..nl {
            let k = if i + 1 == nl && f == 6 { left.min(g.valid.len()) } else { rng.range(0, left.min(g.valid.len()) as u64) as usize };
            left = left.saturating_sub(k);
            let d2 = dup && rng.chance(1, 2);
            sm.push(g.members(rng, k, d2, invalid && i == 0));
        }
        if f == 9 {
            if let (Some(c), Some(l)) = (whale, sm.iter_mut().find(|l| !l.is_empty())) {
                l[0].1 = c + 1;
            }
        }
    }
    g.start = start;
    let lists = if sm.is_empty() { "~".to_string() } else { sm.iter().map(|l| fmt_members(l)).collect::<Vec<_>>().join("|") };
    let sender = *rng.pick(&[5u64, 7]);
    let raw_n: usize = if kind.is_tiered() { sm.iter().map(|l| l.len()).sum() } else { members.len() };
    g.cls = format!("{}:inst:f{}:{}:lim{}:raw{}", kind.tag(), f, ftag, limit_class(limit, g.max()), cmp_class(raw_n as u64, limit));
    format!(
        "inst sender={sender} now={now} funds={} limit={limit} whale={} admins={} start={start} end={end} members={} stages={} smembers={} pg={}",
        fmt_pairs(&funds), fmt_opt(&whale), fmt_list(&admins), fmt_members(&members), fmt_pairs(&stages), lists, rng.range(1, 4)
    )
}

fn limit_class(l: u64, max: u64) -> String {
    if l == 0 { "0".into() } else if l > max { "gtmax".into() } else if l == max { "max".into() } else if l + 1 == max { "max-1".into() }
    else if l % 1000 == 0 { "k000".into() } else if l % 1000 == 1 { "k001".into() } else if l % 1000 == 999 { "k999".into() } else if l <= 8 { "small".into() } else { "mid".into() }
}
fn cmp_class(a: u64, b: u64) -> &'static str {
    if a < b { "lt" } else if a == b { "eq" } else { "gt" }
}

fn gen_op(g: &mut Gen, rng: &mut Rng, _ses: &mut Session) -> String {
    let kind = g.kind;
    let pg = rng.range(1, 4);
    let fault = rng.chance(3, 10);
    let ns = g.maps.len() as u64;
    // clock: mostly before anything starts; sometimes exactly at an edge
    let edges: Vec<u64> = if kind.is_tiered() { g.times.iter().flat_map(|(s, e)| [*s, *e]).collect() } else { vec![g.start] };
    let now = if rng.chance(1, 5) && !edges.is_empty() {
        let e = *rng.pick(&edges);
        *rng.pick(&[e - 1, e, e + 1])
    } else {
        T0 + rng.range(1, 900) * SEC
    };
    let sender = if fault && rng.chance(1, 4) { 7 } else { 5 };
    let tip = if rng.chance(1, 25) { rng.range(1, 1000) } else { 0 };
    let stage = if kind.is_tiered() {
        if fault && rng.chance(1, 5) { ns } else { rng.below(ns.max(1)) }
    } else {
        0
    };
    let cur: Vec<(u64, u64)> = g.maps.get(stage as usize).cloned().unwrap_or_default();
    let room = g.limit.saturating_sub(g.num);
    let roll = rng.below(100);
    let tiered = kind.is_tiered();
    if roll < 38 {
        // add
        let n = match rng.below(6) {
            0 => room as usize,
            1 => room as usize + 1,
            2 => 0,
            _ => rng.range(1, 3) as usize,
        }
        .min(g.valid.len());
        let mut ms = if kind == Kind::Flex && !fault {
            // flex rejects existing members: draw from the non-members
            let non: Vec<u64> = g.valid.iter().copied().filter(|a| !cur.iter().any(|m| m.0 == *a)).collect();
            let mut non = non;
            rng.shuffle(&mut non);
            non.into_iter().take(n).map(|a| (a, g.count(rng))).collect()
        } else {
            let (d2, i2) = (fault && rng.chance(1, 3), fault && rng.chance(1, 6));
            g.members(rng, n, d2, i2)
        };
        if rng.chance(1, 5) && !cur.is_empty() {
            // include an existing member (skipped / rejected), first or last
            let x = *rng.pick(&cur);
            if rng.chance(1, 2) { ms.insert(0, (x.0, g.count(rng))) } else { ms.push((x.0, g.count(rng))) }
        }
        // a mint count above the whale cap: `add_members` does not look at the cap
        let mut overcap = 0;
        if let (Some(c), true, false) = (g.whale, rng.chance(1, 8), ms.is_empty()) {
            let i = rng.below(ms.len() as u64) as usize;
            ms[i].1 = c + 1;
            overcap = 1;
        }
        let existing = ms.iter().filter(|m| cur.iter().any(|c| c.0 == m.0)).count();
        let distinct_new: BTreeSet<u64> = ms.iter().map(|m| m.0).filter(|a| !cur.iter().any(|c| c.0 == *a)).collect();
        g.cls = format!("{}:add:new{}:room{}:existing{}:sender{}:tip{}:overcap{}", kind.tag(), cmp_class(distinct_new.len() as u64, room), room.min(2), existing.min(2), sender, tip.min(1), overcap);
        format!("add sender={sender} now={now} tip={tip} stage={stage} members={} pg={pg}", fmt_members(&ms))
    } else if roll < 58 {
        // remove
        let mut xs: Vec<u64> = vec![];
        let mut pool = cur.clone();
        rng.shuffle(&mut pool);
        for m in pool.iter().take(rng.range(1, 2) as usize) {
            xs.push(m.0);
        }
        let mut tag = "members";
        if fault {
            match rng.below(4) {
                0 => { if let Some(x) = xs.first().copied() { xs.push(x); tag = "repeated"; } }
                1 => { let non: Vec<u64> = g.valid.iter().copied().filter(|a| !cur.iter().any(|m| m.0 == *a)).collect(); if !non.is_empty() { xs.push(*rng.pick(&non)); tag = "nonmember"; } }
                2 => { xs.push(90001); tag = "invalid"; }
                _ => {}
            }
        }
        if xs.is_empty() { tag = "empty"; }
        let started = if tiered { g.times.get(stage as usize).map(|t| now >= t.0).unwrap_or(false) } else { now >= g.start };
        g.cls = format!("{}:rm:{}:started{}:sender{}", kind.tag(), tag, started, sender);
        format!("rm sender={sender} now={now} tip={tip} stage={stage} addrs={} pg={pg}", fmt_list(&xs))
    } else if roll < 74 {
        // increase limit — anybody may call it
        let sender = *rng.pick(&[5u64, 7, 8]);
        let lim = if fault && rng.chance(1, 3) { *rng.pick(&[g.limit, g.limit.saturating_sub(1), g.max() + 1]) } else { g.pick_limit(rng, g.limit) };
        let fee = if lim > g.limit { fee_for_limit(lim) - fee_for_limit(g.limit) } else { 0 };
        let ff = fault && rng.chance(1, 2);
        let (funds, ftag) = fee_funds(rng, fee, ff);
        g.cls = format!("{}:inc:{}->{}:fee{}:{}", kind.tag(), limit_class(g.limit, g.max()), limit_class(lim, g.max()), (fee / HUNDRED_STARS).min(3), ftag);
        format!("inc sender={sender} now={now} funds={} limit={lim} pg={pg}", fmt_pairs(&funds))
    } else if roll < 84 && (tiered || rng.chance(1, 6)) {
        // add stage (flat kinds: the message does not exist)
        let last_end = g.times.last().map(|t| t.1).unwrap_or(T0 + 1_000 * SEC);
        let mut start = last_end + if rng.chance(1, 2) { 0 } else { 100 * SEC };
        let mut end = start + 500 * SEC;
        let mut now2 = T0 + rng.range(1, 900) * SEC;
        let mut tag = "valid";
        if fault {
            match rng.below(4) {
                0 => { start = last_end.saturating_sub(1); tag = "overlap"; }
                1 => { end = start; tag = "empty-window"; }
                2 => { now2 = g.times.first().map(|t| t.0).unwrap_or(start); tag = "first-started"; }
                _ => {}
            }
        }
        let n = match rng.below(4) { 0 => room as usize, 1 => room as usize + 1, _ => rng.range(0, 3) as usize }.min(g.valid.len());
        let (d2, i2) = (rng.chance(1, 3), fault && rng.chance(1, 8));
        let mut ms = g.members(rng, n, d2, i2);
        // tiered-flex `add_stage` does enforce the whale cap
        let mut overcap = 0;
        if let (Some(c), true, false) = (g.whale, rng.chance(1, 8), ms.is_empty()) {
            let i = rng.below(ms.len() as u64) as usize;
            ms[i].1 = c + 1;
            overcap = 1;
        }
        g.cls = format!("{}:addstage:{}:ns{}:n{}:sender{}:overcap{}", kind.tag(), tag, ns, cmp_class(n as u64, room), sender, overcap);
        format!("addstage sender={sender} now={now2} tip={tip} start={start} end={end} members={} pg={pg}", fmt_members(&ms))
    } else if roll < 90 && (tiered || rng.chance(1, 6)) {
        let started = g.times.get(stage as usize).map(|t| now >= t.0).unwrap_or(false);
        g.cls = format!("{}:rmstage:stage{}of{}:started{}:sender{}", kind.tag(), stage, ns, started, sender);
        format!("rmstage sender={sender} now={now} tip={tip} stage={stage} pg={pg}")
    } else if roll < 95 {
        // messages that only touch admins / times: the model takes the read-back values as environment
        let what: Vec<&str> = if tiered { vec!["upd_stage", "upd_admins", "freeze"] } else { vec!["upd_start", "upd_end", "upd_admins", "freeze", "upd_pal"] };
        let w = *rng.pick(&what);
        g.cls = format!("{}:env:{}", kind.tag(), w);
        match w {
            "upd_start" => format!("env what=upd_start sender={sender} now={now} t={} pg={pg}", T0 + rng.range(500, 1500) * SEC),
            "upd_end" => format!("env what=upd_end sender={sender} now={now} t={} pg={pg}", T0 + rng.range(900, 6000) * SEC),
            "upd_pal" => format!("env what=upd_pal sender={sender} now={now} n={} pg={pg}", rng.range(0, 31)),
            "upd_admins" => format!("env what=upd_admins sender={sender} now={now} admins={} pg={pg}", if rng.chance(1, 2) { "5,6" } else { "5" }),
            "freeze" => format!("env what=freeze sender={sender} now={now} pg={pg}"),
            _ => {
                let (s, e) = g.times.get(stage as usize).copied().unwrap_or((T0, T0 + 1));
                let ns_ = if rng.chance(1, 2) { fmt_opt(&Some(s + rng.range(0, 50) * SEC)) } else { "-".into() };
                let ne = if rng.chance(1, 2) { fmt_opt(&Some(e - rng.range(0, 50) * SEC)) } else { "-".into() };
                format!("env what=upd_stage sender={sender} now={now} stage={stage} start={ns_} end={ne} pg={pg}")
            }
        }
    } else if roll < 98 {
        g.cls = format!("{}:q", kind.tag());
        format!("q now={now} pg={pg}")
    } else {
        let after = if rng.chance(1, 2) { None } else { Some(*rng.pick(&g.uni)) };
        let limit = match rng.below(5) { 0 => None, 1 => Some(0), 2 => Some(1000), _ => Some(rng.range(1, 5)) };
        g.cls = format!("{}:page:after{}:limit{}", kind.tag(), after.map(|a| if a >= 90000 { "invalid" } else { "some" }).unwrap_or("none"), limit.map(|l| l.min(6).to_string()).unwrap_or("none".into()));
        format!("page stage={stage} after={} limit={}", fmt_opt(&after), fmt_opt(&limit))
    }
}

/// keep the generator's view of times / admins in step (parsed from the model line's witness fields)
fn absorb_env(g: &mut Gen, sut: &S) {
    if let Some(s) = &sut.cur {
        g.admins = s.admins.clone();
        if g.kind.is_tiered() {
            g.times = s.times.clone();
        } else if let Some(t) = s.times.first() {
            g.start = t.0;
        }
    }
}

fn run_trace(ses: &mut Session, sut: &mut S, kind: Kind, rng: &mut Rng, n_ops: u64) {
    let uni: Vec<u64> = vec![10, 11, 12, 13, 14, 15, 16, 17, 90001];
    let mut g = Gen { kind, uni: uni.clone(), valid: uni.iter().copied().filter(|a| *a < 90000).collect(), exists: false, num: 0, limit: 0, maps: vec![], start: 0, times: vec![], admins: vec![], whale: None, cls: String::new() };
    ses.begin_case(sut, &format!("case kind={} uni={}", kind.tag(), fmt_list(&uni)));
    // an op before any instantiate
    if rng.chance(1, 10) {
        ses.step(sut, "q now=1 pg=2");
    }
    let mut tries = 0;
    while !g.exists && tries < 4 {
        let fault = rng.chance(3, 10);
        let line = gen_inst(&mut g, rng, ses, fault);
        let out = ses.step(sut, &line);
        ses.mark(format!("{}:{}", g.cls, out.split(' ').next().unwrap_or("?")));
        parse_obs(&mut g, &out);
        ses.count(&format!("inst:{}:{}", kind.tag(), if g.exists { "ok" } else { "err" }));
        tries += 1;
    }
    absorb_env(&mut g, sut);
    if g.exists {
        for _ in 0..n_ops {
            let line = gen_op(&mut g, rng, ses);
            let out = ses.step(sut, &line);
            ses.mark(format!("{}:{}", g.cls, out.split(' ').next().unwrap_or("?")));
            if !line.starts_with("page") {
                parse_obs(&mut g, &out);
            }
            absorb_env(&mut g, sut);
            if kind == Kind::Immutable && rng.chance(1, 3) {
                break;
            }
        }
    }
    ses.end_case();
}

/// hand-written boundary scenarios (limits around the fee tiers and MAX, duplicate handling, capacity quirks)
fn scripted(ses: &mut Session, sut: &mut S) {
    let uni = "10,11,12,13,14,15,16,17,90001";
    let st = T0 + 1_000 * SEC;
    let en = T0 + 5_000 * SEC;
    for kind in [Kind::Plain, Kind::Flex, Kind::Tiered, Kind::TFlex] {
        let max = kind.max_members();
        let k = kind.tag();
        let stages = format!("{}:{},{}:{}", st, st + 500 * SEC, st + 500 * SEC, st + 900 * SEC);
        let inst = |limit: u64, funds: u128, members: &str, sm: &str| {
            format!("inst sender=5 now={T0} funds=0:{funds} limit={limit} whale=- admins=5 start={st} end={en} members={members} stages={stages} smembers={sm} pg=3")
        };
        // fee tiers at instantiate: exact fee accepted, neighbours rejected
        for limit in [1u64, 999, 1000, 1001, 1999, 2000, 2001, max - 1, max, max + 1] {
            ses.begin_case(sut, &format!("case kind={k} uni={uni} scripted=inst-tier-{limit}"));
            let fee = fee_for_limit(limit);
            ses.step(sut, &inst(limit, fee - 1, "10:1", "10:1|-"));
            ses.step(sut, &inst(limit, fee + HUNDRED_STARS, "10:1", "10:1|-"));
            ses.step(sut, &inst(limit, fee, "10:1,11:2", "10:1|11:2"));
            ses.mark(format!("{k}:scripted:inst-tier:{}", limit_class(limit, max)));
            ses.end_case();
        }
        // chain of limit increases across the tiers (telescoping), free inside a tier
        ses.begin_case(sut, &format!("case kind={k} uni={uni} scripted=inc-chain"));
        ses.step(sut, &inst(1, HUNDRED_STARS, "10:1", "10:1|-"));
        let mut cur = 1u64;
        for lim in [999u64, 1000, 1001, 1001, 1000, 1999, 2000, 2001, 4000, max - 1, max, max + 1] {
            let fee = if lim > cur && lim <= max { fee_for_limit(lim) - fee_for_limit(cur) } else { 0 };
            // wrong payments first
            ses.step(sut, &format!("inc sender=7 now={} funds=0:{} limit={lim} pg=2", T0 + SEC, fee + 1));
            if fee > 0 {
                ses.step(sut, &format!("inc sender=7 now={} funds=- limit={lim} pg=2", T0 + SEC));
            }
            let f = if fee == 0 { "-".to_string() } else { format!("0:{fee}") };
            let out = ses.step(sut, &format!("inc sender=7 now={} funds={f} limit={lim} pg=2", T0 + SEC));
            if out.starts_with("ok") {
                cur = lim;
            }
            ses.mark(format!("{k}:scripted:inc:{}", limit_class(lim, max)));
        }
        ses.end_case();
        // duplicates at instantiate (the repaired F-C11a/b/c inputs)
        ses.begin_case(sut, &format!("case kind={k} uni={uni} scripted=inst-dups"));
        ses.step(sut, &inst(3, HUNDRED_STARS, "10:1,10:2,11:1", "10:1,10:2|11:1,11:1"));
        ses.step(sut, &inst(2, HUNDRED_STARS, "10:1,10:2,11:1", "10:1,10:2|11:1"));
        ses.step(sut, &inst(5, HUNDRED_STARS, "12:3,10:1,12:4,10:2", "12:3,10:1,12:4|10:2,10:2,13:1"));
        if kind.is_tiered() {
            ses.step(sut, &inst(5, HUNDRED_STARS, "-", "10:1"));
            ses.step(sut, &inst(5, HUNDRED_STARS, "-", "10:1|11:1,12:1|13:1"));
            ses.step(sut, &inst(5, HUNDRED_STARS, "-", "~"));
            ses.step(sut, &inst(5, HUNDRED_STARS, "-", "-|-"));
            ses.step(sut, &format!("addstage sender=5 now={} tip=0 start={} end={} members=10:1,10:2,11:1,10:3 pg=1", T0 + SEC, st + 900 * SEC, st + 1000 * SEC));
            ses.step(sut, &format!("rmstage sender=5 now={} tip=0 stage=0 pg=1", T0 + SEC));
            ses.step(sut, &format!("addstage sender=5 now={} tip=0 start={} end={} members=12:1,12:1 pg=1", T0 + SEC, st, st + 10));
        }
        ses.mark(format!("{k}:scripted:dups"));
        ses.end_case();
        // capacity quirk: an existing member at a full list, order of the sorted list
        ses.begin_case(sut, &format!("case kind={k} uni={uni} scripted=full"));
        ses.step(sut, &inst(2, HUNDRED_STARS, "11:1", "11:1|-"));
        ses.step(sut, &format!("add sender=5 now={} tip=0 stage=0 members=11:1,12:1 pg=2", T0 + SEC));
        ses.step(sut, &format!("add sender=5 now={} tip=0 stage=0 members=11:1 pg=2", T0 + SEC));
        ses.step(sut, &format!("rm sender=5 now={} tip=0 stage=0 addrs=12 pg=2", T0 + SEC));
        ses.step(sut, &format!("add sender=5 now={} tip=0 stage=0 members=10:1,11:1 pg=2", T0 + SEC));
        ses.step(sut, &format!("rm sender=5 now={} tip=0 stage=0 addrs=10 pg=2", T0 + SEC));
        ses.step(sut, &format!("add sender=5 now={} tip=0 stage=0 members=12:1,11:1 pg=2", T0 + SEC));
        ses.step(sut, &format!("rm sender=5 now={} tip=0 stage=0 addrs=11,11 pg=2", T0 + SEC));
        ses.step(sut, &format!("rm sender=5 now={} tip=0 stage=0 addrs=11,12 pg=2", st - 1));
        ses.step(sut, &format!("add sender=5 now={} tip=5 stage=0 members=13:1 pg=2", st));
        ses.step(sut, &format!("rm sender=5 now={} tip=0 stage=0 addrs=13 pg=2", st));
        ses.step(sut, &format!("q now={} pg=1", st + 500 * SEC));
        ses.step(sut, &format!("q now={} pg=1", st + 500 * SEC + 1));
        ses.mark(format!("{k}:scripted:full"));
        ses.end_case();
    }
    ses.begin_case(sut, &format!("case kind=immutable uni={uni} scripted=immutable"));
    ses.step(sut, &format!("inst sender=5 now={T0} funds=- limit=0 whale=- admins=5 start=0 end=0 members=- stages=- smembers=~ pg=1"));
    ses.step(sut, &format!("inst sender=5 now={T0} funds=0:5 limit=0 whale=- admins=5 start=0 end=0 members=10:0 stages=- smembers=~ pg=1"));
    ses.step(sut, &format!("inst sender=5 now={T0} funds=- limit=0 whale=- admins=5 start=0 end=0 members=12:0,10:0,12:0,90001:0,10:0 stages=- smembers=~ pg=1"));
    ses.step(sut, &format!("add sender=5 now={T0} tip=0 stage=0 members=11:0 pg=1"));
    ses.step(sut, &format!("inc sender=5 now={T0} funds=- limit=10 pg=1"));
    ses.mark("immutable:scripted");
    ses.end_case();
}

/// Exhaustive small scope (model validation, not the proof): EVERY sequence of `depth` ops over a small alphabet,
/// limit 2, three valid addresses, for the four mutable kinds.
fn exhaustive(ses: &mut Session, sut: &mut S, depth: usize) {
    let uni = "10,11,12,90001";
    let st = T0 + 1_000 * SEC;
    let en = T0 + 5_000 * SEC;
    let now = T0 + SEC;
    let mut total = 0u64;
    for kind in [Kind::Plain, Kind::Flex, Kind::Tiered, Kind::TFlex] {
        let k = kind.tag();
        let inst = format!(
            "inst sender=5 now={T0} funds=0:100000000 limit=2 whale=- admins=5 start={st} end={en} members=10:1 stages={st}:{} smembers=10:1 pg=1",
            st + 500 * SEC
        );
        let mut alpha: Vec<String> = vec![
            format!("add sender=5 now={now} tip=0 stage=0 members=10:1 pg=1"),
            format!("add sender=5 now={now} tip=0 stage=0 members=11:1 pg=2"),
            format!("add sender=5 now={now} tip=0 stage=0 members=12:2,10:3 pg=1"),
            format!("add sender=5 now={now} tip=0 stage=0 members=11:1,12:1 pg=1"),
            format!("rm sender=5 now={now} tip=0 stage=0 addrs=10 pg=1"),
            format!("rm sender=5 now={now} tip=0 stage=0 addrs=11 pg=1"),
            format!("rm sender=5 now={now} tip=0 stage=0 addrs=10,12 pg=1"),
            format!("inc sender=7 now={now} funds=- limit=3 pg=1"),
        ];
        if kind.is_tiered() {
            alpha.push(format!("addstage sender=5 now={now} tip=0 start={} end={} members=11:1,10:1,11:2 pg=1", st + 500 * SEC, st + 900 * SEC));
            alpha.push(format!("add sender=5 now={now} tip=0 stage=1 members=12:1 pg=1"));
            alpha.push(format!("rm sender=5 now={now} tip=0 stage=1 addrs=10 pg=1"));
            alpha.push(format!("rmstage sender=5 now={now} tip=0 stage=1 pg=1"));
            alpha.push(format!("rmstage sender=5 now={now} tip=0 stage=0 pg=1"));
        }
        let n = alpha.len();
        let mut idx = vec![0usize; depth];
        loop {
            ses.begin_case(sut, &format!("case kind={k} uni={uni} exhaustive={}", idx.iter().map(|i| i.to_string()).collect::<Vec<_>>().join(".")));
            ses.step(sut, &inst);
            for (pos, i) in idx.iter().enumerate() {
                let out = ses.step(sut, &alpha[*i]);
                ses.mark(format!("{k}:exh:pos{pos}:op{i}:{}", out.split(' ').next().unwrap_or("?")));
            }
            ses.end_case();
            total += 1;
            // next index vector
            let mut p = depth;
            loop {
                if p == 0 {
                    break;
                }
                p -= 1;
                idx[p] += 1;
                if idx[p] < n {
                    break;
                }
                idx[p] = 0;
                if p == 0 {
                    p = usize::MAX;
                    break;
                }
            }
            if p == usize::MAX || depth == 0 {
                break;
            }
        }
    }
    ses.note(format!("exhaustive small scope: all {total} op sequences of length {depth} over an alphabet of 8 (flat) / 13 (tiered) ops, limit 2, addresses 10..12 — model validation only"));
}

fn main() {
    let mut ses = Session::new("C11");
    let mut sut = S::new();
    if ses.maybe_replay(&mut sut) {
        ses.finish(&mut sut);
    }
    scripted(&mut ses, &mut sut);
    let depth = ses.scale(3, 4) as usize;
    exhaustive(&mut ses, &mut sut, depth.min(4));
    let mut rng = ses.rng.fork();
    let traces = ses.scale(400, 5000);
    let n_ops = ses.scale(24, 30);
    for i in 0..traces {
        for kind in [Kind::Plain, Kind::Flex, Kind::Tiered, Kind::TFlex, Kind::Immutable] {
            if kind == Kind::Immutable && i % 4 != 0 {
                continue;
            }
            run_trace(&mut ses, &mut sut, kind, &mut rng, n_ops);
        }
    }
    ses.note("universe: 8 valid addresses + 1 invalid; member limits from {1..8, 999,1000,1001,1999,2000,2001,2999,3000,3001, MAX/2, MAX-1, MAX} and faults {0, MAX+1}; fees exact or single-fault (±1, none, wrong denom, two coins, ±one tier, double)");
    ses.note("stored members are enumerated by paging `Members` with page sizes 1..4 to exhaustion AND by a raw storage dump; HasMember/StageMemberInfo/Member are asked for every universe address after every op");
    ses.finish(&mut sut);
}
