//! C17 — token-merge minter: mints happen exactly when the required tokens were burned.
//!
//! REAL contracts under cw-multi-test: base-factory + 4 base minters / sg721-base source collections (created through
//! the factory), token-merge-factory → token-merge-minter + its sg721-base collection. Compared with the Lean model
//! `LP.TM` (driver `drv_c17`, protocol documented in `lean/LaunchpadModel/Driver/C17.lean`).
//!
//! Fixed addresses (instantiate order is deterministic, asserted in `begin`):
//!   contract0 base-factory; contract(1+2i) base minter i, contract(2+2i) source collection i (ids 1002,1004,1006,1008);
//!   contract9 token-merge-factory; contract10 the minter (1010); contract11 its collection (1011).
//! Accounts: admin/creator = 10, users 20..24, gov 90.
use lp_harness::minters::*;
use lp_harness::world::{addr, addr_id};
use lp_harness::*;
use serde_json::{json, Value};
use std::collections::BTreeMap;

const ADMIN: u64 = 10;
const COLLS: [u64; 4] = [1002, 1004, 1006, 1008];
const SELF: u64 = 1010;
const TGT: u64 = 1011;
const USERS: [u64; 5] = [20, 21, 22, 23, 24];
const NOW0: u64 = GENESIS + 1_000;
const MAXLIM: u32 = 50;
const BASE_MINT_FEE: u128 = 50_000_000 * 1000 / 10_000;

#[derive(Clone, Debug, Default, PartialEq)]
struct Snap {
    now: u64,
    start: u64,
    limit: u32,
    req: Vec<(u64, u32)>,
    left: u32,
    tnum: u64,
    dep: BTreeMap<u64, Vec<(u64, u32)>>,
    cnt: BTreeMap<u64, u32>,
}

#[derive(Clone, Debug)]
struct Rec {
    line: String,
    kind: String,
    ok: bool,
    pre: Snap,
    post: Snap,
    r: u64,
    src: Option<(u64, u64)>,
    pre_own: Option<u64>,
    post_own: Option<u64>,
    pre_num: u64,
    post_num: u64,
    picked: Option<u64>,
    town: Option<u64>,
}

struct S {
    w: World,
    base_minters: Vec<String>,
    users: Vec<u64>,
    last: Option<Rec>,
}

fn b64(v: &Value) -> Value {
    serde_json::to_value(cosmwasm_std::to_json_binary(v).unwrap()).unwrap()
}

impl S {
    fn new() -> S {
        S { w: World::new(NOW0), base_minters: vec![], users: USERS.to_vec(), last: None }
    }
    fn q_dep(&self, u: u64) -> Vec<(u64, u32)> {
        let v = self.w.query(&addr(SELF), &json!({"deposited_tokens": {"address": addr(u)}})).expect("deposited_tokens");
        let mut out: Vec<(u64, u32)> = v["mint_tokens"]
            .as_array()
            .unwrap()
            .iter()
            .map(|e| (addr_id(e["collection"].as_str().unwrap()), e["amount"].as_u64().unwrap() as u32))
            .collect();
        out.sort();
        out
    }
    fn q_cnt(&self, u: u64) -> u32 {
        self.w.query(&addr(SELF), &json!({"mint_count": {"address": addr(u)}})).expect("mint_count")["count"].as_u64().unwrap() as u32
    }
    fn q_left(&self) -> u32 {
        self.w.query(&addr(SELF), &json!({"mintable_num_tokens": {}})).expect("mintable")["count"].as_u64().unwrap() as u32
    }
    fn q_num(&self, coll: u64) -> u64 {
        self.w.query(&addr(coll), &json!({"num_tokens": {}})).map(|v| v["count"].as_u64().unwrap()).unwrap_or(0)
    }
    fn q_owner(&self, coll: u64, id: u64) -> Option<u64> {
        self.w
            .query(&addr(coll), &json!({"owner_of": {"token_id": id.to_string(), "include_expired": null}}))
            .ok()
            .map(|v| addr_id(v["owner"].as_str().unwrap()))
    }
    fn is_coll(&self, c: u64) -> bool {
        COLLS.contains(&c)
    }
    fn snap(&self, extra: &[u64]) -> Snap {
        let cfg = self.w.query(&addr(SELF), &json!({"config": {}})).expect("config");
        let mut s = Snap {
            now: self.w.time(),
            start: cfg["start_time"].as_str().unwrap().parse().unwrap(),
            limit: cfg["per_address_limit"].as_u64().unwrap() as u32,
            req: cfg["mint_tokens"].as_array().unwrap().iter().map(|e| (addr_id(e["collection"].as_str().unwrap()), e["amount"].as_u64().unwrap() as u32)).collect(),
            left: self.q_left(),
            tnum: self.q_num(TGT),
            ..Default::default()
        };
        for u in self.users.iter().chain(extra.iter()) {
            s.dep.insert(*u, self.q_dep(*u));
            s.cnt.insert(*u, self.q_cnt(*u));
        }
        s
    }
    /// remaining mintable ids from the raw `mt` map of the minter
    fn mintable_ids(&self) -> Vec<u64> {
        let mut ids = vec![];
        for (k, v) in self.w.dump(&addr(SELF)) {
            if k.len() == 8 && k[0] == 0 && k[1] == 2 && &k[2..4] == b"mt" {
                ids.push(String::from_utf8_lossy(&v).parse::<u64>().unwrap());
            }
        }
        ids.sort();
        ids
    }
    fn minted_id(&self, res: &cw_multi_test::AppResponse) -> Option<u64> {
        for e in &res.events {
            if e.ty != "wasm" {
                continue;
            }
            let at = |k: &str| e.attributes.iter().find(|a| a.key == k).map(|a| a.value.clone());
            if at("_contract_address").as_deref() == Some(addr(TGT).as_str()) && at("action").as_deref() == Some("mint") {
                return at("token_id").and_then(|t| t.parse().ok());
            }
        }
        None
    }
    fn touched(&self, r: u64, src: Option<(u64, u64)>, m: Option<u64>) -> String {
        let (own, num) = match src {
            Some((c, id)) if self.is_coll(c) => (self.q_owner(c, id).unwrap_or(0), self.q_num(c)),
            _ => (0, 0),
        };
        let town = m.and_then(|id| self.q_owner(TGT, id)).unwrap_or(0);
        format!("dep={} cnt={} left={} own={} num={} tnum={} town={}", fmt_pairs(&self.q_dep(r)), self.q_cnt(r), self.q_left(), own, num, self.q_num(TGT), town)
    }
    fn inner_msg(rcpt: Option<u64>, bad: u64) -> Value {
        match bad {
            1 => b64(&json!({"deposit_token": {"recipient": "X!"}})),
            2 => b64(&json!({"withdraw_token": {}})),
            _ => b64(&json!({"deposit_token": {"recipient": rcpt.map(addr)}})),
        }
    }
    /// runs a deposit-like / mint op with full pre/post recording; `f` performs the call
    fn deposit_like(
        &mut self,
        line: &str,
        kind: &str,
        r: u64,
        src: Option<(u64, u64)>,
        fixed_id: Option<u64>,
        f: impl FnOnce(&mut World) -> Result<cw_multi_test::AppResponse, String>,
    ) -> (String, String) {
        let pre = self.snap(&[r]);
        let real_src = src.filter(|(c, _)| self.is_coll(*c));
        let pre_own = real_src.and_then(|(c, id)| self.q_owner(c, id));
        let pre_num = real_src.map(|(c, _)| self.q_num(c)).unwrap_or(0);
        let res = f(&mut self.w);
        let ok = res.is_ok();
        let picked = match &res {
            Ok(r) => self.minted_id(r),
            Err(_) => None,
        };
        let post = self.snap(&[r]);
        let post_own = real_src.and_then(|(c, id)| self.q_owner(c, id));
        let post_num = real_src.map(|(c, _)| self.q_num(c)).unwrap_or(0);
        // for mint_for the model looks at the requested id even on failure
        let shown = if ok { picked } else { fixed_id };
        let town = shown.and_then(|id| self.q_owner(TGT, id));
        let out = format!("{} m={} {}", if ok { "ok" } else { "err" }, fmt_opt(&picked), self.touched(r, src, shown));
        self.last = Some(Rec { line: line.to_string(), kind: kind.to_string(), ok, pre, post, r, src, pre_own, post_own, pre_num, post_num, picked, town });
        let model_line = if kind == "mint_for" { line.to_string() } else { format!("{line} picked={}", fmt_opt(&picked)) };
        (model_line, out)
    }
    fn simple(&mut self, line: &str, kind: &str, ok: bool, pre: Snap, out: String) -> (String, String) {
        let post = self.snap(&[]);
        self.last = Some(Rec { line: line.to_string(), kind: kind.to_string(), ok, pre, post, r: 0, src: None, pre_own: None, post_own: None, pre_num: 0, post_num: 0, picked: None, town: None });
        (line.to_string(), out)
    }
}

impl Sut for S {
    fn begin(&mut self, header: &str) -> (String, String) {
        let req = kv_pairs(header, "req").expect("req");
        let start = kv_u64(header, "start").expect("start");
        let limit = kv_u64(header, "limit").expect("limit") as u32;
        let n = kv_u64(header, "n").expect("n") as u32;
        let price = kv_u128(header, "price").expect("price");
        let now = kv_u64(header, "now").expect("now");
        let mut w = World::new(now);
        w.fund(&addr(ADMIN), 0, 1_000_000_000_000_000);
        let pb = w.default_params(MinterKind::Base);
        let fb = w.new_factory(FactoryKind::Base, &pb).expect("base factory");
        assert_eq!(fb, "contract0");
        let mut base_minters = vec![];
        for (i, c) in COLLS.iter().enumerate() {
            let mut ab = w.default_create(MinterKind::Base, &pb);
            ab.creator = ADMIN;
            let (mb, cb) = w.create_minter(&fb, MinterKind::Base, &ab).expect("base minter");
            assert_eq!(mb, format!("contract{}", 1 + 2 * i));
            assert_eq!(cb, addr(*c));
            base_minters.push(mb);
        }
        let mut p = w.default_params(MinterKind::TokenMerge);
        p.airdrop_mint_price = (0, price);
        p.airdrop_mint_fee_bps = 5000;
        p.max_per_address_limit = MAXLIM;
        let f = w.new_factory(FactoryKind::TokenMerge, &p).expect("token-merge factory");
        let mut a = w.default_create(MinterKind::TokenMerge, &p);
        a.creator = ADMIN;
        a.num_tokens = Some(n);
        a.per_address_limit = limit;
        a.start_time = start;
        a.mint_tokens = req.iter().map(|(c, k)| (addr(*c as u64), *k as u32)).collect();
        let (m, c) = w.create_minter(&f, MinterKind::TokenMerge, &a).unwrap_or_else(|e| panic!("create token-merge minter: {e} ({header})"));
        assert_eq!(m, addr(SELF));
        assert_eq!(c, addr(TGT));
        assert_eq!(kv_u64(header, "self"), Some(SELF));
        assert_eq!(kv_u64(header, "tgt"), Some(TGT));
        assert_eq!(kv_u64(header, "admin"), Some(ADMIN));
        assert_eq!(kv_list(header, "colls").unwrap(), COLLS.iter().map(|c| *c as u128).collect::<Vec<_>>());
        assert_eq!(kv_u64(header, "maxlim"), Some(MAXLIM as u64));
        self.w = w;
        self.base_minters = base_minters;
        self.users = USERS.to_vec();
        self.last = None;
        (header.to_string(), "case".to_string())
    }

    fn exec(&mut self, line: &str) -> (String, String) {
        let op = line.split_whitespace().next().unwrap_or("");
        let g = |k: &str| kv_u64(line, k).unwrap_or_else(|| panic!("missing {k} in `{line}`"));
        match op {
            "t" => {
                let pre = self.snap(&[]);
                self.w.set_time(g("now"));
                self.simple(line, "t", true, pre, "ok".into())
            }
            "give" => {
                let pre = self.snap(&[]);
                let (c, to) = (g("coll"), g("to"));
                let mut got: Option<u64> = None;
                if let Some(i) = COLLS.iter().position(|x| *x == c) {
                    let bm = self.base_minters[i].clone();
                    if let Ok(res) = self.w.exec(&addr(ADMIN), &bm, &json!({"mint": {"token_uri": "ipfs://source/token"}}), &[(0, BASE_MINT_FEE)]) {
                        for e in &res.events {
                            let at = |k: &str| e.attributes.iter().find(|a| a.key == k).map(|a| a.value.clone());
                            if e.ty == "wasm" && at("_contract_address").as_deref() == Some(addr(c).as_str()) && at("action").as_deref() == Some("mint") {
                                got = at("token_id").and_then(|t| t.parse().ok());
                            }
                        }
                        let id = got.expect("base mint token id");
                        self.w
                            .exec(&addr(ADMIN), &addr(c), &json!({"transfer_nft": {"recipient": addr(to), "token_id": id.to_string()}}), &[])
                            .expect("distribute source token");
                    }
                }
                let out = match got {
                    Some(id) => format!("ok {id}"),
                    None => "err".into(),
                };
                let (_, o) = self.simple(line, "give", got.is_some(), pre, out);
                (format!("{line} id={}", fmt_opt(&got)), o)
            }
            "xfer" | "approve" => {
                let pre = self.snap(&[]);
                let (caller, c, id) = (g("caller"), g("coll"), g("id"));
                let msg = if op == "xfer" {
                    json!({"transfer_nft": {"recipient": addr(g("to")), "token_id": id.to_string()}})
                } else {
                    json!({"approve": {"spender": addr(g("spender")), "token_id": id.to_string(), "expires": null}})
                };
                let ok = self.w.exec(&addr(caller), &addr(c), &msg, &[]).is_ok();
                let own = if self.is_coll(c) { self.q_owner(c, id).unwrap_or(0) } else { 0 };
                self.simple(line, op, ok, pre, format!("{} own={own}", if ok { "ok" } else { "err" }))
            }
            "send" => {
                let (caller, c, id, to) = (g("caller"), g("coll"), g("id"), g("to"));
                let rcpt = kv_opt_u64(line, "rcpt").unwrap();
                let bad = g("bad");
                let msg = json!({"send_nft": {"contract": addr(to), "token_id": id.to_string(), "msg": S::inner_msg(rcpt, bad)}});
                self.deposit_like(line, "send", rcpt.unwrap_or(caller), Some((c, id)), None, |w| w.exec(&addr(caller), &addr(c), &msg, &[]))
            }
            "recv" => {
                let (caller, sender, id) = (g("caller"), g("sender"), g("id"));
                let rcpt = kv_opt_u64(line, "rcpt").unwrap();
                let bad = g("bad");
                let msg = json!({"receive_nft": {"sender": addr(sender), "token_id": id.to_string(), "msg": S::inner_msg(rcpt, bad)}});
                self.deposit_like(line, "recv", rcpt.unwrap_or(sender), Some((caller, id)), None, |w| w.exec(&addr(caller), &addr(SELF), &msg, &[]))
            }
            "mint_to" | "mint_for" => {
                let (caller, rcpt) = (g("caller"), g("rcpt"));
                let pay = kv_u128(line, "pay").unwrap();
                let funds: Vec<(u64, u128)> = if pay > 0 { vec![(0, pay)] } else { vec![] };
                let (msg, fixed) = if op == "mint_to" {
                    (json!({"mint_to": {"recipient": addr(rcpt)}}), None)
                } else {
                    (json!({"mint_for": {"token_id": g("id"), "recipient": addr(rcpt)}}), Some(g("id")))
                };
                self.w.fund(&addr(caller), 0, pay);
                self.deposit_like(line, op, rcpt, None, fixed, |w| w.exec(&addr(caller), &addr(SELF), &msg, &funds))
            }
            "set_start" => {
                let pre = self.snap(&[]);
                let ok = self.w.exec(&addr(g("caller")), &addr(SELF), &json!({"update_start_time": g("t").to_string()}), &[]).is_ok();
                let post = self.snap(&[]);
                self.simple(line, op, ok, pre, format!("{} start={}", if ok { "ok" } else { "err" }, post.start))
            }
            "set_limit" => {
                let pre = self.snap(&[]);
                let ok = self.w.exec(&addr(g("caller")), &addr(SELF), &json!({"update_per_address_limit": {"per_address_limit": g("limit")}}), &[]).is_ok();
                let post = self.snap(&[]);
                self.simple(line, op, ok, pre, format!("{} limit={}", if ok { "ok" } else { "err" }, post.limit))
            }
            "purge" | "burn_remaining" => {
                let pre = self.snap(&[]);
                let msg = if op == "purge" { json!({"purge": {}}) } else { json!({"burn_remaining": {}}) };
                let ok = self.w.exec(&addr(g("caller")), &addr(SELF), &msg, &[]).is_ok();
                let left = self.q_left();
                self.simple(line, op, ok, pre, format!("{} left={left}", if ok { "ok" } else { "err" }))
            }
            "obs" => {
                let users: Vec<u64> = kv_list(line, "users").unwrap().iter().map(|x| *x as u64).collect();
                let maxid = g("maxid");
                let s = self.snap(&users);
                let cfg = self.w.query(&addr(SELF), &json!({"config": {}})).unwrap();
                let num_tokens = cfg["num_tokens"].as_u64().unwrap();
                let us: Vec<String> = users.iter().map(|u| format!("u{u}={}/{}", s.cnt[u], fmt_pairs(&s.dep[u]))).collect();
                let cs: Vec<String> = COLLS
                    .iter()
                    .map(|c| format!("c{c}={}/{}", self.q_num(*c), fmt_list(&(1..=maxid).map(|id| self.q_owner(*c, id).unwrap_or(0)).collect::<Vec<_>>())))
                    .collect();
                let tg: Vec<u64> = (1..=num_tokens).map(|id| self.q_owner(TGT, id).unwrap_or(0)).collect();
                let out = format!(
                    "obs start={} limit={} left={} ids={} tnum={} {} {} tgt={}",
                    s.start, s.limit, s.left, fmt_list(&self.mintable_ids()), s.tnum, us.join(" "), cs.join(" "), fmt_list(&tg)
                );
                let pre = self.snap(&[]);
                self.simple(line, "obs", true, pre, out)
            }
            _ => (line.to_string(), "bad-op".into()),
        }
    }

    /// Direct transcription of property C17 on the implementation's own observations (independent of the Lean model).
    fn monitor(&mut self) -> Option<(String, String)> {
        let rec = self.last.clone()?;
        let Rec { line, kind, ok, pre, post, r, src, pre_own, post_own, pre_num, post_num, picked, town } = rec;
        let bad = |p: &str, w: String| Some((format!("token-merge-minter/{kind}/{p}"), format!("{w} on `{line}`")));
        let req_of = |req: &Vec<(u64, u32)>, c: u64| req.iter().find(|(x, _)| *x == c).map(|(_, n)| *n);
        let dep_of = |d: &Vec<(u64, u32)>, c: u64| d.iter().find(|(x, _)| *x == c).map(|(_, n)| *n).unwrap_or(0);
        let empty: Vec<(u64, u32)> = vec![];

        // ---- every state, every tracked user: ledger ≤ required, only required collections; no fully credited ledger left pending
        let nondegenerate = post.req.iter().any(|(_, n)| *n > 0);
        for (u, d) in &post.dep {
            for (c, n) in d {
                match req_of(&post.req, *c) {
                    None => return bad("ledger-foreign-collection", format!("ledger of {u} holds {n} tokens of non-required collection {c}")),
                    Some(k) if *n > k => return bad("ledger-above-required", format!("ledger of {u} for {c} is {n} > required {k}")),
                    _ => {}
                }
            }
            if nondegenerate && post.req.iter().all(|(c, k)| dep_of(d, *c) >= *k) {
                return bad("requirements-met-no-mint", format!("{u} is credited every required token ({:?}) but the ledger was not consumed by a mint", d));
            }
        }

        match kind.as_str() {
            "send" | "recv" => {
                let coll = src.unwrap().0;
                let pre_d = pre.dep.get(&r).unwrap_or(&empty);
                let post_d = post.dep.get(&r).unwrap_or(&empty);
                let minted = post.tnum == pre.tnum + 1;
                if post.tnum != pre.tnum && !minted {
                    return bad("mint-count-jump", format!("target collection went from {} to {} tokens", pre.tnum, post.tnum));
                }
                if ok {
                    if kind == "recv" {
                        return bad("direct-receive-accepted", "ReceiveNft called directly by an account was accepted".into());
                    }
                    if pre.now <= pre.start {
                        return bad("deposit-not-after-start", format!("deposit accepted at {} with start {}", pre.now, pre.start));
                    }
                    let Some(k) = req_of(&pre.req, coll) else {
                        return bad("deposit-foreign-collection", format!("deposit from non-required collection {coll} accepted"));
                    };
                    if dep_of(pre_d, coll) >= k {
                        return bad("deposit-surplus", format!("recipient {r} already had {} of {k} from {coll}", dep_of(pre_d, coll)));
                    }
                    if pre.cnt[&r] >= pre.limit {
                        return bad("deposit-beyond-limit", format!("recipient {r} has mint count {} ≥ limit {}", pre.cnt[&r], pre.limit));
                    }
                    if post_own.is_some() || post_num + 1 != pre_num {
                        return bad("deposit-not-burned", format!("token {:?} still owned by {:?}; collection count {} -> {}", src, post_own, pre_num, post_num));
                    }
                    let fulfilled = pre.req.iter().all(|(c, n)| dep_of(pre_d, *c) + if *c == coll { 1 } else { 0 } >= *n);
                    if minted && !fulfilled {
                        return bad("mint-without-requirements", format!("minted to {r} with ledger {:?} + 1×{coll}, required {:?}", pre_d, pre.req));
                    }
                    if !minted && fulfilled {
                        return bad("requirements-met-no-mint", format!("{r} reached {:?} + 1×{coll} = required {:?} but nothing was minted", pre_d, pre.req));
                    }
                    if minted {
                        if !post_d.is_empty() {
                            return bad("ledger-not-reset", format!("ledger of {r} after mint: {:?}", post_d));
                        }
                        if post.cnt[&r] != pre.cnt[&r] + 1 || post.left + 1 != pre.left {
                            return bad("mint-accounting", format!("count {}->{} left {}->{}", pre.cnt[&r], post.cnt[&r], pre.left, post.left));
                        }
                        if picked.is_none() || town != Some(r) {
                            return bad("mint-wrong-recipient", format!("minted id {:?} owned by {:?}, recipient {r}", picked, town));
                        }
                    } else {
                        if dep_of(post_d, coll) != dep_of(pre_d, coll) + 1 {
                            return bad("credit-missing", format!("ledger {:?} -> {:?}", pre_d, post_d));
                        }
                        if post.cnt != pre.cnt || post.left != pre.left {
                            return bad("deposit-touched-counters", "mint counts / supply changed without a mint".into());
                        }
                    }
                    // frame: nobody else's ledger moves
                    for (u, d) in &pre.dep {
                        if *u != r && post.dep.get(u) != Some(d) {
                            return bad("foreign-ledger-changed", format!("ledger of {u} changed {:?} -> {:?}", d, post.dep.get(u)));
                        }
                    }
                } else {
                    if post.dep != pre.dep || post.cnt != pre.cnt || post.left != pre.left || post.tnum != pre.tnum || post_own != pre_own || post_num != pre_num {
                        return bad("rejected-deposit-changed-state", format!("owner {:?}->{:?} count {}->{} ledger {:?}->{:?}", pre_own, post_own, pre_num, post_num, pre.dep, post.dep));
                    }
                    // completeness: a deposit that meets every stated condition must be accepted
                    if kind == "send" {
                        let caller = kv_u64(&line, "caller").unwrap();
                        let to = kv_u64(&line, "to").unwrap();
                        let badm = kv_u64(&line, "bad").unwrap();
                        if let Some(k) = req_of(&pre.req, coll) {
                            let fulfilled = pre.req.iter().all(|(c, n)| dep_of(pre_d, *c) + if *c == coll { 1 } else { 0 } >= *n);
                            if pre_own == Some(caller) && to == SELF && badm == 0 && self.is_coll(coll) && pre.now > pre.start && dep_of(pre_d, coll) < k && pre.cnt[&r] < pre.limit && (!fulfilled || pre.left > 0) {
                                return bad("valid-deposit-rejected", format!("owner {caller} after start, ledger {:?}, required {:?}, count {} < {}", pre_d, pre.req, pre.cnt[&r], pre.limit));
                            }
                        }
                    }
                }
                None
            }
            "mint_to" | "mint_for" => {
                if ok {
                    let caller = kv_u64(&line, "caller").unwrap();
                    if caller != ADMIN {
                        return bad("stranger-admin-mint", format!("{caller} is not the admin"));
                    }
                    if post.dep != pre.dep {
                        return bad("admin-mint-touched-ledger", format!("{:?} -> {:?}", pre.dep, post.dep));
                    }
                    if post.tnum != pre.tnum + 1 || town != Some(r) || post.cnt[&r] != pre.cnt[&r] + 1 {
                        return bad("admin-mint-accounting", format!("tnum {}->{} owner {:?} count {}->{}", pre.tnum, post.tnum, town, pre.cnt[&r], post.cnt[&r]));
                    }
                } else if post != pre {
                    return bad("rejected-mint-changed-state", "state changed by a failed admin mint".into());
                }
                None
            }
            _ => {
                if post.tnum != pre.tnum {
                    return bad("mint-outside-deposit", format!("target collection went from {} to {} tokens", pre.tnum, post.tnum));
                }
                if post.dep != pre.dep {
                    return bad("ledger-changed-outside-deposit", format!("{:?} -> {:?}", pre.dep, post.dep));
                }
                None
            }
        }
    }
}

// ------------------------------------------------------------------------------------------------ generation

fn header(name: &str, req: &[(u64, u32)], start: u64, limit: u32, n: u32, price: u128) -> String {
    format!(
        "case {name} self={SELF} tgt={TGT} admin={ADMIN} colls={} req={} start={start} limit={limit} n={n} maxlim={MAXLIM} price={price} now={NOW0}",
        fmt_list(&COLLS),
        fmt_pairs(req)
    )
}

/// the generator's own view, reconstructed from the outputs
#[derive(Default)]
struct View {
    owner: BTreeMap<(u64, u64), u64>, // (coll, id) -> owner
    dep: BTreeMap<(u64, u64), u32>,   // (recipient, coll) -> credited
    cnt: BTreeMap<u64, u32>,
    left: u32,
    now: u64,
    start: u64,
    limit: u32,
    req: Vec<(u64, u32)>,
    maxid: u64,
}

impl View {
    fn tokens_of(&self, u: u64, c: u64) -> Vec<u64> {
        self.owner.iter().filter(|((cc, _), o)| *cc == c && **o == u).map(|((_, id), _)| *id).collect()
    }
    fn req_of(&self, c: u64) -> Option<u32> {
        self.req.iter().find(|(x, _)| *x == c).map(|(_, n)| *n)
    }
    fn need(&self, r: u64, c: u64) -> u32 {
        self.req_of(c).unwrap_or(0).saturating_sub(*self.dep.get(&(r, c)).unwrap_or(&0))
    }
    fn would_fulfil(&self, r: u64, c: u64) -> bool {
        self.req.iter().all(|(x, n)| *self.dep.get(&(r, *x)).unwrap_or(&0) + if *x == c { 1 } else { 0 } >= *n)
    }
}

struct Gen<'a> {
    ses: &'a mut Session,
    sut: &'a mut S,
    v: View,
    rng: Rng,
}

impl<'a> Gen<'a> {
    fn step(&mut self, line: &str) -> String {
        self.ses.step(&mut *self.sut, line)
    }
    fn set_time(&mut self, t: u64) {
        self.step(&format!("t now={t}"));
        self.v.now = t;
    }
    fn give(&mut self, c: u64, to: u64) -> Option<u64> {
        let out = self.step(&format!("give coll={c} to={to}"));
        let id: u64 = out.strip_prefix("ok ")?.parse().ok()?;
        self.v.owner.insert((c, id), to);
        self.v.maxid = self.v.maxid.max(id);
        Some(id)
    }
    fn obs(&mut self) {
        let users: Vec<u64> = USERS.iter().cloned().chain([ADMIN]).collect();
        let m = self.v.maxid.max(1);
        self.step(&format!("obs users={} maxid={m}", fmt_list(&users)));
    }
    /// returns (ok, minted)
    fn send(&mut self, caller: u64, c: u64, id: u64, to: u64, rcpt: Option<u64>, bad: u64, tag: &str) -> (bool, bool) {
        let r = rcpt.unwrap_or(caller);
        let phase = if self.v.now < self.v.start {
            "before"
        } else if self.v.now == self.v.start {
            "at-start"
        } else if self.v.now == self.v.start + 1 {
            "start+1"
        } else {
            "after"
        };
        let st = format!(
            "{}:{}:{}:{}",
            if self.v.req_of(c).is_none() { "foreign" } else if self.v.need(r, c) == 0 { "surplus" } else if self.v.would_fulfil(r, c) { "final" } else { "partial" },
            if *self.v.cnt.get(&r).unwrap_or(&0) >= self.v.limit { "at-limit" } else { "below-limit" },
            if self.v.left == 0 { "sold-out" } else { "supply" },
            phase
        );
        let out = self.step(&format!("send caller={caller} coll={c} id={id} to={to} rcpt={} bad={bad}", fmt_opt(&rcpt)));
        let ok = out.starts_with("ok");
        let minted = ok && !out.contains(" m=- ");
        let how = if rcpt.is_none() { "implicit" } else if rcpt == Some(caller) { "explicit-self" } else { "explicit-other" };
        self.ses.mark(format!("send:{tag}:{how}:{st}:k{}:{}", self.v.req.len(), if minted { "mint" } else if ok { "credit" } else { "err" }));
        let oc = if minted { "mint" } else if ok { "credit" } else { "err" };
        self.ses.count(&format!("send-tag:{tag}:{oc}"));
        self.ses.count(&format!("send-state:{st}:{oc}"));
        if ok {
            self.v.owner.remove(&(c, id));
            if minted {
                for (x, _) in self.v.req.clone() {
                    self.v.dep.remove(&(r, x));
                }
                *self.v.cnt.entry(r).or_insert(0) += 1;
                self.v.left -= 1;
            } else {
                *self.v.dep.entry((r, c)).or_insert(0) += 1;
            }
        }
        (ok, minted)
    }
    fn mint_to(&mut self, caller: u64, rcpt: u64, pay: u128, price: u128) -> bool {
        let out = self.step(&format!("mint_to caller={caller} rcpt={rcpt} pay={pay}"));
        let ok = out.starts_with("ok");
        self.ses.mark(format!(
            "mint_to:{}:{}:{}:{}",
            if caller == ADMIN { "admin" } else { "stranger" },
            if pay == price { "exact" } else if pay < price { "under" } else { "over" },
            if self.v.left == 0 { "sold-out" } else { "supply" },
            if ok { "ok" } else { "err" }
        ));
        if ok {
            *self.v.cnt.entry(rcpt).or_insert(0) += 1;
            self.v.left -= 1;
        }
        ok
    }
}

fn all_vectors() -> Vec<Vec<(u64, u32)>> {
    let mut out = vec![];
    for k in 1..=3usize {
        let mut amounts = vec![1u32; k];
        loop {
            out.push((0..k).map(|i| (COLLS[i], amounts[i])).collect::<Vec<_>>());
            let mut i = 0;
            loop {
                if i == k {
                    break;
                }
                if amounts[i] < 3 {
                    amounts[i] += 1;
                    break;
                }
                amounts[i] = 1;
                i += 1;
            }
            if i == k {
                break;
            }
        }
    }
    out
}

fn begin<'a>(ses: &'a mut Session, sut: &'a mut S, name: &str, req: &[(u64, u32)], start: u64, limit: u32, n: u32, price: u128) -> Gen<'a> {
    ses.begin_case(sut, &header(name, req, start, limit, n, price));
    let rng = ses.rng.fork();
    let v = View { left: n, now: NOW0, start, limit, req: req.to_vec(), ..Default::default() };
    Gen { ses, sut, v, rng }
}

/// a random, mostly valid scenario for one requirement vector
fn random_case(ses: &mut Session, sut: &mut S, idx: usize, req: &[(u64, u32)], n_ops: u64) {
    let mut r0 = ses.rng.fork();
    let n = *r0.pick(&[1u32, 2, 3, 4, 6, 10, 10, 150]);
    let limit = if n >= 100 { r0.range(1, 5) } else { r0.range(1, 3) } as u32;
    let price: u128 = *r0.pick(&[0u128, 0, 1_000_000]);
    let start = NOW0 + r0.range(10, 1000);
    // order of the entries in mint_tokens is arbitrary
    let mut req = req.to_vec();
    r0.shuffle(&mut req);
    let mut g = begin(ses, sut, &format!("rand{idx}"), &req, start, limit, n, price);
    let nusers = g.rng.range(2, 4) as usize;
    let users: Vec<u64> = USERS[..nusers].to_vec();
    // distribute source tokens: enough for some users to complete once or twice, plus foreign ones
    for c in COLLS {
        let need = g.v.req_of(c).unwrap_or(1);
        for u in &users {
            let k = match g.rng.below(4) {
                0 => 0,
                1 => need,
                2 => need + 1,
                _ => need * 2,
            };
            for _ in 0..k.min(4) {
                g.give(c, *u);
            }
        }
    }
    if g.rng.chance(1, 2) {
        g.obs();
    }
    // some activity before the start
    if g.rng.chance(1, 3) {
        let u = *g.rng.pick(&users);
        let c = g.v.req[0].0;
        if let Some(id) = g.v.tokens_of(u, c).first().cloned() {
            g.send(u, c, id, SELF, None, 0, "valid");
        }
    }
    if g.rng.chance(1, 4) {
        let t = g.v.now + g.rng.range(0, 500);
        let caller = if g.rng.chance(4, 5) { ADMIN } else { users[0] };
        let out = g.step(&format!("set_start caller={caller} t={t}"));
        if out.starts_with("ok") {
            g.v.start = t;
        }
        g.ses.mark(format!("set_start:{}:{}", if caller == ADMIN { "admin" } else { "stranger" }, &out[..2]));
    }
    // place the clock on or around the start
    let s = g.v.start;
    match g.rng.below(4) {
        0 => g.set_time(s - 1),
        1 => g.set_time(s),
        2 => g.set_time(s + 1),
        _ => {
            let d = g.rng.range(2, 10_000);
            g.set_time(s + d)
        }
    }
    for i in 0..n_ops {
        if g.v.now <= g.v.start && i >= 2 && g.rng.chance(1, 2) {
            let t = g.v.start + if g.rng.chance(1, 2) { 1 } else { g.rng.range(2, 50_000) };
            g.set_time(t);
        }
        let roll = g.rng.below(100);
        if roll < 62 {
            // a deposit
            let u = *g.rng.pick(&users);
            let rcpt = match g.rng.below(10) {
                0..=5 => None,
                6 => Some(u),
                _ => Some(*g.rng.pick(&users)),
            };
            let fault = g.rng.below(100);
            if fault < 72 {
                // valid-ish: feed the recipient that is closest to completing (so that mints actually happen)
                let mut rs: Vec<u64> = users.clone();
                g.rng.shuffle(&mut rs);
                let progress = |v: &View, r: u64| -> u32 { v.req.iter().map(|(c, _)| *v.dep.get(&(r, *c)).unwrap_or(&0)).sum() };
                if g.rng.chance(3, 4) {
                    // recipients already at their limit last, then most progress first
                    rs.sort_by_key(|r| (*g.v.cnt.get(r).unwrap_or(&0) >= g.v.limit, std::cmp::Reverse(progress(&g.v, *r))));
                }
                let r = rs[0];
                let needed: Vec<u64> = g.v.req.iter().map(|(c, _)| *c).filter(|c| g.v.need(r, *c) > 0).collect();
                let mut cands: Vec<(u64, u64, u64)> = vec![]; // (caller, coll, id)
                for c in &needed {
                    for id in g.v.tokens_of(r, *c) {
                        cands.push((r, *c, id));
                    }
                }
                if cands.is_empty() || g.rng.chance(1, 4) {
                    for c in &needed {
                        for u2 in &users {
                            for id in g.v.tokens_of(*u2, *c) {
                                cands.push((*u2, *c, id));
                            }
                        }
                    }
                }
                if cands.is_empty() {
                    // top up: the recipient gets a token it still needs (or any required one)
                    let c = if needed.is_empty() { g.rng.pick(&g.v.req.clone()).0 } else { *g.rng.pick(&needed) };
                    g.give(c, r);
                } else {
                    let (cu, c, id) = *g.rng.pick(&cands);
                    let rc = if cu == r && g.rng.chance(4, 5) { None } else { Some(r) };
                    g.send(cu, c, id, SELF, rc, 0, "valid");
                }
                let _ = (u, rcpt);
            } else if fault < 79 {
                // foreign collection
                let foreign: Vec<u64> = COLLS.iter().cloned().filter(|c| g.v.req_of(*c).is_none()).collect();
                let c = *g.rng.pick(&foreign);
                let id = match g.v.tokens_of(u, c).first().cloned() {
                    Some(id) => Some(id),
                    None => g.give(c, u),
                };
                if let Some(id) = id {
                    g.send(u, c, id, SELF, rcpt, 0, "foreign");
                }
            } else if fault < 84 {
                // somebody else's token
                let c = g.rng.pick(&g.v.req.clone()).0;
                let others: Vec<u64> = g.v.owner.iter().filter(|((cc, _), o)| *cc == c && **o != u).map(|((_, id), _)| *id).collect();
                if let Some(id) = others.first().cloned() {
                    g.send(u, c, id, SELF, rcpt, 0, "not-owner");
                }
            } else if fault < 89 {
                // malformed inner message / invalid recipient string
                let c = g.rng.pick(&g.v.req.clone()).0;
                if let Some(id) = g.v.tokens_of(u, c).first().cloned() {
                    let b = g.rng.range(1, 2);
                    g.send(u, c, id, SELF, rcpt, b, "bad-msg");
                }
            } else if fault < 94 {
                // sent to something that is not the minter
                let c = g.rng.pick(&g.v.req.clone()).0;
                if let Some(id) = g.v.tokens_of(u, c).first().cloned() {
                    let to = *g.rng.pick(&[TGT, users[0], COLLS[3], 1009]);
                    g.send(u, c, id, to, rcpt, 0, "wrong-contract");
                }
            } else {
                // token that does not exist
                let c = g.rng.pick(&g.v.req.clone()).0;
                let id = g.v.maxid + 5;
                g.send(u, c, id, SELF, rcpt, 0, "no-token");
            }
        } else if roll < 70 {
            // the hook called directly by an account
            let u = *g.rng.pick(&users);
            let caller = if g.rng.chance(4, 5) { u } else { ADMIN };
            let sender = if g.rng.chance(3, 4) { caller } else { *g.rng.pick(&users) };
            let c = g.rng.pick(&g.v.req.clone()).0;
            let id = g.v.tokens_of(u, c).first().cloned().unwrap_or(1);
            let rcpt = if g.rng.chance(1, 2) { None } else { Some(*g.rng.pick(&users)) };
            let out = g.step(&format!("recv caller={caller} sender={sender} id={id} rcpt={} bad=0", fmt_opt(&rcpt)));
            g.ses.mark(format!("recv:{}:{}:{}", if caller == ADMIN { "admin" } else { "user" }, if rcpt.is_some() { "explicit" } else { "implicit" }, &out[..2]));
        } else if roll < 77 {
            // clock
            let s = g.v.start;
            let t = match g.rng.below(12) {
                0 => s.saturating_sub(1),
                1 => s,
                2 | 3 => s + 1,
                _ => g.v.now.max(s) + g.rng.range(1, 100_000),
            };
            g.set_time(t);
        } else if roll < 84 {
            let caller = if g.rng.chance(5, 6) { ADMIN } else { users[0] };
            let rcpt = *g.rng.pick(&users);
            let pay = match g.rng.below(6) {
                0 => price + 1,
                1 => price.saturating_sub(1),
                _ => price,
            };
            g.mint_to(caller, rcpt, pay, price);
        } else if roll < 87 {
            let id = g.rng.range(0, n as u64 + 1);
            let rcpt = *g.rng.pick(&users);
            let out = g.step(&format!("mint_for caller={ADMIN} id={id} rcpt={rcpt} pay={price}"));
            let ok = out.starts_with("ok");
            if ok {
                *g.v.cnt.entry(rcpt).or_insert(0) += 1;
                g.v.left -= 1;
            }
            g.ses.mark(format!("mint_for:{}:{}", if id == 0 { "zero" } else if id > n as u64 { "above" } else { "in-range" }, if ok { "ok" } else { "err" }));
        } else if roll < 91 {
            // move a source token around (possibly to the minter itself: stuck, never credited)
            let u = *g.rng.pick(&users);
            let c = *g.rng.pick(&COLLS);
            if let Some(id) = g.v.tokens_of(u, c).first().cloned() {
                let to = if g.rng.chance(1, 6) { SELF } else { *g.rng.pick(&users) };
                let caller = if g.rng.chance(1, 5) { *g.rng.pick(&users) } else { u };
                let out = g.step(&format!("xfer caller={caller} coll={c} id={id} to={to}"));
                if out.starts_with("ok") {
                    g.v.owner.insert((c, id), to);
                }
                g.ses.mark(format!("xfer:{}:{}:{}", if caller == u { "owner" } else { "other" }, if to == SELF { "to-minter" } else { "to-user" }, &out[..2]));
            }
        } else if roll < 94 {
            // approval, then the spender sends (credited to the spender unless a recipient is named)
            let u = *g.rng.pick(&users);
            let sp = *g.rng.pick(&users);
            let c = g.rng.pick(&g.v.req.clone()).0;
            if let Some(id) = g.v.tokens_of(u, c).first().cloned() {
                let out = g.step(&format!("approve caller={u} coll={c} id={id} spender={sp}"));
                if out.starts_with("ok") && sp != u {
                    let rcpt = if g.rng.chance(1, 2) { None } else { Some(u) };
                    // the generator's `send` bookkeeping keys on ownership only, which is what we want here
                    g.send(sp, c, id, SELF, rcpt, 0, "by-spender");
                }
            }
        } else if roll < 96 {
            let caller = if g.rng.chance(4, 5) { ADMIN } else { users[0] };
            let lim = if n >= 100 { g.rng.range(3, 6) } else { g.rng.range(0, 4) };
            let out = g.step(&format!("set_limit caller={caller} limit={lim}"));
            if out.starts_with("ok") {
                g.v.limit = lim as u32;
            }
            g.ses.mark(format!("set_limit:{}:{lim}:{}", if caller == ADMIN { "admin" } else { "stranger" }, &out[..2]));
        } else if roll < 98 {
            let out = g.step(&format!("purge caller={}", users[0]));
            if out.starts_with("ok") {
                g.v.cnt.clear();
            }
            g.ses.mark(format!("purge:{}:{}", if g.v.left == 0 { "sold-out" } else { "supply" }, &out[..2]));
        } else if roll < 99 {
            let caller = if g.rng.chance(3, 4) { ADMIN } else { users[0] };
            let out = g.step(&format!("burn_remaining caller={caller}"));
            if out.starts_with("ok") {
                g.v.left = 0;
            }
            g.ses.mark(format!("burn_remaining:{}:{}", if caller == ADMIN { "admin" } else { "stranger" }, &out[..2]));
        } else {
            let t = g.v.now + 5;
            let out = g.step(&format!("set_start caller={ADMIN} t={t}"));
            g.ses.mark(format!("set_start:late:{}", &out[..2]));
        }
        if g.rng.chance(1, 5) {
            g.obs();
        }
    }
    g.obs();
    ses.end_case();
}

/// scripted: one user completes the vector exactly at start−1 / start / start+1; explicit and implicit recipients
fn boundary_case(ses: &mut Session, sut: &mut S, idx: usize, req: &[(u64, u32)], dt: i64, explicit: bool) {
    let start = NOW0 + 500;
    let mut g = begin(ses, sut, &format!("boundary{idx}"), req, start, 2, 3, 0);
    let (u, v) = (20u64, 21u64);
    let rcpt = if explicit { Some(v) } else { None };
    let mut toks = vec![];
    for (c, k) in req {
        for _ in 0..*k + 1 {
            toks.push((*c, g.give(*c, u).unwrap()));
        }
    }
    g.set_time((start as i64 + dt) as u64);
    for (c, id) in &toks {
        g.send(u, *c, *id, SELF, rcpt, 0, "boundary");
    }
    g.obs();
    // one nanosecond later the same tokens (those still owned) go through
    let later = start + 1;
    g.set_time(later);
    for (c, id) in &toks {
        if g.v.owner.contains_key(&(*c, *id)) {
            g.send(u, *c, *id, SELF, rcpt, 0, "boundary");
        }
    }
    g.obs();
    ses.end_case();
}

/// scripted: sell-out and the per-address limit
fn sellout_case(ses: &mut Session, sut: &mut S, idx: usize, req: &[(u64, u32)], n: u32, limit: u32) {
    let start = NOW0 + 100;
    let mut g = begin(ses, sut, &format!("sellout{idx}"), req, start, limit, n, 0);
    let users = [20u64, 21, 22];
    let rounds = n + 1;
    let mut toks: BTreeMap<u64, Vec<(u64, u64)>> = BTreeMap::new();
    for u in users {
        for _ in 0..rounds {
            for (c, k) in req {
                for _ in 0..*k {
                    let id = g.give(*c, u).unwrap();
                    toks.entry(u).or_default().push((*c, id));
                }
            }
        }
    }
    g.set_time(start + 1);
    // round-robin: everybody deposits everything, in order
    let maxlen = toks.values().map(|v| v.len()).max().unwrap_or(0);
    for i in 0..maxlen {
        for u in users {
            if let Some((c, id)) = toks[&u].get(i).cloned() {
                g.send(u, c, id, SELF, None, 0, "sellout");
            }
        }
        if i % 3 == 2 {
            g.obs();
        }
    }
    g.obs();
    let out = g.step("purge caller=22");
    if out.starts_with("ok") {
        g.v.cnt.clear();
    }
    // after purge the counters are gone but the supply is too
    for u in users {
        if let Some((c, id)) = toks[&u].iter().find(|t| g.v.owner.contains_key(t)).cloned() {
            g.send(u, c, id, SELF, None, 0, "after-purge");
        }
    }
    g.obs();
    ses.end_case();
}

/// scripted: the admin airdrops a user up to the limit, after which the user cannot deposit
fn limit_case(ses: &mut Session, sut: &mut S, idx: usize, req: &[(u64, u32)], limit: u32) {
    let start = NOW0 + 100;
    let mut g = begin(ses, sut, &format!("limit{idx}"), req, start, limit, 6, 0);
    let u = 20u64;
    let mut toks = vec![];
    for _ in 0..2 {
        for (c, k) in req {
            for _ in 0..*k {
                toks.push((*c, g.give(*c, u).unwrap()));
            }
        }
    }
    g.set_time(start + 7);
    for _ in 0..limit - 1 {
        g.mint_to(ADMIN, u, 0, 0);
    }
    // one deposit while below the limit, then the admin fills the last slot
    let (c0, id0) = toks[0];
    g.send(u, c0, id0, SELF, None, 0, "limit");
    g.mint_to(ADMIN, u, 0, 0);
    for (c, id) in toks[1..].to_vec() {
        if g.v.owner.contains_key(&(c, id)) {
            g.send(u, c, id, SELF, None, 0, "limit");
        }
    }
    // … but somebody else may still be named as recipient
    if let Some((c, id)) = toks.iter().find(|t| g.v.owner.contains_key(t)).cloned() {
        g.send(u, c, id, SELF, Some(21), 0, "limit");
    }
    // raising the limit re-opens deposits
    let out = g.step(&format!("set_limit caller={ADMIN} limit=3"));
    if out.starts_with("ok") {
        g.v.limit = 3;
    }
    if let Some((c, id)) = toks.iter().find(|t| g.v.owner.contains_key(t)).cloned() {
        g.send(u, c, id, SELF, None, 0, "limit");
    }
    g.obs();
    ses.end_case();
}

/// scripted: requirement vectors outside the stated quantifier that the code nevertheless accepts at creation
fn weird_case(ses: &mut Session, sut: &mut S, idx: usize, req: &[(u64, u32)]) {
    let start = NOW0 + 100;
    let mut g = begin(ses, sut, &format!("weird{idx}"), req, start, 3, 3, 0);
    let u = 20u64;
    let mut toks = vec![];
    for c in COLLS {
        for _ in 0..3 {
            toks.push((c, g.give(c, u).unwrap()));
        }
    }
    g.set_time(start + 1);
    for (c, id) in &toks {
        g.send(u, *c, *id, SELF, None, 0, "weird");
    }
    // a "required collection" that is really an account: its owner calls the hook directly
    for (c, _) in req.to_vec() {
        if !COLLS.contains(&c) {
            let out = g.step(&format!("recv caller={c} sender={c} id=1 rcpt=- bad=0"));
            g.ses.mark(format!("recv:required-account:{}", &out[..2]));
            let out = g.step(&format!("recv caller={c} sender={u} id=1 rcpt={u} bad=0"));
            g.ses.mark(format!("recv:required-account:explicit:{}", &out[..2]));
        }
    }
    g.obs();
    ses.end_case();
}

/// thorough: every sequence of length ≤ `len` over a small alphabet (2 collections × 2 users, explicit recipient, admin mint)
fn exhaustive(ses: &mut Session, sut: &mut S, len: usize) {
    let req = [(COLLS[0], 1u32), (COLLS[1], 2u32)];
    // letters: 0 u1 sends c1 | 1 u1 sends c2 | 2 u2 sends c1 | 3 u2 sends c2 | 4 u1 sends c2 for u2 | 5 admin mints to u1
    let k = 6usize;
    let mut count = 0u64;
    for l in 1..=len {
        let total = k.pow(l as u32);
        for code in 0..total {
            let mut seq = vec![];
            let mut x = code;
            for _ in 0..l {
                seq.push(x % k);
                x /= k;
            }
            let start = NOW0 + 100;
            let mut g = begin(ses, sut, &format!("exh{l}-{code}"), &req, start, 2, 2, 0);
            let mut pool: BTreeMap<(u64, u64), Vec<u64>> = BTreeMap::new();
            for u in [20u64, 21] {
                for c in [COLLS[0], COLLS[1]] {
                    let cnt = seq.iter().filter(|s| matches!((**s, u, c), (0, 20, 1002) | (1, 20, 1004) | (4, 20, 1004) | (2, 21, 1002) | (3, 21, 1004))).count();
                    for _ in 0..cnt {
                        let id = g.give(c, u).unwrap();
                        pool.entry((u, c)).or_default().push(id);
                    }
                }
            }
            g.set_time(start + 1);
            for s in &seq {
                match s {
                    5 => {
                        g.mint_to(ADMIN, 20, 0, 0);
                    }
                    _ => {
                        let (u, c, rc) = match s {
                            0 => (20, COLLS[0], None),
                            1 => (20, COLLS[1], None),
                            2 => (21, COLLS[0], None),
                            3 => (21, COLLS[1], None),
                            _ => (20, COLLS[1], Some(21)),
                        };
                        let id = pool.get_mut(&(u, c)).unwrap().remove(0);
                        g.send(u, c, id, SELF, rc, 0, "exh");
                    }
                }
            }
            g.obs();
            ses.end_case();
            count += 1;
        }
    }
    ses.note(format!("exhaustive: all {count} sequences of length ≤ {len} over 6 letters (2 users × 2 required collections, explicit recipient, admin mint), n=2, limit=2"));
}

fn main() {
    let mut ses = Session::new("C17");
    let mut sut = S::new();
    if ses.maybe_replay(&mut sut) {
        ses.finish(&mut sut);
    }
    let vectors = all_vectors();
    assert_eq!(vectors.len(), 39);

    // 1. scripted boundary cases: every vector size, −1 / 0 / +1 ns, implicit and explicit recipient
    let mut idx = 0;
    for v in vectors.iter().filter(|v| v.iter().all(|(_, n)| *n == 1) || v.iter().all(|(_, n)| *n == 2)) {
        for dt in [-1i64, 0, 1] {
            for explicit in [false, true] {
                boundary_case(&mut ses, &mut sut, idx, v, dt, explicit);
                idx += 1;
            }
        }
    }
    // 2. sell-out and limits
    let mut idx = 0;
    for v in [&vectors[0], &vectors[1], &vectors[4], &vectors[13]] {
        for (n, limit) in [(1u32, 1u32), (2, 1), (2, 3), (3, 2)] {
            sellout_case(&mut ses, &mut sut, idx, v, n, limit);
            idx += 1;
        }
        for limit in 1..=3u32 {
            limit_case(&mut ses, &mut sut, idx, v, limit);
            idx += 1;
        }
    }
    // 3. vectors the factory does not refuse although the property does not speak about them
    let weird: Vec<Vec<(u64, u32)>> = vec![
        vec![],
        vec![(COLLS[0], 0)],
        vec![(COLLS[0], 0), (COLLS[1], 1)],
        vec![(COLLS[0], 1), (COLLS[0], 2)],
        vec![(COLLS[0], 2), (COLLS[0], 1)],
        vec![(23, 1)],
        vec![(COLLS[0], 1), (23, 1)],
    ];
    for (i, v) in weird.iter().enumerate() {
        weird_case(&mut ses, &mut sut, i, v);
    }
    // 4. random scenarios over all 39 requirement vectors
    let per_vector = ses.scale(20, 220);
    let n_ops = ses.scale(40, 60);
    let mut idx = 0;
    for _ in 0..per_vector {
        for v in &vectors {
            random_case(&mut ses, &mut sut, idx, v, n_ops);
            idx += 1;
        }
    }
    // 5. exhaustive small scope
    if ses.tier() == Tier::Thorough {
        exhaustive(&mut ses, &mut sut, 5);
        ses.exhaustive = true;
    } else {
        exhaustive(&mut ses, &mut sut, 3);
    }
    ses.note("requirement vectors: all 39 of (1..3 collections × amounts 1..3) in shuffled entry order + 8 degenerate ones; 2..4 users + admin; clock at start−1/start/start+1 ns and later; n ∈ {1,2,3,4,6}; limit 1..3");
    ses.finish(&mut sut);
}
