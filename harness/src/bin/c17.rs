//! C17 — token-merge minter: mints happen exactly when the required tokens were burned.
//!
//! REAL contracts under cw-multi-test: base-factory + 4 base minters / sg721-base source collections (created through
//! the factory), token-merge-factory → token-merge-minter + its sg721-base collection. Compared with the Lean model
//! `LP.TM` (driver `drv_c17`, protocol documented in `lean/LaunchpadModel/Driver/C17.lean`).
//!
//! Addresses in the protocol are LOGICAL ids; the real address strings are whatever `create_minter` returned
//! (`S::a` / `S::id` translate), so a different instantiate numbering in cw-multi-test changes nothing:
//!   1000 base-factory; 1001+2i base minter i, 1002+2i source collection i; 1009 token-merge-factory; 1010 the minter; 1011 its collection.
//! Accounts: admin/creator = 10, users 20..24, gov 90.
//! Source collections come in every kind that can transfer (header `kinds=<k,k,k,k>`, harness-only — the model does not care):
//!   0 sg721-base, 1 sg721-updatable, 2 sg721-metadata-onchain, 3 sg721-base MIGRATED to sg721-updatable after creation.
//!
//! Round 3:
//! * the monitors judge the property on a harness-side GHOST (`Ghost`): what the harness configured (requirement vector, clock),
//!   which deposits it saw accepted AND burned (source collection observations), which tokens appeared in the target collection.
//!   The minter's own answers (`DepositedTokens`, typed `RECEIVED_TOKENS`, `Config`) are COMPARED with the ghost, never trusted.
//! * no event attributes, no raw storage keys: minted ids come from a diff of the target collection's `AllTokens`; source token
//!   ids from a diff of `Tokens{owner}`; the mintable-id set is read through `token_merge_minter::state` and is outside the projection.
//! * the message surface is enumerated at run time from `schema_for!(ExecuteMsg)` / `schema_for!(ReceiveNftMsg)`; a variant this file
//!   does not know is sent as raw JSON (`noise what=x:<variant>`, `send … bad=3 inner=<variant>`) under all monitors.
use cosmwasm_std::{Addr, Order, Storage};
use lp_harness::minters::*;
use lp_harness::world::{addr, addr_id, denom};
use lp_harness::*;
use serde_json::{json, Map, Value};
use std::collections::{BTreeMap, BTreeSet};

const ADMIN: u64 = 10;
const BASE_FACTORY: u64 = 1000;
const BASE_MINTERS: [u64; 4] = [1001, 1003, 1005, 1007];
const COLLS: [u64; 4] = [1002, 1004, 1006, 1008];
const TM_FACTORY: u64 = 1009;
const SELF: u64 = 1010;
const TGT: u64 = 1011;
const USERS: [u64; 5] = [20, 21, 22, 23, 24];
const NOW0: u64 = GENESIS + 1_000;
const MAXLIM: u32 = 50;

// ------------------------------------------------------------------------------------------------ run-time message surface

/// ExecuteMsg variants this file has a named op for
const KNOWN_EXEC: [&str; 9] = ["receive_nft", "purge", "update_start_time", "update_start_trading_time", "update_per_address_limit", "mint_to", "mint_for", "shuffle", "burn_remaining"];
/// ReceiveNftMsg (the inner message of a deposit) variants this file knows
const KNOWN_INNER: [&str; 1] = ["deposit_token"];

fn exec_schema() -> Value {
    serde_json::to_value(&cosmwasm_schema::schema_for!(token_merge_minter::msg::ExecuteMsg)).expect("schema to json")
}
fn inner_schema() -> Value {
    serde_json::to_value(&cosmwasm_schema::schema_for!(token_merge_minter::msg::ReceiveNftMsg)).expect("schema to json")
}

/// (variant name in snake case, schema of its payload; None for a unit variant serialised as a bare string)
fn schema_variants(root: &Value) -> Vec<(String, Option<Value>)> {
    let mut out = vec![];
    let mut alts: Vec<Value> = vec![];
    for k in ["oneOf", "anyOf"] {
        if let Some(a) = root[k].as_array() {
            alts.extend(a.iter().cloned());
        }
    }
    if alts.is_empty() {
        alts.push(root.clone());
    }
    for alt in alts {
        if let Some(en) = alt["enum"].as_array() {
            for e in en {
                if let Some(s) = e.as_str() {
                    out.push((s.to_string(), None));
                }
            }
        } else if let Some(req) = alt["required"].as_array() {
            if let Some(name) = req.first().and_then(|x| x.as_str()) {
                out.push((name.to_string(), Some(alt["properties"][name].clone())));
            }
        }
    }
    out.sort_by(|a, b| a.0.cmp(&b.0));
    out.dedup_by(|a, b| a.0 == b.0);
    out
}

/// minimal JSON value for a schema: integers = k, strings = k (or an address when the field name looks like one), options = null
fn fill(s: &Value, defs: &Value, k: u64, hint: &str, who: &str, depth: u32) -> Value {
    if depth > 8 {
        return Value::Null;
    }
    if let Some(r) = s["$ref"].as_str() {
        let name = r.rsplit('/').next().unwrap_or("");
        return fill(&defs[name], defs, k, hint, who, depth + 1);
    }
    if let Some(a) = s["allOf"].as_array() {
        if let Some(f) = a.first() {
            return fill(f, defs, k, hint, who, depth + 1);
        }
    }
    for key in ["anyOf", "oneOf"] {
        if let Some(a) = s[key].as_array() {
            if a.iter().any(|x| x["type"] == "null") {
                return Value::Null;
            }
            if let Some(f) = a.first() {
                if let Some(req) = f["required"].as_array().and_then(|r| r.first()).and_then(|x| x.as_str()) {
                    let mut m = Map::new();
                    m.insert(req.to_string(), fill(&f["properties"][req], defs, k, req, who, depth + 1));
                    return Value::Object(m);
                }
                return fill(f, defs, k, hint, who, depth + 1);
            }
        }
    }
    if let Some(en) = s["enum"].as_array() {
        return en.first().cloned().unwrap_or(Value::Null);
    }
    let ty: String = match &s["type"] {
        Value::String(t) => t.clone(),
        Value::Array(ts) => {
            if ts.iter().any(|t| t == "null") {
                return Value::Null;
            }
            ts.first().and_then(|t| t.as_str()).unwrap_or("").to_string()
        }
        _ => String::new(),
    };
    match ty.as_str() {
        "integer" | "number" => json!(k),
        "string" => {
            let h = hint.to_lowercase();
            if ["addr", "recipient", "collection", "contract", "owner", "sender", "admin"].iter().any(|w| h.contains(w)) {
                json!(who)
            } else {
                json!(k.to_string())
            }
        }
        "boolean" => json!(k % 2 == 1),
        "array" => json!([]),
        "object" => {
            let mut m = Map::new();
            if let Some(req) = s["required"].as_array() {
                for r in req.iter().filter_map(|x| x.as_str()) {
                    m.insert(r.to_string(), fill(&s["properties"][r], defs, k, r, who, depth + 1));
                }
            }
            Value::Object(m)
        }
        _ => Value::Null,
    }
}

/// raw message for a variant found in a schema
fn raw_variant_msg(root: &Value, name: &str, k: u64, who: &str) -> Option<Value> {
    let defs = &root["definitions"];
    schema_variants(root).into_iter().find(|(n, _)| n == name).map(|(n, sch)| match sch {
        None => Value::String(n),
        Some(s) => {
            let mut m = Map::new();
            m.insert(n.clone(), fill(&s, defs, k, &n, who, 0));
            Value::Object(m)
        }
    })
}

fn unknown_of(root: &Value, known: &[&str]) -> Vec<String> {
    schema_variants(root).into_iter().map(|(n, _)| n).filter(|n| !known.contains(&n.as_str())).collect()
}

// ------------------------------------------------------------------------------------------------ observations and ghost

/// what the minter itself answers (queries) — compared with the ghost, used for frame checks
#[derive(Clone, Debug, Default, PartialEq)]
struct Snap {
    cfg_readable: bool,
    start: u64,
    limit: u32,
    req: Vec<(u64, u32)>,
    left: u32,
    tnum: u64,
    dep: BTreeMap<u64, Vec<(u64, u32)>>,
    cnt: BTreeMap<u64, u32>,
}

/// the harness's own bookkeeping, independent of the minter's answers
#[derive(Clone, Debug, Default)]
struct Ghost {
    /// requirement vector the harness configured (case header)
    req: Vec<(u64, u32)>,
    /// block time the harness set
    now: u64,
    /// start time in force: header value; re-read only right after a successful `set_start` (the one op allowed to move it)
    start: u64,
    /// per-address limit in force: header value; re-read only right after a successful `set_limit`
    limit: u32,
    /// (recipient, collection) → deposits accepted-and-burned since the recipient's last deposit-triggered mint
    led: BTreeMap<(u64, u64), u32>,
    /// (recipient, collection) → deposits accepted-and-burned, cumulative
    credited: BTreeMap<(u64, u64), u64>,
    /// recipient → tokens that appeared in the target collection during one of its deposits
    dmints: BTreeMap<u64, u64>,
    /// recipient → tokens that appeared in the target collection during an admin mint
    amints: BTreeMap<u64, u64>,
    /// recipient → mints since the last successful purge
    cnt: BTreeMap<u64, u32>,
    /// tokens not yet minted (n − mints; 0 after a successful burn_remaining)
    left: u32,
    /// target collection as last enumerated: token id → owner at first sight
    tgt: BTreeMap<u64, u64>,
}

fn req_of(req: &[(u64, u32)], c: u64) -> Option<u32> {
    req.iter().find(|(x, _)| *x == c).map(|(_, n)| *n)
}
fn dep_of(d: &[(u64, u32)], c: u64) -> u32 {
    d.iter().find(|(x, _)| *x == c).map(|(_, n)| *n).unwrap_or(0)
}

impl Ghost {
    fn row(&self, r: u64) -> Vec<(u64, u32)> {
        self.led.iter().filter(|((x, _), n)| *x == r && **n > 0).map(|((_, c), n)| (*c, *n)).collect()
    }
    fn led_of(&self, r: u64, c: u64) -> u32 {
        *self.led.get(&(r, c)).unwrap_or(&0)
    }
    fn cnt_of(&self, r: u64) -> u32 {
        *self.cnt.get(&r).unwrap_or(&0)
    }
    /// would one more token of `c` complete every entry of the requirement vector for `r`
    fn fulfils(&self, r: u64, c: u64) -> bool {
        self.req.iter().all(|(x, n)| self.led_of(r, *x) + if *x == c { 1 } else { 0 } >= *n)
    }
}

#[derive(Clone, Debug)]
struct Rec {
    line: String,
    kind: String,
    ok: bool,
    pre: Snap,
    post: Snap,
    gpre: Ghost,
    r: u64,
    src: Option<(u64, u64)>,
    pre_own: Option<u64>,
    post_own: Option<u64>,
    pre_num: u64,
    post_num: u64,
    /// tokens that appeared in the target collection during the op: (id, owner)
    new_tgt: Vec<(u64, u64)>,
}

struct S {
    w: World,
    names: BTreeMap<u64, String>,
    ids: BTreeMap<String, u64>,
    base_fee: u128,
    shuffle_fee: u128,
    n: u32,
    users: Vec<u64>,
    cur: Snap,
    g: Ghost,
    last: Option<Rec>,
    exec_root: Value,
    inner_root: Value,
    storage_unreadable: bool,
    /// kind of each source collection (0 base, 1 updatable, 2 metadata-onchain, 3 base migrated to updatable)
    kinds: Vec<u64>,
    /// tokens created so far in each source collection (ids for the metadata-onchain path)
    given: BTreeMap<u64, u64>,
}

fn b64(v: &Value) -> Value {
    serde_json::to_value(cosmwasm_std::to_json_binary(v).unwrap()).unwrap()
}
fn oks(ok: bool) -> &'static str {
    if ok {
        "ok"
    } else {
        "err"
    }
}

fn fast_id(s: &str) -> u64 {
    if let Some(k) = s.strip_prefix("acct") {
        if let Ok(k) = k.parse::<u64>() {
            return k;
        }
    }
    addr_id(s)
}

impl S {
    fn new() -> S {
        S {
            w: World::new(NOW0),
            names: BTreeMap::new(),
            ids: BTreeMap::new(),
            base_fee: 0,
            shuffle_fee: 0,
            n: 0,
            users: vec![],
            cur: Snap::default(),
            g: Ghost::default(),
            last: None,
            exec_root: exec_schema(),
            inner_root: inner_schema(),
            storage_unreadable: false,
            kinds: vec![],
            given: BTreeMap::new(),
        }
    }
    /// logical id → real address string
    fn a(&self, id: u64) -> String {
        self.names.get(&id).cloned().unwrap_or_else(|| addr(id))
    }
    /// real address string → logical id
    fn id(&self, s: &str) -> u64 {
        self.ids.get(s).copied().unwrap_or_else(|| fast_id(s))
    }
    fn name(&mut self, id: u64, real: &str) {
        self.names.insert(id, real.to_string());
        self.ids.insert(real.to_string(), id);
    }
    fn is_coll(&self, c: u64) -> bool {
        COLLS.contains(&c)
    }
    fn pairs(&self, v: &Value) -> Vec<(u64, u32)> {
        v.as_array().map(|a| a.iter().map(|e| (self.id(e["collection"].as_str().unwrap_or("")), e["amount"].as_u64().unwrap_or(0) as u32)).collect()).unwrap_or_default()
    }
    fn q_dep(&self, u: u64) -> Vec<(u64, u32)> {
        let v = self.w.query(&self.a(SELF), &json!({"deposited_tokens": {"address": self.a(u)}})).expect("deposited_tokens");
        let mut out = self.pairs(&v["mint_tokens"]);
        out.sort();
        out
    }
    fn q_cnt(&self, u: u64) -> u32 {
        self.w.query(&self.a(SELF), &json!({"mint_count": {"address": self.a(u)}})).expect("mint_count")["count"].as_u64().unwrap() as u32
    }
    fn q_left(&self) -> u32 {
        self.w.query(&self.a(SELF), &json!({"mintable_num_tokens": {}})).expect("mintable")["count"].as_u64().unwrap() as u32
    }
    fn q_num(&self, coll: u64) -> u64 {
        self.w.query(&self.a(coll), &json!({"num_tokens": {}})).ok().and_then(|v| v["count"].as_u64()).unwrap_or(0)
    }
    fn q_owner(&self, coll: u64, id: u64) -> Option<u64> {
        self.w
            .query(&self.a(coll), &json!({"owner_of": {"token_id": id.to_string(), "include_expired": null}}))
            .ok()
            .and_then(|v| v["owner"].as_str().map(|s| self.id(s)))
    }
    /// paginated `AllTokens` / `Tokens{owner}` of a cw721 collection
    fn q_ids(&self, coll: u64, owner: Option<u64>) -> BTreeSet<u64> {
        let mut out = BTreeSet::new();
        let mut after: Option<String> = None;
        loop {
            let q = match owner {
                Some(o) => json!({"tokens": {"owner": self.a(o), "start_after": after, "limit": 100}}),
                None => json!({"all_tokens": {"start_after": after, "limit": 100}}),
            };
            let Ok(v) = self.w.query(&self.a(coll), &q) else { break };
            let toks: Vec<String> = v["tokens"].as_array().map(|a| a.iter().filter_map(|x| x.as_str().map(String::from)).collect()).unwrap_or_default();
            if toks.is_empty() {
                break;
            }
            for t in &toks {
                out.insert(t.parse::<u64>().unwrap_or(u64::MAX));
            }
            after = toks.last().cloned();
            if toks.len() < 100 {
                break;
            }
        }
        out
    }
    fn snap(&self) -> Snap {
        // Config through the query; a field the query no longer shows is taken from the typed stored Config; if that is not
        // readable either, the ghost's value stands in (the comparison is then vacuous, noted once in `main`)
        let cfg = self.w.query(&self.a(SELF), &json!({"config": {}})).unwrap_or(Value::Null);
        // the stored Config as untyped JSON (no dependence on the struct's field layout: a refactor that moves a field into its own
        // storage item must not stop this harness from compiling)
        let stored: Value = {
            let st = self.w.app.contract_storage(&Addr::unchecked(self.a(SELF)));
            st.get(token_merge_minter::state::CONFIG.as_slice()).and_then(|b| serde_json::from_slice::<Value>(&b).ok()).unwrap_or(Value::Null)
        };
        let jstart = |v: &Value| v.as_str().and_then(|x| x.parse::<u64>().ok());
        let start = jstart(&cfg["start_time"]).or(jstart(&stored["extension"]["start_time"]));
        let limit = cfg["per_address_limit"].as_u64().map(|x| x as u32).or(stored["extension"]["per_address_limit"].as_u64().map(|x| x as u32));
        let mt = self.w.query(&self.a(SELF), &json!({"mint_tokens": {}})).unwrap_or(Value::Null);
        let req = if cfg["mint_tokens"].is_array() {
            Some(self.pairs(&cfg["mint_tokens"]))
        } else if mt["mint_tokens"].is_array() {
            Some(self.pairs(&mt["mint_tokens"]))
        } else if stored["extension"]["mint_tokens"].is_array() {
            Some(self.pairs(&stored["extension"]["mint_tokens"]))
        } else {
            None
        };
        let mut s = Snap {
            cfg_readable: start.is_some() && limit.is_some() && req.is_some(),
            start: start.unwrap_or(self.g.start),
            limit: limit.unwrap_or(self.g.limit),
            req: req.unwrap_or_else(|| self.g.req.clone()),
            left: self.q_left(),
            tnum: self.q_num(TGT),
            ..Default::default()
        };
        for u in &self.users {
            s.dep.insert(*u, self.q_dep(*u));
            s.cnt.insert(*u, self.q_cnt(*u));
        }
        s
    }
    fn track(&mut self, u: u64) {
        if !self.users.contains(&u) {
            self.users.push(u);
            let d = self.q_dep(u);
            let c = self.q_cnt(u);
            self.cur.dep.insert(u, d);
            self.cur.cnt.insert(u, c);
        }
    }
    /// every entry of `RECEIVED_TOKENS` through the crate's own typed constant: (recipient, collection) → n
    fn stored_ledger(&self) -> Option<BTreeMap<(u64, u64), u32>> {
        let st = self.w.app.contract_storage(&Addr::unchecked(self.a(SELF)));
        let st: &dyn Storage = &*st;
        let mut out = BTreeMap::new();
        for e in token_merge_minter::state::RECEIVED_TOKENS.range(st, None, None, Order::Ascending) {
            let ((r, c), n) = e.ok()?;
            if n > 0 {
                out.insert((self.id(r.as_str()), self.id(&c)), n);
            }
        }
        Some(out)
    }
    /// remaining mintable ids through the crate's typed constant (outside the projection of C17)
    fn mintable_ids(&self) -> Option<Vec<u64>> {
        let st = self.w.app.contract_storage(&Addr::unchecked(self.a(SELF)));
        let st: &dyn Storage = &*st;
        let mut ids = vec![];
        for e in token_merge_minter::state::MINTABLE_TOKEN_POSITIONS.range(st, None, None, Order::Ascending) {
            ids.push(e.ok()?.1 as u64);
        }
        ids.sort();
        Some(ids)
    }
    /// remaining mintable ids in POSITION order (the permutation witness of `shuffle`)
    fn mintable_by_pos(&self) -> Option<Vec<u64>> {
        let st = self.w.app.contract_storage(&Addr::unchecked(self.a(SELF)));
        let st: &dyn Storage = &*st;
        let mut ids = vec![];
        for e in token_merge_minter::state::MINTABLE_TOKEN_POSITIONS.range(st, None, None, Order::Ascending) {
            ids.push(e.ok()?.1 as u64);
        }
        Some(ids)
    }
    /// tokens that appeared in the target collection since the last look (id, owner); updates the ghost's view of it
    fn tgt_diff(&mut self) -> Vec<(u64, u64)> {
        if self.q_num(TGT) == self.g.tgt.len() as u64 {
            return vec![];
        }
        let ids = self.q_ids(TGT, None);
        let mut new = vec![];
        for id in &ids {
            if !self.g.tgt.contains_key(id) {
                let o = self.q_owner(TGT, *id).unwrap_or(0);
                new.push((*id, o));
            }
        }
        self.g.tgt.retain(|id, _| ids.contains(id));
        for (id, o) in &new {
            self.g.tgt.insert(*id, *o);
        }
        new
    }
    fn touched(&self, r: u64, src: Option<(u64, u64)>, m: Option<u64>) -> String {
        let (own, num) = match src {
            Some((c, id)) if self.is_coll(c) => (self.q_owner(c, id).unwrap_or(0), self.q_num(c)),
            _ => (0, 0),
        };
        let town = m.and_then(|id| self.q_owner(TGT, id)).unwrap_or(0);
        format!("dep={} cnt={} left={} own={} num={} tnum={} town={}", fmt_pairs(&self.q_dep(r)), self.q_cnt(r), self.q_left(), own, num, self.q_num(TGT), town)
    }
    fn inner_msg(&self, rcpt: Option<u64>, bad: u64, inner: Option<&str>) -> Value {
        match bad {
            1 => b64(&json!({"deposit_token": {"recipient": "X!"}})),
            2 => b64(&json!({"withdraw_token": {}})),
            3 => b64(&raw_variant_msg(&self.inner_root, inner.unwrap_or("?"), 1, &self.a(rcpt.unwrap_or(20))).unwrap_or(json!({"unknown_variant": {}}))),
            _ => b64(&json!({"deposit_token": {"recipient": rcpt.map(|r| self.a(r))}})),
        }
    }
    /// runs a deposit-like / mint op with full pre/post recording and ghost update; `f` performs the call
    fn deposit_like(
        &mut self,
        line: &str,
        kind: &str,
        r: u64,
        src: Option<(u64, u64)>,
        is_deposit: bool,
        fixed_id: Option<u64>,
        f: impl FnOnce(&mut World) -> Result<cw_multi_test::AppResponse, String>,
    ) -> (String, String) {
        self.track(r);
        let pre = self.cur.clone();
        let gpre = self.g.clone();
        let real_src = src.filter(|(c, _)| self.is_coll(*c));
        let pre_own = real_src.and_then(|(c, id)| self.q_owner(c, id));
        let pre_num = real_src.map(|(c, _)| self.q_num(c)).unwrap_or(0);
        let res = f(&mut self.w);
        let ok = res.is_ok();
        let new_tgt = self.tgt_diff();
        let picked = if ok && new_tgt.len() == 1 { Some(new_tgt[0].0) } else { None };
        let post = self.snap();
        let post_own = real_src.and_then(|(c, id)| self.q_owner(c, id));
        let post_num = real_src.map(|(c, _)| self.q_num(c)).unwrap_or(0);
        // ---- ghost: only from "the transaction went through", the source collection and the target collection
        if ok {
            if is_deposit {
                if let Some((c, _)) = src {
                    if post_own.is_none() && post_num + 1 == pre_num {
                        *self.g.credited.entry((r, c)).or_insert(0) += 1;
                        *self.g.led.entry((r, c)).or_insert(0) += 1;
                    }
                }
                if !new_tgt.is_empty() {
                    *self.g.dmints.entry(r).or_insert(0) += new_tgt.len() as u64;
                    *self.g.cnt.entry(r).or_insert(0) += new_tgt.len() as u32;
                    self.g.left = self.g.left.saturating_sub(new_tgt.len() as u32);
                    // "the recipient's deposit ledger is reset after each mint"
                    self.g.led.retain(|(x, _), _| *x != r);
                }
            } else {
                for (_, o) in &new_tgt {
                    *self.g.amints.entry(*o).or_insert(0) += 1;
                    *self.g.cnt.entry(*o).or_insert(0) += 1;
                    self.g.left = self.g.left.saturating_sub(1);
                }
            }
        }
        // for mint_for the model looks at the requested id even on failure
        let shown = if ok { picked } else { fixed_id };
        let out = format!("{} m={} {}", oks(ok), fmt_opt(&picked), self.touched(r, src, shown));
        self.cur = post.clone();
        self.last = Some(Rec { line: line.to_string(), kind: kind.to_string(), ok, pre, post, gpre, r, src, pre_own, post_own, pre_num, post_num, new_tgt });
        let w = if ok { 1 } else { 0 };
        match kind {
            "mint_for" => (format!("{line} w={w}"), format!("{out} ## exp={}", oks(ok))),
            "mint_to" => (format!("{line} w={w} picked={}", fmt_opt(&picked)), format!("{out} ## exp={}", oks(ok))),
            _ => (format!("{line} picked={}", fmt_opt(&picked)), out),
        }
    }
    /// any other op: `ok` = outcome of the transaction; ghost config re-read only for the op that is allowed to move it
    fn simple(&mut self, line: &str, kind: &str, ok: bool) -> Snap {
        let pre = self.cur.clone();
        let gpre = self.g.clone();
        let new_tgt = self.tgt_diff();
        let post = self.snap();
        if ok {
            match kind {
                "set_start" => self.g.start = if post.cfg_readable { post.start } else { kv_u64(line, "t").unwrap_or(post.start) },
                "set_limit" => self.g.limit = if post.cfg_readable { post.limit } else { kv_u64(line, "limit").unwrap_or(post.limit as u64) as u32 },
                "purge" => self.g.cnt.clear(),
                "burn_remaining" => self.g.left = 0,
                _ => {}
            }
        }
        self.cur = post.clone();
        self.last = Some(Rec { line: line.to_string(), kind: kind.to_string(), ok, pre, post: post.clone(), gpre, r: 0, src: None, pre_own: None, post_own: None, pre_num: 0, post_num: 0, new_tgt });
        post
    }
}

impl Sut for S {
    fn begin(&mut self, header: &str) -> (String, String) {
        let req = kv_pairs(header, "req").expect("req");
        let start = kv_u64(header, "start").expect("start");
        let limit = kv_u64(header, "limit").expect("limit") as u32;
        let n = kv_u64(header, "n").expect("n") as u32;
        let price = kv_u128(header, "price").expect("price");
        let now = kv_u64(header, "now").expect("now");
        assert_eq!(kv_u64(header, "self"), Some(SELF));
        assert_eq!(kv_u64(header, "tgt"), Some(TGT));
        assert_eq!(kv_u64(header, "admin"), Some(ADMIN));
        assert_eq!(kv_list(header, "colls").unwrap(), COLLS.iter().map(|c| *c as u128).collect::<Vec<_>>());
        assert_eq!(kv_u64(header, "maxlim"), Some(MAXLIM as u64));
        let mut w = World::new(now);
        w.fund(&addr(ADMIN), 0, 1_000_000_000_000_000);
        self.names.clear();
        self.ids.clear();
        let pb = w.default_params(MinterKind::Base);
        self.base_fee = pb.min_mint_price.1 * pb.mint_fee_bps as u128 / 10_000;
        let fb = w.new_factory(FactoryKind::Base, &pb).expect("base factory");
        self.name(BASE_FACTORY, &fb);
        let kinds: Vec<u64> = kv_list(header, "kinds").map(|v| v.iter().map(|x| *x as u64).collect()).unwrap_or_else(|| vec![0; COLLS.len()]);
        for i in 0..COLLS.len() {
            let kind = kinds.get(i).copied().unwrap_or(0);
            let mut ab = w.default_create(MinterKind::Base, &pb);
            ab.creator = ADMIN;
            ab.sg721_code_id = w.coll_code(match kind {
                1 => CollKind::Updatable,
                2 => CollKind::MetadataOnchain,
                _ => CollKind::Base,
            });
            let (mb, cb) = w.create_minter(&fb, MinterKind::Base, &ab).unwrap_or_else(|e| panic!("base minter with collection kind {kind}: {e}"));
            if kind == 3 {
                // an sg721-base collection upgraded in place to sg721-updatable (wasm admin = the creator)
                let code = w.coll_code(CollKind::Updatable);
                w.migrate(&addr(ADMIN), &cb, code, &json!({})).unwrap_or_else(|e| panic!("migrate source collection base -> updatable: {e}"));
            }
            self.name(BASE_MINTERS[i], &mb);
            self.name(COLLS[i], &cb);
        }
        let mut p = w.default_params(MinterKind::TokenMerge);
        p.airdrop_mint_price = (0, price);
        p.airdrop_mint_fee_bps = 5000;
        p.max_per_address_limit = MAXLIM;
        self.shuffle_fee = p.shuffle_fee.1;
        let f = w.new_factory(FactoryKind::TokenMerge, &p).expect("token-merge factory");
        self.name(TM_FACTORY, &f);
        let mut a = w.default_create(MinterKind::TokenMerge, &p);
        a.creator = ADMIN;
        a.num_tokens = Some(n);
        a.per_address_limit = limit;
        a.start_time = start;
        a.mint_tokens = req.iter().map(|(c, k)| (self.a(*c as u64), *k as u32)).collect();
        let (m, c) = w.create_minter(&f, MinterKind::TokenMerge, &a).unwrap_or_else(|e| panic!("create token-merge minter: {e} ({header})"));
        self.name(SELF, &m);
        self.name(TGT, &c);
        self.w = w;
        self.kinds = kinds;
        self.given.clear();
        self.n = n;
        self.users = USERS.iter().cloned().chain([ADMIN]).collect();
        self.g = Ghost { req: req.iter().map(|(c, k)| (*c as u64, *k as u32)).collect(), now, start, limit, left: n, ..Default::default() };
        self.cur = self.snap();
        self.last = None;
        (header.to_string(), "case".to_string())
    }

    fn exec(&mut self, line: &str) -> (String, String) {
        let op = line.split_whitespace().next().unwrap_or("");
        let g = |k: &str| kv_u64(line, k).unwrap_or_else(|| panic!("missing {k} in `{line}`"));
        match op {
            "t" => {
                self.w.set_time(g("now"));
                self.g.now = g("now");
                self.simple(line, "t", true);
                (line.to_string(), "ok".into())
            }
            "give" => {
                let (c, to) = (g("coll"), g("to"));
                let mut got: Option<u64> = None;
                if let Some(i) = COLLS.iter().position(|x| *x == c) {
                    let bm = self.a(BASE_MINTERS[i]);
                    if self.kinds.get(i) == Some(&2) {
                        // base-minter cannot mint on sg721-metadata-onchain (`extension: null` does not parse as Metadata): the
                        // collection's registered minter (the base-minter contract) "sends" the Mint with on-chain metadata itself
                        let id = self.given.get(&c).copied().unwrap_or(0) + 1;
                        let (ca, toa) = (self.a(c), self.a(to));
                        let m = json!({"mint": {"token_id": id.to_string(), "owner": toa, "token_uri": null, "extension": {"name": "source token"}}});
                        if self.w.exec(&bm, &ca, &m, &[]).is_ok() {
                            self.given.insert(c, id);
                            got = Some(id);
                        }
                    } else {
                        let before = self.q_ids(c, Some(ADMIN));
                        if self.w.exec(&addr(ADMIN), &bm, &json!({"mint": {"token_uri": "ipfs://source/token"}}), &[(0, self.base_fee)]).is_ok() {
                            let after = self.q_ids(c, Some(ADMIN));
                            let id = *after.difference(&before).next().expect("base mint: new token of the creator");
                            let (ca, toa) = (self.a(c), self.a(to));
                            self.w.exec(&addr(ADMIN), &ca, &json!({"transfer_nft": {"recipient": toa, "token_id": id.to_string()}}), &[]).expect("distribute source token");
                            got = Some(id);
                        }
                    }
                }
                self.simple(line, "give", got.is_some());
                let out = match got {
                    Some(id) => format!("ok {id}"),
                    None => "err".into(),
                };
                (format!("{line} id={}", fmt_opt(&got)), out)
            }
            "xfer" | "approve" | "revoke" | "approve_all" | "revoke_all" => {
                let (caller, c) = (g("caller"), g("coll"));
                let until = |l: &str| match kv_opt_u64(l, "until").unwrap_or(None) {
                    Some(t) => json!({"at_time": t.to_string()}),
                    None => Value::Null,
                };
                let (msg, id) = match op {
                    "xfer" => (json!({"transfer_nft": {"recipient": self.a(g("to")), "token_id": g("id").to_string()}}), Some(g("id"))),
                    "approve" => (json!({"approve": {"spender": self.a(g("spender")), "token_id": g("id").to_string(), "expires": until(line)}}), Some(g("id"))),
                    "revoke" => (json!({"revoke": {"spender": self.a(g("spender")), "token_id": g("id").to_string()}}), Some(g("id"))),
                    "approve_all" => (json!({"approve_all": {"operator": self.a(g("operator")), "expires": until(line)}}), None),
                    _ => (json!({"revoke_all": {"operator": self.a(g("operator"))}}), None),
                };
                let (ca, cc) = (self.a(caller), self.a(c));
                let ok = self.w.exec(&ca, &cc, &msg, &[]).is_ok();
                let own = match id {
                    Some(id) if self.is_coll(c) => self.q_owner(c, id).unwrap_or(0),
                    _ => 0,
                };
                self.simple(line, op, ok);
                (line.to_string(), format!("{} own={own}", oks(ok)))
            }
            "send" => {
                let (caller, c, id, to) = (g("caller"), g("coll"), g("id"), g("to"));
                let rcpt = kv_opt_u64(line, "rcpt").unwrap();
                let bad = g("bad");
                let msg = json!({"send_nft": {"contract": self.a(to), "token_id": id.to_string(), "msg": self.inner_msg(rcpt, bad, kv(line, "inner"))}});
                let (ca, cc) = (self.a(caller), self.a(c));
                self.deposit_like(line, "send", rcpt.unwrap_or(caller), Some((c, id)), true, None, |w| w.exec(&ca, &cc, &msg, &[]))
            }
            "recv" => {
                let (caller, sender, id) = (g("caller"), g("sender"), g("id"));
                let rcpt = kv_opt_u64(line, "rcpt").unwrap();
                let bad = g("bad");
                let msg = json!({"receive_nft": {"sender": self.a(sender), "token_id": id.to_string(), "msg": self.inner_msg(rcpt, bad, kv(line, "inner"))}});
                let (ca, me) = (self.a(caller), self.a(SELF));
                self.deposit_like(line, "recv", rcpt.unwrap_or(sender), Some((caller, id)), true, None, |w| w.exec(&ca, &me, &msg, &[]))
            }
            "mint_to" | "mint_for" => {
                let (caller, rcpt) = (g("caller"), g("rcpt"));
                let pay = kv_u128(line, "pay").unwrap();
                let funds: Vec<(u64, u128)> = if pay > 0 { vec![(0, pay)] } else { vec![] };
                let (msg, fixed) = if op == "mint_to" {
                    (json!({"mint_to": {"recipient": self.a(rcpt)}}), None)
                } else {
                    (json!({"mint_for": {"token_id": g("id"), "recipient": self.a(rcpt)}}), Some(g("id")))
                };
                let (ca, me) = (self.a(caller), self.a(SELF));
                self.w.fund(&ca, 0, pay);
                self.deposit_like(line, op, rcpt, None, false, fixed, |w| w.exec(&ca, &me, &msg, &funds))
            }
            "set_start" | "set_limit" | "purge" | "burn_remaining" => {
                let msg = match op {
                    "set_start" => json!({"update_start_time": g("t").to_string()}),
                    "set_limit" => json!({"update_per_address_limit": {"per_address_limit": g("limit")}}),
                    "purge" => json!({"purge": {}}),
                    _ => json!({"burn_remaining": {}}),
                };
                let (ca, me) = (self.a(g("caller")), self.a(SELF));
                let ok = self.w.exec(&ca, &me, &msg, &[]).is_ok();
                let post = self.simple(line, op, ok);
                let st = match op {
                    "set_start" => format!("start={}", post.start),
                    "set_limit" => format!("limit={}", post.limit),
                    _ => format!("left={}", post.left),
                };
                (format!("{line} w={}", ok as u8), format!("{} {st} ## exp={}", oks(ok), oks(ok)))
            }
            "shuffle" => {
                let (ca, me) = (self.a(g("caller")), self.a(SELF));
                let fee = kv_u128(line, "pay").unwrap_or(self.shuffle_fee);
                self.w.fund(&ca, 0, fee);
                let funds: Vec<(u64, u128)> = if fee > 0 { vec![(0, fee)] } else { vec![] };
                let ok = self.w.exec(&ca, &me, &json!({"shuffle": {}}), &funds).is_ok();
                let post = self.simple(line, "shuffle", ok);
                let perm = self.mintable_by_pos().map(|v| fmt_list(&v)).unwrap_or_else(|| "?".into());
                (format!("{line} w={} perm={perm}", ok as u8), format!("{} left={}", oks(ok), post.left))
            }
            "tgt_xfer" | "tgt_burn" => {
                let (caller, id) = (g("caller"), g("id"));
                let msg = if op == "tgt_xfer" {
                    json!({"transfer_nft": {"recipient": self.a(g("to")), "token_id": id.to_string()}})
                } else {
                    json!({"burn": {"token_id": id.to_string()}})
                };
                let (ca, tg) = (self.a(caller), self.a(TGT));
                let ok = self.w.exec(&ca, &tg, &msg, &[]).is_ok();
                let post = self.simple(line, op, ok);
                let town = self.q_owner(TGT, id).unwrap_or(0);
                (format!("{line} w={}", ok as u8), format!("{} town={town} tnum={}", oks(ok), post.tnum))
            }
            "govern" => {
                let (m, d) = (g("maxlim"), g("denom"));
                let p = kv_u128(line, "price").unwrap();
                let msg = json!({"update_params": {"code_id": null, "add_sg721_code_ids": null, "rm_sg721_code_ids": null, "frozen": null, "creation_fee": null,
                    "max_trading_offset_secs": null,
                    "extension": {"max_token_limit": null, "max_per_address_limit": m, "airdrop_mint_price": {"denom": denom(d), "amount": p.to_string()},
                                  "airdrop_mint_fee_bps": null, "shuffle_fee": null}}});
                let f = self.a(TM_FACTORY);
                let ok = self.w.sudo(&f, &msg).is_ok();
                self.simple(line, "govern", ok);
                let pr = self.w.query(&f, &json!({"params": {}})).unwrap_or(Value::Null);
                let ml = pr["params"]["max_per_address_limit"].as_u64().unwrap_or(0);
                let ap = pr["params"]["airdrop_mint_price"]["amount"].as_str().unwrap_or("0").to_string();
                (format!("{line} w={}", ok as u8), format!("{} maxlim={ml} price={ap}", oks(ok)))
            }
            "noise" => {
                let what = kv(line, "what").unwrap_or("?").to_string();
                let caller = kv_u64(line, "caller").unwrap_or(ADMIN);
                let (ca, me) = (self.a(caller), self.a(SELF));
                let ok = match what.as_str() {
                    "shuffle" => {
                        self.w.fund(&ca, 0, self.shuffle_fee);
                        let f = self.shuffle_fee;
                        self.w.exec(&ca, &me, &json!({"shuffle": {}}), &[(0, f)]).is_ok()
                    }
                    "trading" => {
                        let t = kv_opt_u64(line, "t").unwrap_or(None);
                        self.w.exec(&ca, &me, &json!({"update_start_trading_time": t.map(|t| t.to_string())}), &[]).is_ok()
                    }
                    "status" => self.w.sudo(&me, &json!({"update_status": {"is_verified": true, "is_blocked": false, "is_explicit": caller % 2 == 1}})).is_ok(),
                    "migrate" => {
                        let code = self.w.codes.minters[MinterKind::TokenMerge.idx()];
                        self.w.migrate(&ca, &me, code, &json!({})).is_ok()
                    }
                    x => match x.strip_prefix("x:").and_then(|v| raw_variant_msg(&self.exec_root, v, kv_u64(line, "k").unwrap_or(1), &self.a(20))) {
                        Some(m) => self.w.exec(&ca, &me, &m, &[]).is_ok(),
                        None => false,
                    },
                };
                let post = self.simple(line, "noise", ok);
                (format!("{line} w={}", ok as u8), format!("{} start={} limit={} left={} tnum={}", oks(ok), post.start, post.limit, post.left, post.tnum))
            }
            "obs" => {
                let users: Vec<u64> = kv_list(line, "users").unwrap().iter().map(|x| *x as u64).collect();
                let maxid = g("maxid");
                for u in &users {
                    self.track(*u);
                }
                let s = self.simple(line, "obs", true);
                let us: Vec<String> = users.iter().map(|u| format!("u{u}={}/{}", s.cnt[u], fmt_pairs(&s.dep[u]))).collect();
                let cs: Vec<String> = COLLS
                    .iter()
                    .map(|c| format!("c{c}={}/{}", self.q_num(*c), fmt_list(&(1..=maxid).map(|id| self.q_owner(*c, id).unwrap_or(0)).collect::<Vec<_>>())))
                    .collect();
                let tg: Vec<u64> = (1..=self.n as u64).map(|id| self.q_owner(TGT, id).unwrap_or(0)).collect();
                let ids = self.mintable_ids().map(|v| fmt_list(&v)).unwrap_or_else(|| "?".into());
                let out = format!("obs start={} limit={} left={} tnum={} {} {} tgt={} ## ids={}", s.start, s.limit, s.left, s.tnum, us.join(" "), cs.join(" "), fmt_list(&tg), ids);
                (line.to_string(), out)
            }
            _ => (line.to_string(), "bad-op".into()),
        }
    }

    /// Direct transcription of property C17. Guards and the "fulfilled" predicate are evaluated on the GHOST (what the harness
    /// configured, sent and saw burned / minted in the collections); the minter's own answers are compared with it.
    fn monitor(&mut self) -> Option<(String, String)> {
        let rec = self.last.clone()?;
        let Rec { line, kind, ok, pre, post, gpre, r, src, pre_own, post_own, pre_num, post_num, new_tgt } = rec;
        let bad = |p: &str, w: String| Some((format!("token-merge-minter/{kind}/{p}"), format!("{w} on `{line}`")));
        let empty: Vec<(u64, u32)> = vec![];
        let g = self.g.clone();

        // ------------------------------------------------------------ per operation
        match kind.as_str() {
            "send" | "recv" => {
                let coll = src.unwrap().0;
                let pre_d = pre.dep.get(&r).unwrap_or(&empty);
                let post_d = post.dep.get(&r).unwrap_or(&empty);
                let minted = new_tgt.len() == 1;
                if new_tgt.len() > 1 {
                    return bad("mint-count-jump", format!("{} tokens appeared in the target collection: {:?}", new_tgt.len(), new_tgt));
                }
                let to_minter = kind == "recv" || kv_u64(&line, "to") == Some(SELF);
                if ok && to_minter {
                    if kind == "send" && post_own == Some(SELF) {
                        return bad("token-parked-without-credit", format!("SendNft of {:?} succeeded and the token is now owned by the minter: neither burned nor returned (ledger of {r}: {:?} -> {:?})", src, pre_d, post_d));
                    }
                    if kind == "recv" && !self.is_coll(coll) {
                        return bad("direct-receive-accepted", "ReceiveNft called directly by an account was accepted".into());
                    }
                    if kv_u64(&line, "bad").unwrap_or(0) != 0 {
                        return bad("malformed-deposit-accepted", "a deposit whose inner message is not DepositToken{valid recipient} was accepted".into());
                    }
                    if gpre.now <= gpre.start {
                        return bad("deposit-not-after-start", format!("deposit accepted at {} with start {}", gpre.now, gpre.start));
                    }
                    let Some(k) = req_of(&gpre.req, coll) else {
                        return bad("deposit-foreign-collection", format!("deposit from non-required collection {coll} accepted"));
                    };
                    if gpre.led_of(r, coll) >= k {
                        return bad("deposit-surplus", format!("recipient {r} already had {} of {k} from {coll}", gpre.led_of(r, coll)));
                    }
                    if gpre.cnt_of(r) >= gpre.limit {
                        return bad("deposit-beyond-limit", format!("recipient {r} has {} mints ≥ limit {}", gpre.cnt_of(r), gpre.limit));
                    }
                    if post_own.is_some() || post_num + 1 != pre_num {
                        return bad("deposit-not-burned", format!("token {:?} still owned by {:?}; collection count {} -> {}", src, post_own, pre_num, post_num));
                    }
                    let fulfilled = gpre.fulfils(r, coll);
                    if minted && !fulfilled {
                        return bad("mint-without-requirements", format!("minted to {r} with burned-since-last-mint {:?} + 1×{coll}, required {:?}", gpre.row(r), gpre.req));
                    }
                    if !minted && fulfilled {
                        return bad("requirements-met-no-mint", format!("{r} reached {:?} + 1×{coll} = required {:?} but nothing was minted", gpre.row(r), gpre.req));
                    }
                    if minted {
                        if new_tgt[0].1 != r {
                            return bad("mint-wrong-recipient", format!("minted id {} owned by {}, recipient {r}", new_tgt[0].0, new_tgt[0].1));
                        }
                        if !post_d.is_empty() {
                            return bad("ledger-not-reset", format!("ledger of {r} after mint: {:?}", post_d));
                        }
                        if post.cnt[&r] != pre.cnt[&r] + 1 || post.left + 1 != pre.left {
                            return bad("mint-accounting", format!("count {}->{} left {}->{}", pre.cnt[&r], post.cnt[&r], pre.left, post.left));
                        }
                    } else {
                        if dep_of(post_d, coll) != dep_of(pre_d, coll) + 1 {
                            return bad("credit-missing", format!("ledger {:?} -> {:?}", pre_d, post_d));
                        }
                        if post.cnt != pre.cnt || post.left != pre.left {
                            return bad("deposit-touched-counters", "mint counts / supply changed without a mint".into());
                        }
                    }
                    // frame: nobody else's ledger moves
                    for (u, d) in &pre.dep {
                        if *u != r && post.dep.get(u) != Some(d) {
                            return bad("foreign-ledger-changed", format!("ledger of {u} changed {:?} -> {:?}", d, post.dep.get(u)));
                        }
                    }
                } else if !ok {
                    if post.dep != pre.dep || post.cnt != pre.cnt || post.left != pre.left || post.tnum != pre.tnum || post_own != pre_own || post_num != pre_num || !new_tgt.is_empty() {
                        return bad("rejected-deposit-changed-state", format!("owner {:?}->{:?} count {}->{} ledger {:?}->{:?}", pre_own, post_own, pre_num, post_num, pre.dep, post.dep));
                    }
                    // completeness: a deposit that meets every stated condition must be accepted
                    if kind == "send" {
                        let caller = kv_u64(&line, "caller").unwrap();
                        let badm = kv_u64(&line, "bad").unwrap();
                        if let Some(k) = req_of(&gpre.req, coll) {
                            let fulfilled = gpre.fulfils(r, coll);
                            if pre_own == Some(caller) && to_minter && badm == 0 && self.is_coll(coll) && gpre.now > gpre.start && gpre.led_of(r, coll) < k && gpre.cnt_of(r) < gpre.limit && (!fulfilled || gpre.left > 0) {
                                return bad("valid-deposit-rejected", format!("owner {caller} after start, burned-since-last-mint {:?}, required {:?}, mints {} < {}", gpre.row(r), gpre.req, gpre.cnt_of(r), gpre.limit));
                            }
                        }
                    }
                }
            }
            "mint_to" | "mint_for" => {
                if ok {
                    let caller = kv_u64(&line, "caller").unwrap();
                    if caller != ADMIN {
                        return bad("stranger-admin-mint", format!("{caller} is not the admin"));
                    }
                    if post.dep != pre.dep {
                        return bad("admin-mint-touched-ledger", format!("{:?} -> {:?}", pre.dep, post.dep));
                    }
                    if new_tgt.len() != 1 || new_tgt[0].1 != r {
                        return bad("admin-mint-accounting", format!("new tokens in the target collection {:?}, recipient {r}", new_tgt));
                    }
                } else if post != pre || !new_tgt.is_empty() {
                    return bad("rejected-mint-changed-state", "state changed by a failed admin mint".into());
                }
            }
            _ => {
                if !new_tgt.is_empty() {
                    return bad("mint-outside-deposit", format!("tokens {:?} appeared in the target collection", new_tgt));
                }
                if post.dep != pre.dep {
                    return bad("ledger-changed-outside-deposit", format!("{:?} -> {:?}", pre.dep, post.dep));
                }
                if ["shuffle", "tgt_xfer", "tgt_burn", "govern", "noise"].contains(&kind.as_str()) && (post.cnt != pre.cnt || post.left != pre.left) {
                    return bad("counters-changed-outside-mint", format!("mint counts {:?} -> {:?}, supply {} -> {}", pre.cnt, post.cnt, pre.left, post.left));
                }
                if kind == "set_start" && ok && gpre.now >= gpre.start {
                    return bad("start-moved-after-start", format!("start time moved {} -> {} at {} (deposits were already open)", gpre.start, post.start, gpre.now));
                }
            }
        }

        // ------------------------------------------------------------ every state: the minter's answers against the ghost
        if post.req != g.req {
            return bad("requirements-changed", format!("requirement vector is {:?}, configured {:?}", post.req, g.req));
        }
        if post.start != g.start {
            return bad("start-changed-outside-update", format!("start time is {}, last set to {}", post.start, g.start));
        }
        if post.limit != g.limit {
            return bad("limit-changed-outside-update", format!("per-address limit is {}, last set to {}", post.limit, g.limit));
        }
        let nondegenerate = g.req.iter().any(|(_, n)| *n > 0);
        for u in &self.users {
            let row = g.row(*u);
            for (c, n) in &row {
                match req_of(&g.req, *c) {
                    None => return bad("ledger-foreign-collection", format!("{n} tokens of non-required collection {c} were burned for {u}")),
                    Some(k) if *n > k => return bad("ledger-above-required", format!("{n} > required {k} tokens of {c} burned for {u} since its last mint")),
                    _ => {}
                }
            }
            if nondegenerate && g.req.iter().all(|(c, k)| g.led_of(*u, *c) >= *k) {
                return bad("requirements-met-no-mint", format!("every required token was burned for {u} ({:?}) but no mint consumed them", row));
            }
            if post.dep.get(u) != Some(&row) {
                return bad("ledger-query-differs", format!("DepositedTokens({u}) = {:?}, burned for {u} since its last mint: {:?}", post.dep.get(u), row));
            }
        }
        // conservation: burned(r,c) = required(c) × deposit-mints(r) + pending(r,c)
        for ((u, c), n) in &g.credited {
            let want = req_of(&g.req, *c).unwrap_or(0) as u64 * *g.dmints.get(u).unwrap_or(&0) + g.led_of(*u, *c) as u64;
            if *n != want {
                return bad("conservation", format!("{n} tokens of {c} burned for {u}, but required×mints + pending = {} × {} + {}", req_of(&g.req, *c).unwrap_or(0), g.dmints.get(u).unwrap_or(&0), g.led_of(*u, *c)));
            }
        }
        // the stored ledger itself (typed constant of the crate), every recipient, against the ghost
        if !self.storage_unreadable {
            match self.stored_ledger() {
                Some(st) => {
                    let want: BTreeMap<(u64, u64), u32> = g.led.iter().filter(|(_, n)| **n > 0).map(|(k, n)| (*k, *n)).collect();
                    if st != want {
                        return bad("ledger-storage-differs", format!("RECEIVED_TOKENS = {:?}, burned since last mint = {:?}", st, want));
                    }
                }
                None => self.storage_unreadable = true,
            }
        }
        None
    }
}

// ------------------------------------------------------------------------------------------------ generation

/// source-collection kinds of a case: a function of its NAME only (so every seed visits the same scripted combinations)
fn kinds_of(name: &str) -> [u64; 4] {
    let mut h: u64 = 1469598103934665603;
    for b in name.bytes() {
        h = (h ^ b as u64).wrapping_mul(1099511628211);
    }
    let h = h >> 7;
    [h % 4, (h / 4 + 1) % 4, (h / 16 + 2) % 4, (h / 64 + 3) % 4]
}

fn header(name: &str, req: &[(u64, u32)], start: u64, limit: u32, n: u32, price: u128) -> String {
    format!(
        "case {name} self={SELF} tgt={TGT} admin={ADMIN} colls={} req={} start={start} limit={limit} n={n} maxlim={MAXLIM} price={price} now={NOW0} kinds={}",
        fmt_list(&COLLS),
        fmt_pairs(req),
        fmt_list(&kinds_of(name))
    )
}

/// the generator's own view, reconstructed from the outputs
#[derive(Default)]
struct View {
    owner: BTreeMap<(u64, u64), u64>, // (coll, id) -> owner
    dep: BTreeMap<(u64, u64), u32>,   // (recipient, coll) -> credited
    cnt: BTreeMap<u64, u32>,
    left: u32,
    now: u64,
    start: u64,
    limit: u32,
    req: Vec<(u64, u32)>,
    maxid: u64,
    /// the minter's own collection: token id -> owner
    tgt: BTreeMap<u64, u64>,
    /// airdrop price currently in force (governance may change it)
    price: u128,
    /// kind of each source collection (see the module doc)
    kinds: [u64; 4],
}

impl View {
    fn tokens_of(&self, u: u64, c: u64) -> Vec<u64> {
        self.owner.iter().filter(|((cc, _), o)| *cc == c && **o == u).map(|((_, id), _)| *id).collect()
    }
    fn req_of(&self, c: u64) -> Option<u32> {
        self.req.iter().find(|(x, _)| *x == c).map(|(_, n)| *n)
    }
    fn need(&self, r: u64, c: u64) -> u32 {
        self.req_of(c).unwrap_or(0).saturating_sub(*self.dep.get(&(r, c)).unwrap_or(&0))
    }
    fn would_fulfil(&self, r: u64, c: u64) -> bool {
        self.req.iter().all(|(x, n)| *self.dep.get(&(r, *x)).unwrap_or(&0) + if *x == c { 1 } else { 0 } >= *n)
    }
}

struct Gen<'a> {
    ses: &'a mut Session,
    sut: &'a mut S,
    v: View,
    rng: Rng,
    /// `noise what=…` payloads available in this tree: the known frame ops + every ExecuteMsg variant without a named op
    noise: Vec<String>,
    unknown_inner: Vec<String>,
}

impl<'a> Gen<'a> {
    fn step(&mut self, line: &str) -> String {
        self.ses.step(&mut *self.sut, line)
    }
    fn set_time(&mut self, t: u64) {
        self.step(&format!("t now={t}"));
        self.v.now = t;
    }
    fn give(&mut self, c: u64, to: u64) -> Option<u64> {
        let out = self.step(&format!("give coll={c} to={to}"));
        let id: u64 = out.strip_prefix("ok ")?.parse().ok()?;
        self.v.owner.insert((c, id), to);
        self.v.maxid = self.v.maxid.max(id);
        Some(id)
    }
    fn obs(&mut self) {
        let users: Vec<u64> = USERS.iter().cloned().chain([ADMIN]).collect();
        let m = self.v.maxid.max(1);
        self.step(&format!("obs users={} maxid={m}", fmt_list(&users)));
    }
    fn phase(&self) -> &'static str {
        if self.v.now < self.v.start {
            "before"
        } else if self.v.now == self.v.start {
            "at-start"
        } else if self.v.now == self.v.start + 1 {
            "start+1"
        } else {
            "after"
        }
    }
    fn after_deposit(&mut self, out: &str, r: u64, c: u64, id: u64) -> (bool, bool) {
        let ok = out.starts_with("ok");
        let minted = ok && !out.contains(" m=- ");
        self.note_minted(out);
        if ok {
            self.v.owner.remove(&(c, id));
            if minted {
                for (x, _) in self.v.req.clone() {
                    self.v.dep.remove(&(r, x));
                }
                *self.v.cnt.entry(r).or_insert(0) += 1;
                self.v.left -= 1;
            } else {
                *self.v.dep.entry((r, c)).or_insert(0) += 1;
            }
        }
        (ok, minted)
    }
    /// remember a token that the op minted into the minter's collection (`m=<id> … town=<owner>`)
    fn note_minted(&mut self, out: &str) {
        if out.starts_with("ok") {
            if let (Some(id), Some(o)) = (kv_u64(out, "m"), kv_u64(out, "town")) {
                self.v.tgt.insert(id, o);
            }
        }
    }
    fn shuffle(&mut self, caller: u64, pay: Option<u128>) -> bool {
        let extra = pay.map(|p| format!(" pay={p}")).unwrap_or_default();
        let out = self.step(&format!("shuffle caller={caller}{extra}"));
        let ok = out.starts_with("ok");
        self.ses.mark(format!("shuffle:{}:{}:{}", if pay.is_some() { "odd-fee" } else { "fee" }, if self.v.left == 0 { "sold-out" } else { "supply" }, oks(ok)));
        if ok {
            self.ses.mark("floor:shuffle:ok");
        }
        ok
    }
    fn tgt_xfer(&mut self, caller: u64, id: u64, to: u64) -> bool {
        let owner = self.v.tgt.get(&id).copied();
        let out = self.step(&format!("tgt_xfer caller={caller} id={id} to={to}"));
        let ok = out.starts_with("ok");
        if ok {
            self.v.tgt.insert(id, to);
            self.ses.mark("floor:tgt_xfer:ok");
        }
        self.ses.mark(format!("tgt_xfer:{}:{}", if owner == Some(caller) { "owner" } else if owner.is_none() { "no-token" } else { "other" }, oks(ok)));
        ok
    }
    fn tgt_burn(&mut self, caller: u64, id: u64) -> bool {
        let owner = self.v.tgt.get(&id).copied();
        let out = self.step(&format!("tgt_burn caller={caller} id={id}"));
        let ok = out.starts_with("ok");
        if ok {
            self.v.tgt.remove(&id);
            self.ses.mark("floor:tgt_burn:ok");
        }
        self.ses.mark(format!("tgt_burn:{}:{}", if owner == Some(caller) { "owner" } else if owner.is_none() { "no-token" } else { "other" }, oks(ok)));
        ok
    }
    fn govern(&mut self, maxlim: u32, price: u128, denom_id: u64) -> bool {
        let out = self.step(&format!("govern maxlim={maxlim} price={price} denom={denom_id}"));
        let ok = out.starts_with("ok");
        if ok {
            self.v.price = price;
            self.ses.mark("floor:govern:ok");
        }
        self.ses.mark(format!("govern:{}:{}", if denom_id == 0 { "native" } else { "foreign-denom" }, oks(ok)));
        ok
    }
    /// one of the operations that only the extended model (`OpX`) can express
    fn random_x(&mut self, users: &[u64]) {
        match self.rng.below(7) {
            0 | 1 => {
                let caller = if self.rng.chance(1, 4) { ADMIN } else { *self.rng.pick(users) };
                let pay = if self.rng.chance(1, 5) { Some(*self.rng.pick(&[0u128, 1, 500_000_001])) } else { None };
                self.shuffle(caller, pay);
            }
            2 | 3 | 4 => {
                let toks: Vec<(u64, u64)> = self.v.tgt.iter().map(|(a, b)| (*a, *b)).collect();
                let (id, o) = if toks.is_empty() { (1, users[0]) } else { *self.rng.pick(&toks) };
                let caller = if self.rng.chance(4, 5) { o } else { *self.rng.pick(users) };
                if self.rng.chance(2, 3) {
                    let to = *self.rng.pick(users);
                    self.tgt_xfer(caller, id, to);
                } else {
                    self.tgt_burn(caller, id);
                }
            }
            _ => {
                let ml = *self.rng.pick(&[2u32, 3, 50, 60]);
                let pr = *self.rng.pick(&[0u128, 1_000_000, 2_000_000]);
                let d = if self.rng.chance(1, 6) { 1 } else { 0 };
                self.govern(ml, pr, d);
            }
        }
    }
    /// returns (ok, minted)
    fn send(&mut self, caller: u64, c: u64, id: u64, to: u64, rcpt: Option<u64>, bad: u64, tag: &str) -> (bool, bool) {
        let r = rcpt.unwrap_or(caller);
        let phase = self.phase();
        let kind = if self.v.req_of(c).is_none() { "foreign" } else if self.v.need(r, c) == 0 { "surplus" } else if self.v.would_fulfil(r, c) { "final" } else { "partial" };
        let lim = if *self.v.cnt.get(&r).unwrap_or(&0) >= self.v.limit { "at-limit" } else { "below-limit" };
        let sup = if self.v.left == 0 { "sold-out" } else { "supply" };
        let st = format!("{kind}:{lim}:{sup}:{phase}");
        let inner = if bad == 3 { format!(" inner={}", self.unknown_inner.first().cloned().unwrap_or_default()) } else { String::new() };
        let out = self.step(&format!("send caller={caller} coll={c} id={id} to={to} rcpt={} bad={bad}{inner}", fmt_opt(&rcpt)));
        let (ok, minted) = self.after_deposit(&out, r, c, id);
        let how = if rcpt.is_none() { "implicit" } else if rcpt == Some(caller) { "explicit-self" } else { "explicit-other" };
        let oc = if minted { "mint" } else if ok { "credit" } else { "err" };
        self.ses.mark(format!("send:{tag}:{how}:{st}:k{}:{oc}", self.v.req.len()));
        self.ses.count(&format!("send-tag:{tag}:{oc}"));
        self.ses.count(&format!("send-state:{st}:{oc}"));
        // coverage floor classes (see `main`)
        let clean = tag != "not-owner" && tag != "bad-msg" && tag != "wrong-contract" && tag != "no-token" && bad == 0 && to == SELF;
        if clean {
            if ok {
                let k = COLLS.iter().position(|x| *x == c).map(|i| self.v.kinds[i]).unwrap_or(9);
                let kn = ["base", "updatable", "metadata-onchain", "base-migrated-to-updatable"].get(k as usize).copied().unwrap_or("?");
                self.ses.mark(format!("floor:src-kind:{kn}:{}", if minted { "mint" } else { "credit" }));
            }
            if minted {
                self.ses.mark(format!("floor:mint:k{}", self.v.req.len()));
                self.ses.mark(format!("floor:mint:{how}"));
                self.ses.mark(format!("floor:mint:{phase}"));
            } else if ok {
                self.ses.mark(format!("floor:credit:{phase}"));
            } else if lim == "below-limit" && (kind == "partial" || (kind == "final" && sup == "supply")) && (phase == "before" || phase == "at-start") {
                self.ses.mark(format!("floor:reject:{phase}"));
            } else if phase == "after" || phase == "start+1" {
                if kind == "foreign" || kind == "surplus" {
                    self.ses.mark(format!("floor:reject:{kind}"));
                } else if lim == "at-limit" {
                    self.ses.mark("floor:reject:at-limit");
                } else if kind == "final" && sup == "sold-out" {
                    self.ses.mark("floor:reject:sold-out");
                }
            }
        }
        (ok, minted)
    }
    fn recv(&mut self, caller: u64, sender: u64, id: u64, rcpt: Option<u64>, bad: u64) -> (bool, bool) {
        let r = rcpt.unwrap_or(sender);
        let out = self.step(&format!("recv caller={caller} sender={sender} id={id} rcpt={} bad={bad}", fmt_opt(&rcpt)));
        let who = if COLLS.contains(&caller) { "collection" } else if caller >= 1000 { "other-contract" } else if caller == ADMIN { "admin" } else { "user" };
        let (ok, minted) = self.after_deposit(&out, r, caller, id);
        self.ses.mark(format!("recv:{who}:{}:bad{bad}:{}", if rcpt.is_some() { "explicit" } else { "implicit" }, if minted { "mint" } else { &out[..2] }));
        if !ok && who != "collection" {
            self.ses.mark(format!("floor:direct-recv:{who}:err"));
        }
        if ok && who == "collection" {
            self.ses.mark("floor:recv-as-collection:stuck-token:ok");
        }
        (ok, minted)
    }
    fn mint_to(&mut self, caller: u64, rcpt: u64, pay: u128, price: u128) -> bool {
        let out = self.step(&format!("mint_to caller={caller} rcpt={rcpt} pay={pay}"));
        let ok = out.starts_with("ok");
        self.note_minted(&out);
        self.ses.mark(format!(
            "mint_to:{}:{}:{}:{}",
            if caller == ADMIN { "admin" } else { "stranger" },
            if pay == price { "exact" } else if pay < price { "under" } else { "over" },
            if self.v.left == 0 { "sold-out" } else { "supply" },
            oks(ok)
        ));
        if ok {
            *self.v.cnt.entry(rcpt).or_insert(0) += 1;
            self.v.left -= 1;
            self.ses.mark("floor:admin-mint:ok");
        } else if caller != ADMIN {
            self.ses.mark("floor:admin-mint:stranger:err");
        }
        ok
    }
    fn set_limit(&mut self, caller: u64, lim: u64) -> bool {
        let out = self.step(&format!("set_limit caller={caller} limit={lim}"));
        let ok = out.starts_with("ok");
        if ok {
            self.v.limit = lim as u32;
        }
        self.ses.mark(format!("set_limit:{}:{lim}:{}", if caller == ADMIN { "admin" } else { "stranger" }, oks(ok)));
        ok
    }
    fn set_start(&mut self, caller: u64, t: u64) -> bool {
        let rel = if t < self.v.now { "past" } else if t == self.v.now { "now" } else { "future" };
        let ph = self.phase();
        let out = self.step(&format!("set_start caller={caller} t={t}"));
        let ok = out.starts_with("ok");
        if ok {
            self.v.start = t;
        }
        self.ses.mark(format!("set_start:{}:{ph}:{rel}:{}", if caller == ADMIN { "admin" } else { "stranger" }, oks(ok)));
        if caller == ADMIN {
            self.ses.mark(format!("floor:set_start:{}:{}", if ph == "before" { "before" } else { "started" }, oks(ok)));
        }
        ok
    }
    fn noise(&mut self, what: &str, caller: u64) -> bool {
        let extra = if what == "trading" { format!(" t={}", self.v.now + 1_000_000_000) } else if what.starts_with("x:") { format!(" k={}", self.rng.range(0, 3)) } else { String::new() };
        let out = self.step(&format!("noise what={what} caller={caller}{extra}"));
        let ok = out.starts_with("ok");
        self.ses.mark(format!("noise:{what}:{}:{}", if caller == ADMIN { "admin" } else { "user" }, oks(ok)));
        if ok {
            self.ses.mark(format!("floor:noise:{what}:ok"));
        }
        ok
    }
    fn xfer(&mut self, caller: u64, c: u64, id: u64, to: u64) -> bool {
        let out = self.step(&format!("xfer caller={caller} coll={c} id={id} to={to}"));
        let ok = out.starts_with("ok");
        if ok {
            self.v.owner.insert((c, id), to);
        }
        ok
    }
}

fn all_vectors() -> Vec<Vec<(u64, u32)>> {
    let mut out = vec![];
    for k in 1..=3usize {
        let mut amounts = vec![1u32; k];
        loop {
            out.push((0..k).map(|i| (COLLS[i], amounts[i])).collect::<Vec<_>>());
            let mut i = 0;
            loop {
                if i == k {
                    break;
                }
                if amounts[i] < 3 {
                    amounts[i] += 1;
                    break;
                }
                amounts[i] = 1;
                i += 1;
            }
            if i == k {
                break;
            }
        }
    }
    out
}

fn begin<'a>(ses: &'a mut Session, sut: &'a mut S, name: &str, req: &[(u64, u32)], start: u64, limit: u32, n: u32, price: u128) -> Gen<'a> {
    ses.begin_case(sut, &header(name, req, start, limit, n, price));
    let rng = ses.rng.fork();
    let v = View { left: n, now: NOW0, start, limit, req: req.to_vec(), price, kinds: kinds_of(name), ..Default::default() };
    let mut noise: Vec<String> = ["trading", "status", "migrate"].iter().map(|s| s.to_string()).collect();
    for u in unknown_of(&sut.exec_root, &KNOWN_EXEC) {
        noise.push(format!("x:{u}"));
    }
    let unknown_inner = unknown_of(&sut.inner_root, &KNOWN_INNER);
    Gen { ses, sut, v, rng, noise, unknown_inner }
}

/// a random, mostly valid scenario for one requirement vector
fn random_case(ses: &mut Session, sut: &mut S, idx: usize, req: &[(u64, u32)], n_ops: u64) {
    let mut r0 = ses.rng.fork();
    let n = *r0.pick(&[1u32, 2, 3, 4, 6, 10, 10, 150]);
    let limit = if n >= 100 { r0.range(1, 5) } else { r0.range(1, 3) } as u32;
    let price: u128 = *r0.pick(&[0u128, 0, 1_000_000]);
    let start = NOW0 + r0.range(10, 1000);
    // order of the entries in mint_tokens is arbitrary
    let mut req = req.to_vec();
    r0.shuffle(&mut req);
    let mut g = begin(ses, sut, &format!("rand{idx}"), &req, start, limit, n, price);
    let nusers = g.rng.range(2, 4) as usize;
    let users: Vec<u64> = USERS[..nusers].to_vec();
    // distribute source tokens: enough for some users to complete once or twice, plus foreign ones
    for c in COLLS {
        let need = g.v.req_of(c).unwrap_or(1);
        for u in &users {
            let k = match g.rng.below(4) {
                0 => 0,
                1 => need,
                2 => need + 1,
                _ => need * 2,
            };
            for _ in 0..k.min(4) {
                g.give(c, *u);
            }
        }
    }
    if g.rng.chance(1, 2) {
        g.obs();
    }
    // some activity before the start
    if g.rng.chance(1, 3) {
        let u = *g.rng.pick(&users);
        let c = g.v.req[0].0;
        if let Some(id) = g.v.tokens_of(u, c).first().cloned() {
            g.send(u, c, id, SELF, None, 0, "valid");
        }
    }
    if g.rng.chance(1, 4) {
        let t = g.v.now + g.rng.range(0, 500);
        let caller = if g.rng.chance(4, 5) { ADMIN } else { users[0] };
        g.set_start(caller, t);
    }
    // place the clock on or around the start
    let s = g.v.start;
    match g.rng.below(4) {
        0 => g.set_time(s - 1),
        1 => g.set_time(s),
        2 => g.set_time(s + 1),
        _ => {
            let d = g.rng.range(2, 10_000);
            g.set_time(s + d)
        }
    }
    for i in 0..n_ops {
        if g.v.now <= g.v.start && i >= 2 && g.rng.chance(1, 2) {
            let t = g.v.start + if g.rng.chance(1, 2) { 1 } else { g.rng.range(2, 50_000) };
            g.set_time(t);
        }
        let roll = g.rng.below(100);
        if roll < 58 {
            // a deposit
            let u = *g.rng.pick(&users);
            let rcpt = match g.rng.below(10) {
                0..=5 => None,
                6 => Some(u),
                _ => Some(*g.rng.pick(&users)),
            };
            let fault = g.rng.below(100);
            if fault < 72 {
                // valid-ish: feed the recipient that is closest to completing (so that mints actually happen)
                let mut rs: Vec<u64> = users.clone();
                g.rng.shuffle(&mut rs);
                let progress = |v: &View, r: u64| -> u32 { v.req.iter().map(|(c, _)| *v.dep.get(&(r, *c)).unwrap_or(&0)).sum() };
                if g.rng.chance(3, 4) {
                    // recipients already at their limit last, then most progress first
                    rs.sort_by_key(|r| (*g.v.cnt.get(r).unwrap_or(&0) >= g.v.limit, std::cmp::Reverse(progress(&g.v, *r))));
                }
                let r = rs[0];
                let needed: Vec<u64> = g.v.req.iter().map(|(c, _)| *c).filter(|c| g.v.need(r, *c) > 0).collect();
                let mut cands: Vec<(u64, u64, u64)> = vec![]; // (caller, coll, id)
                for c in &needed {
                    for id in g.v.tokens_of(r, *c) {
                        cands.push((r, *c, id));
                    }
                }
                if cands.is_empty() || g.rng.chance(1, 4) {
                    for c in &needed {
                        for u2 in &users {
                            for id in g.v.tokens_of(*u2, *c) {
                                cands.push((*u2, *c, id));
                            }
                        }
                    }
                }
                if cands.is_empty() {
                    // top up: the recipient gets a token it still needs (or any required one)
                    let c = if needed.is_empty() { g.rng.pick(&g.v.req.clone()).0 } else { *g.rng.pick(&needed) };
                    g.give(c, r);
                } else {
                    let (cu, c, id) = *g.rng.pick(&cands);
                    let rc = if cu == r && g.rng.chance(4, 5) { None } else { Some(r) };
                    g.send(cu, c, id, SELF, rc, 0, "valid");
                }
            } else if fault < 79 {
                // foreign collection
                let foreign: Vec<u64> = COLLS.iter().cloned().filter(|c| g.v.req_of(*c).is_none()).collect();
                let c = *g.rng.pick(&foreign);
                let id = match g.v.tokens_of(u, c).first().cloned() {
                    Some(id) => Some(id),
                    None => g.give(c, u),
                };
                if let Some(id) = id {
                    g.send(u, c, id, SELF, rcpt, 0, "foreign");
                }
            } else if fault < 84 {
                // somebody else's token
                let c = g.rng.pick(&g.v.req.clone()).0;
                let others: Vec<u64> = g.v.owner.iter().filter(|((cc, _), o)| *cc == c && **o != u).map(|((_, id), _)| *id).collect();
                if let Some(id) = others.first().cloned() {
                    g.send(u, c, id, SELF, rcpt, 0, "not-owner");
                }
            } else if fault < 89 {
                // malformed inner message / invalid recipient string / inner variant this file has never heard of
                let c = g.rng.pick(&g.v.req.clone()).0;
                if let Some(id) = g.v.tokens_of(u, c).first().cloned() {
                    let b = if !g.unknown_inner.is_empty() && g.rng.chance(1, 2) { 3 } else { g.rng.range(1, 2) };
                    g.send(u, c, id, SELF, rcpt, b, "bad-msg");
                }
            } else if fault < 94 {
                // sent to something that is not the minter
                let c = g.rng.pick(&g.v.req.clone()).0;
                if let Some(id) = g.v.tokens_of(u, c).first().cloned() {
                    let to = *g.rng.pick(&[TGT, users[0], COLLS[3], TM_FACTORY]);
                    g.send(u, c, id, to, rcpt, 0, "wrong-contract");
                }
            } else {
                // token that does not exist
                let c = g.rng.pick(&g.v.req.clone()).0;
                let id = g.v.maxid + 5;
                g.send(u, c, id, SELF, rcpt, 0, "no-token");
            }
        } else if roll < 66 {
            // the hook called directly: by an account, by a required collection contract (forged — the hook can only be reached
            // through SendNft on a real chain), by another contract; well-formed and malformed inner messages
            let u = *g.rng.pick(&users);
            let c = g.rng.pick(&g.v.req.clone()).0;
            let caller = match g.rng.below(10) {
                0..=4 => u,
                5 => ADMIN,
                6 => *g.rng.pick(&[TGT, TM_FACTORY, BASE_MINTERS[0]]),
                _ => c,
            };
            if caller == c && g.v.tokens_of(SELF, c).is_empty() && g.rng.chance(2, 3) {
                // park a token at the minter first (plain TransferNft: never credited by itself)
                if let Some(id0) = g.v.tokens_of(u, c).first().cloned() {
                    g.xfer(u, c, id0, SELF);
                }
            }
            let stuck = g.v.tokens_of(SELF, c);
            let sender = if g.rng.chance(3, 4) && caller < 1000 { caller } else { *g.rng.pick(&users) };
            let id = if caller == c && !stuck.is_empty() && g.rng.chance(3, 4) { stuck[0] } else { g.v.tokens_of(u, c).first().cloned().unwrap_or(1) };
            let rcpt = if g.rng.chance(1, 2) { None } else { Some(*g.rng.pick(&users)) };
            let b = if g.rng.chance(1, 5) { g.rng.range(1, 2) } else { 0 };
            g.recv(caller, sender, id, rcpt, b);
        } else if roll < 72 {
            // clock
            let s = g.v.start;
            let t = match g.rng.below(12) {
                0 => s.saturating_sub(1),
                1 => s,
                2 | 3 => s + 1,
                _ => g.v.now.max(s) + g.rng.range(1, 100_000),
            };
            g.set_time(t);
        } else if roll < 78 {
            let caller = if g.rng.chance(5, 6) { ADMIN } else { users[0] };
            let rcpt = *g.rng.pick(&users);
            let price = g.v.price;
            let pay = match g.rng.below(6) {
                0 => price + 1,
                1 => price.saturating_sub(1),
                _ => price,
            };
            g.mint_to(caller, rcpt, pay, price);
        } else if roll < 81 {
            let id = g.rng.range(0, n as u64 + 1);
            let rcpt = *g.rng.pick(&users);
            let out = g.step(&format!("mint_for caller={ADMIN} id={id} rcpt={rcpt} pay={}", g.v.price));
            let ok = out.starts_with("ok");
            g.note_minted(&out);
            if ok {
                *g.v.cnt.entry(rcpt).or_insert(0) += 1;
                g.v.left -= 1;
            }
            g.ses.mark(format!("mint_for:{}:{}", if id == 0 { "zero" } else if id > n as u64 { "above" } else { "in-range" }, oks(ok)));
        } else if roll < 85 {
            // move a source token around (possibly to the minter itself: stuck, never credited — unless the collection "calls" the hook)
            let u = *g.rng.pick(&users);
            let c = *g.rng.pick(&COLLS);
            if let Some(id) = g.v.tokens_of(u, c).first().cloned() {
                let to = if g.rng.chance(1, 4) { SELF } else { *g.rng.pick(&users) };
                let caller = if g.rng.chance(1, 5) { *g.rng.pick(&users) } else { u };
                let ok = g.xfer(caller, c, id, to);
                g.ses.mark(format!("xfer:{}:{}:{}", if caller == u { "owner" } else { "other" }, if to == SELF { "to-minter" } else { "to-user" }, oks(ok)));
            }
        } else if roll < 91 {
            // approvals and operators, with and without expiry; then the spender sends (credited to the spender unless a recipient is named)
            let u = *g.rng.pick(&users);
            let sp = *g.rng.pick(&users);
            let c = g.rng.pick(&g.v.req.clone()).0;
            let until = match g.rng.below(4) {
                0 => format!("{}", g.v.now + 1),
                1 => format!("{}", g.v.now + g.rng.range(2, 200_000)),
                2 => format!("{}", g.v.now.saturating_sub(g.rng.range(0, 5))),
                _ => "-".to_string(),
            };
            if let Some(id) = g.v.tokens_of(u, c).first().cloned() {
                let by_op = g.rng.chance(1, 2);
                let out = if by_op { g.step(&format!("approve_all caller={u} coll={c} operator={sp} until={until}")) } else { g.step(&format!("approve caller={u} coll={c} id={id} spender={sp} until={until}")) };
                g.ses.mark(format!("{}:{}:{}", if by_op { "approve_all" } else { "approve" }, if until == "-" { "never" } else { "timed" }, &out[..2]));
                if g.rng.chance(1, 3) {
                    let t = g.v.now + g.rng.range(0, 2);
                    g.set_time(t);
                }
                if g.rng.chance(1, 5) {
                    let out = if by_op { g.step(&format!("revoke_all caller={u} coll={c} operator={sp}")) } else { g.step(&format!("revoke caller={u} coll={c} id={id} spender={sp}")) };
                    g.ses.mark(format!("{}:{}", if by_op { "revoke_all" } else { "revoke" }, &out[..2]));
                }
                if sp != u {
                    let rcpt = if g.rng.chance(1, 2) { None } else { Some(u) };
                    // the generator's `send` bookkeeping keys on ownership only, which is what we want here
                    let (ok, _) = g.send(sp, c, id, SELF, rcpt, 0, if by_op { "by-operator" } else { "by-spender" });
                    if ok {
                        g.ses.mark(if by_op { "floor:operator-send:ok" } else { "floor:spender-send:ok" });
                    }
                }
            }
        } else if roll < 93 {
            let caller = if g.rng.chance(4, 5) { ADMIN } else { users[0] };
            let lim = if n >= 100 { g.rng.range(3, 6) } else { g.rng.range(0, 4) };
            g.set_limit(caller, lim);
        } else if roll < 95 {
            let out = g.step(&format!("purge caller={}", users[0]));
            if out.starts_with("ok") {
                g.v.cnt.clear();
            }
            g.ses.mark(format!("purge:{}:{}", if g.v.left == 0 { "sold-out" } else { "supply" }, &out[..2]));
        } else if roll < 96 {
            let caller = if g.rng.chance(3, 4) { ADMIN } else { users[0] };
            let out = g.step(&format!("burn_remaining caller={caller}"));
            if out.starts_with("ok") {
                g.v.left = 0;
            }
            g.ses.mark(format!("burn_remaining:{}:{}", if caller == ADMIN { "admin" } else { "stranger" }, &out[..2]));
        } else if roll < 99 {
            // operations outside the mechanism (and message variants this file does not know): must not move ledger / collection
            let what = g.rng.pick(&g.noise.clone()).clone();
            let caller = if g.rng.chance(1, 2) { ADMIN } else { *g.rng.pick(&users) };
            g.noise(&what, caller);
        } else {
            let t = g.v.now + 5;
            g.set_start(ADMIN, t);
        }
        if g.rng.chance(1, 10) {
            g.random_x(&users);
        }
        if g.rng.chance(1, 5) {
            g.obs();
        }
    }
    g.obs();
    ses.end_case();
}

/// scripted: one user completes the vector exactly at start−1 / start / start+1; explicit and implicit recipients
fn boundary_case(ses: &mut Session, sut: &mut S, idx: usize, req: &[(u64, u32)], dt: i64, explicit: bool) {
    let start = NOW0 + 500;
    let mut g = begin(ses, sut, &format!("boundary{idx}"), req, start, 2, 3, 0);
    let (u, v) = (20u64, 21u64);
    let rcpt = if explicit { Some(v) } else { None };
    let mut toks = vec![];
    for (c, k) in req {
        for _ in 0..*k + 1 {
            toks.push((*c, g.give(*c, u).unwrap()));
        }
    }
    g.set_time((start as i64 + dt) as u64);
    for (c, id) in &toks {
        g.send(u, *c, *id, SELF, rcpt, 0, "boundary");
    }
    g.obs();
    // one nanosecond later the same tokens (those still owned) go through
    let later = start + 1;
    g.set_time(later);
    for (c, id) in &toks {
        if g.v.owner.contains_key(&(*c, *id)) {
            g.send(u, *c, *id, SELF, rcpt, 0, "boundary");
        }
    }
    g.obs();
    ses.end_case();
}

/// scripted: sell-out and the per-address limit
fn sellout_case(ses: &mut Session, sut: &mut S, idx: usize, req: &[(u64, u32)], n: u32, limit: u32) {
    let start = NOW0 + 100;
    let mut g = begin(ses, sut, &format!("sellout{idx}"), req, start, limit, n, 0);
    let users = [20u64, 21, 22];
    let rounds = n + 1;
    let mut toks: BTreeMap<u64, Vec<(u64, u64)>> = BTreeMap::new();
    for u in users {
        for _ in 0..rounds {
            for (c, k) in req {
                for _ in 0..*k {
                    let id = g.give(*c, u).unwrap();
                    toks.entry(u).or_default().push((*c, id));
                }
            }
        }
    }
    g.set_time(start + 1);
    // round-robin: everybody deposits everything, in order — all in the same block
    let maxlen = toks.values().map(|v| v.len()).max().unwrap_or(0);
    for i in 0..maxlen {
        for u in users {
            if let Some((c, id)) = toks[&u].get(i).cloned() {
                g.send(u, c, id, SELF, None, 0, "sellout");
            }
        }
        if i % 3 == 2 {
            g.obs();
        }
    }
    g.obs();
    let out = g.step("purge caller=22");
    if out.starts_with("ok") {
        g.v.cnt.clear();
    }
    // after purge the counters are gone but the supply is too
    for u in users {
        if let Some((c, id)) = toks[&u].iter().find(|t| g.v.owner.contains_key(t)).cloned() {
            g.send(u, c, id, SELF, None, 0, "after-purge");
        }
    }
    g.obs();
    ses.end_case();
}

/// scripted: the admin airdrops a user up to the limit, after which the user cannot deposit
fn limit_case(ses: &mut Session, sut: &mut S, idx: usize, req: &[(u64, u32)], limit: u32) {
    let start = NOW0 + 100;
    let mut g = begin(ses, sut, &format!("limit{idx}"), req, start, limit, 6, 0);
    let u = 20u64;
    let mut toks = vec![];
    for _ in 0..2 {
        for (c, k) in req {
            for _ in 0..*k {
                toks.push((*c, g.give(*c, u).unwrap()));
            }
        }
    }
    g.set_time(start + 7);
    for _ in 0..limit - 1 {
        g.mint_to(ADMIN, u, 0, 0);
    }
    // one deposit while below the limit, then the admin fills the last slot
    let (c0, id0) = toks[0];
    g.send(u, c0, id0, SELF, None, 0, "limit");
    g.mint_to(ADMIN, u, 0, 0);
    for (c, id) in toks[1..].to_vec() {
        if g.v.owner.contains_key(&(c, id)) {
            g.send(u, c, id, SELF, None, 0, "limit");
        }
    }
    // … but somebody else may still be named as recipient
    if let Some((c, id)) = toks.iter().find(|t| g.v.owner.contains_key(t)).cloned() {
        g.send(u, c, id, SELF, Some(21), 0, "limit");
    }
    // raising the limit re-opens deposits
    g.set_limit(ADMIN, 3);
    if let Some((c, id)) = toks.iter().find(|t| g.v.owner.contains_key(t)).cloned() {
        g.send(u, c, id, SELF, None, 0, "limit");
    }
    g.obs();
    ses.end_case();
}

/// scripted: the limit is LOWERED below a user's mint count between two partial deposits, then raised again
fn limit_lowered_case(ses: &mut Session, sut: &mut S, idx: usize, two_colls: bool) {
    let req: Vec<(u64, u32)> = if two_colls { vec![(COLLS[0], 1), (COLLS[1], 1)] } else { vec![(COLLS[0], 2)] };
    let start = NOW0 + 100;
    let mut g = begin(ses, sut, &format!("limit-lowered{idx}"), &req, start, 3, 6, 0);
    let u = 20u64;
    let mut toks = vec![];
    for (c, k) in &req {
        for _ in 0..*k {
            toks.push((*c, g.give(*c, u).unwrap()));
        }
    }
    g.set_time(start + 3);
    g.mint_to(ADMIN, u, 0, 0);
    g.mint_to(ADMIN, u, 0, 0);
    let (ok1, _) = g.send(u, toks[0].0, toks[0].1, SELF, None, 0, "limit-lowered");
    let low = g.set_limit(ADMIN, 2);
    let (ok2, _) = g.send(u, toks[1].0, toks[1].1, SELF, None, 0, "limit-lowered");
    if ok1 && low && !ok2 {
        g.ses.mark("floor:limit-lowered-between-deposits:err");
    }
    g.obs();
    let up = g.set_limit(ADMIN, 3);
    let (ok3, m3) = g.send(u, toks[1].0, toks[1].1, SELF, None, 0, "limit-lowered");
    if up && ok3 && m3 {
        g.ses.mark("floor:limit-raised-again:mint");
    }
    g.obs();
    ses.end_case();
}

/// scripted: UpdateStartTime around deposits — `t == now` followed by a deposit at `now` and at `now+1`; after the start it is frozen
fn start_update_case(ses: &mut Session, sut: &mut S, idx: usize, t_rel: i64) {
    let req = [(COLLS[0], 2u32)];
    let start = NOW0 + 500;
    let mut g = begin(ses, sut, &format!("start-update{idx}"), &req, start, 2, 3, 0);
    let u = 20u64;
    let toks: Vec<u64> = (0..4).map(|_| g.give(COLLS[0], u).unwrap()).collect();
    g.set_time(NOW0 + 100);
    g.send(u, COLLS[0], toks[0], SELF, None, 0, "start-update"); // before the start
    g.set_start(21, NOW0 + 100); // a stranger
    let now = g.v.now;
    let okset = g.set_start(ADMIN, (now as i64 + t_rel) as u64);
    let (ok_at, _) = g.send(u, COLLS[0], toks[0], SELF, None, 0, "start-update"); // same block as the update
    if okset && t_rel == 0 && !ok_at {
        g.ses.mark("floor:start-set-to-now:deposit-at-now:err");
    }
    let s = g.v.start;
    g.set_time(s);
    g.send(u, COLLS[0], toks[0], SELF, None, 0, "start-update");
    g.set_time(s + 1);
    let (ok_after, _) = g.send(u, COLLS[0], toks[0], SELF, None, 0, "start-update");
    if okset && ok_after {
        g.ses.mark("floor:start-updated:deposit-at-start+1:ok");
    }
    // a credit exists now: the start time must be frozen (moving it would put the credit before the start)
    let later = g.v.now + 1000;
    g.set_start(ADMIN, later);
    g.set_start(ADMIN, s + 1);
    g.send(u, COLLS[0], toks[1], SELF, None, 0, "start-update");
    g.obs();
    ses.end_case();
}

/// scripted: a token parked at the minter with TransferNft (stuck), then the hook is "called by the collection" (forged)
fn stuck_token_case(ses: &mut Session, sut: &mut S, idx: usize, explicit: bool) {
    let req = [(COLLS[0], 2u32), (COLLS[1], 1u32)];
    let start = NOW0 + 100;
    let mut g = begin(ses, sut, &format!("stuck{idx}"), &req, start, 2, 3, 0);
    let (u, v) = (20u64, 21u64);
    let a: Vec<u64> = (0..3).map(|_| g.give(COLLS[0], u).unwrap()).collect();
    let b = g.give(COLLS[1], u).unwrap();
    let f = g.give(COLLS[2], u).unwrap();
    g.set_time(start + 5);
    g.xfer(u, COLLS[0], a[0], SELF);
    g.xfer(u, COLLS[2], f, SELF);
    g.obs();
    let rc = if explicit { Some(v) } else { None };
    let r = rc.unwrap_or(u);
    // everybody but the collection itself is rejected, whatever they claim
    g.recv(u, u, a[0], rc, 0);
    g.recv(ADMIN, u, a[0], rc, 0);
    g.recv(TGT, u, a[0], rc, 0);
    g.recv(BASE_MINTERS[0], u, a[0], rc, 0);
    g.recv(COLLS[1], u, a[0], rc, 0); // another required collection: it has no such token at the minter
    g.recv(COLLS[2], u, f, rc, 0); // a foreign collection whose token IS parked at the minter
    g.recv(COLLS[0], u, a[1], rc, 0); // the right collection, but a token the minter does not hold
    g.recv(COLLS[0], u, a[0], rc, 1);
    g.recv(COLLS[0], u, a[0], rc, 2);
    // the collection contract "calls" the hook for the parked token: burned and credited
    g.recv(COLLS[0], u, a[0], rc, 0);
    g.recv(COLLS[0], u, a[0], rc, 0); // a second time: the token is gone
    g.obs();
    // the rest arrives the normal way and completes the set
    g.send(u, COLLS[0], a[1], SELF, rc, 0, "stuck");
    g.send(u, COLLS[1], b, SELF, rc, 0, "stuck");
    let _ = r;
    g.obs();
    ses.end_case();
}

/// scripted: cw721 operators and approvals with expiry; who is credited when a spender / operator sends
fn operator_case(ses: &mut Session, sut: &mut S, idx: usize, by_operator: bool) {
    let req = [(COLLS[0], 2u32)];
    let start = NOW0 + 100;
    let mut g = begin(ses, sut, &format!("operator{idx}"), &req, start, 3, 4, 0);
    let (u, v, x) = (20u64, 21u64, 22u64);
    let t: Vec<u64> = (0..6).map(|_| g.give(COLLS[0], u).unwrap()).collect();
    let now = start + 10;
    g.set_time(now);
    let c = COLLS[0];
    let grant = |g: &mut Gen, id: u64, until: String| -> String {
        if by_operator {
            g.step(&format!("approve_all caller={u} coll={c} operator={v} until={until}"))
        } else {
            g.step(&format!("approve caller={u} coll={c} id={id} spender={v} until={until}"))
        }
    };
    let tag = if by_operator { "by-operator" } else { "by-spender" };
    // already expired data is refused
    grant(&mut g, t[0], format!("{now}"));
    g.send(v, c, t[0], SELF, None, 0, "not-owner");
    // valid until now+10: accepted at now+9, refused at now+10
    grant(&mut g, t[0], format!("{}", now + 10));
    g.set_time(now + 9);
    let (ok, _) = g.send(v, c, t[0], SELF, None, 0, tag); // credited to v (the sender field), not to the owner u
    if ok {
        g.ses.mark(format!("floor:{tag}:implicit-credits-sender"));
    }
    grant(&mut g, t[1], format!("{}", now + 10));
    g.set_time(now + 10);
    let (ok, _) = g.send(v, c, t[1], SELF, Some(u), 0, "not-owner");
    if !ok {
        g.ses.mark(format!("floor:{tag}:expired:err"));
    }
    // never expiring; explicit recipient = the owner
    grant(&mut g, t[1], "-".to_string());
    g.send(v, c, t[1], SELF, Some(u), 0, tag);
    // revoked
    grant(&mut g, t[2], "-".to_string());
    if by_operator {
        g.step(&format!("revoke_all caller={u} coll={c} operator={v}"));
    } else {
        g.step(&format!("revoke caller={u} coll={c} id={} spender={v}", t[2]));
    }
    g.send(v, c, t[2], SELF, None, 0, "not-owner");
    // an operator may approve a third party (check_can_approve); a mere spender may not
    g.step(&format!("approve_all caller={u} coll={c} operator={v} until=-"));
    g.step(&format!("approve caller={v} coll={c} id={} spender={x} until=-", t[2]));
    g.send(x, c, t[2], SELF, None, 0, "by-spender");
    g.step(&format!("revoke_all caller={u} coll={c} operator={v}"));
    g.step(&format!("approve caller={x} coll={c} id={} spender={v} until=-", t[3]));
    // v completes its own set with the owner's help (second credit for v → mint to v)
    g.send(u, c, t[3], SELF, Some(v), 0, "valid");
    g.obs();
    ses.end_case();
}

/// scripted: with partial ledgers in place, every operation that is NOT part of the mechanism (incl. unknown message variants)
fn surface_case(ses: &mut Session, sut: &mut S, idx: usize, after_start: bool) {
    let req = [(COLLS[0], 1u32), (COLLS[1], 1u32)];
    let start = NOW0 + 100;
    let mut g = begin(ses, sut, &format!("surface{idx}"), &req, start, 2, 3, 0);
    let (u, v) = (20u64, 21u64);
    let a = g.give(COLLS[0], u).unwrap();
    let b = g.give(COLLS[1], u).unwrap();
    let a2 = g.give(COLLS[0], v).unwrap();
    if after_start {
        g.set_time(start + 1);
        g.send(u, COLLS[0], a, SELF, None, 0, "surface");
        g.send(v, COLLS[0], a2, SELF, Some(u), 0, "surface"); // surplus for u
    }
    g.obs();
    for what in g.noise.clone() {
        for caller in [ADMIN, u] {
            g.noise(&what, caller);
        }
        g.obs();
    }
    if !after_start {
        g.set_time(start + 1);
        g.send(u, COLLS[0], a, SELF, None, 0, "surface");
    }
    g.shuffle(v, None); // between the two deposits of one set
    g.noise("migrate", ADMIN);
    g.send(u, COLLS[1], b, SELF, None, 0, "surface");
    g.obs();
    ses.end_case();
}

/// scripted: the literal reading "mints exactly when … credited" / "ledger reset after each mint" does NOT hold for the admin's
/// airdrops (`C17_mint_exactly_when_counterexample`, `C17_reset_after_each_mint_counterexample`): replayed here on the real code
fn airdrop_case(ses: &mut Session, sut: &mut S, idx: usize, mint_for: bool) {
    let req = [(COLLS[0], 2u32)];
    let start = NOW0 + 100;
    let mut g = begin(ses, sut, &format!("airdrop{idx}"), &req, start, 3, 3, 0);
    let u = 20u64;
    let t: Vec<u64> = (0..2).map(|_| g.give(COLLS[0], u).unwrap()).collect();
    g.set_time(start + 1);
    g.send(u, COLLS[0], t[0], SELF, None, 0, "airdrop");
    let ok = if mint_for {
        let out = g.step(&format!("mint_for caller={ADMIN} id=2 rcpt={u} pay=0"));
        g.note_minted(&out);
        if out.starts_with("ok") {
            *g.v.cnt.entry(u).or_insert(0) += 1;
            g.v.left -= 1;
        }
        out.starts_with("ok")
    } else {
        g.mint_to(ADMIN, u, 0, 0)
    };
    // a token was minted to u without the required deposits, and u's partial ledger is still there
    if ok && g.v.dep.get(&(u, COLLS[0])) == Some(&1) {
        g.ses.mark("floor:airdrop:mint-without-deposits:ledger-kept");
    }
    g.obs();
    g.send(u, COLLS[0], t[1], SELF, None, 0, "airdrop");
    g.obs();
    ses.end_case();
}

/// scripted: the operations only `OpX` can express, with a partial ledger in place: Shuffle (right fee / wrong fee), holder transfer
/// and burn of a minted token (owner / stranger), governance changing limit cap and airdrop price (native / foreign denom)
fn xops_case(ses: &mut Session, sut: &mut S, idx: usize, sold_out: bool) {
    let req = [(COLLS[0], 2u32)];
    let start = NOW0 + 100;
    let n = if sold_out { 1 } else { 4 };
    let mut g = begin(ses, sut, &format!("xops{idx}"), &req, start, 3, n, 0);
    let (u, v, x) = (20u64, 21u64, 22u64);
    let tu: Vec<u64> = (0..2).map(|_| g.give(COLLS[0], u).unwrap()).collect();
    let tv: Vec<u64> = (0..2).map(|_| g.give(COLLS[0], v).unwrap()).collect();
    g.shuffle(u, None); // before the start: Shuffle is not gated by the start time
    g.set_time(start + 1);
    g.send(u, COLLS[0], tu[0], SELF, None, 0, "xops"); // u: 1 of 2
    g.send(v, COLLS[0], tv[0], SELF, None, 0, "xops");
    let (_, minted) = g.send(v, COLLS[0], tv[1], SELF, None, 0, "xops"); // v mints
    let tok = g.v.tgt.iter().find(|(_, o)| **o == v).map(|(id, _)| *id).unwrap_or(1);
    g.obs();
    g.shuffle(u, None); // sold out when n = 1
    g.shuffle(x, Some(0));
    g.shuffle(x, Some(1));
    g.tgt_xfer(u, tok, u); // not the owner
    g.tgt_burn(x, tok);
    g.tgt_xfer(v, tok, u);
    g.tgt_burn(v, tok); // no longer the owner
    g.obs();
    g.tgt_burn(u, tok);
    g.tgt_burn(u, tok); // gone
    g.govern(2, 1_000_000, 1); // airdrop price in a foreign denom: refused
    g.govern(2, 1_000_000, 0);
    g.mint_to(ADMIN, x, 0, 1_000_000); // the old price no longer fits
    g.mint_to(ADMIN, x, 1_000_000, 1_000_000);
    g.set_limit(ADMIN, 3); // above the new cap (drift-only rule)
    g.obs();
    // u's partial ledger survived all of it: the second deposit completes the set
    let (ok, m) = g.send(u, COLLS[0], tu[1], SELF, None, 0, "xops");
    if minted && ((ok && m) || sold_out) {
        g.ses.mark(format!("floor:xops:ledger-survives:{}", if sold_out { "sold-out" } else { "mint" }));
    }
    g.obs();
    ses.end_case();
}

/// scripted: requirement vectors outside the stated quantifier that the code nevertheless accepts at creation
fn weird_case(ses: &mut Session, sut: &mut S, idx: usize, req: &[(u64, u32)]) {
    let start = NOW0 + 100;
    let mut g = begin(ses, sut, &format!("weird{idx}"), req, start, 3, 3, 0);
    let u = 20u64;
    let mut toks = vec![];
    for c in COLLS {
        for _ in 0..3 {
            toks.push((c, g.give(c, u).unwrap()));
        }
    }
    g.set_time(start + 1);
    for (c, id) in &toks {
        g.send(u, *c, *id, SELF, None, 0, "weird");
    }
    // a "required collection" that is really an account: its owner calls the hook directly
    for (c, _) in req.to_vec() {
        if !COLLS.contains(&c) {
            let out = g.step(&format!("recv caller={c} sender={c} id=1 rcpt=- bad=0"));
            g.ses.mark(format!("recv:required-account:{}", &out[..2]));
            if out.starts_with("err") {
                g.ses.mark("floor:direct-recv:required-account:err");
            }
            let out = g.step(&format!("recv caller={c} sender={u} id=1 rcpt={u} bad=0"));
            g.ses.mark(format!("recv:required-account:explicit:{}", &out[..2]));
        }
    }
    g.obs();
    ses.end_case();
}

/// thorough: every sequence of length ≤ `len` over a small alphabet (2 collections × 2 users, explicit recipient, admin mint)
fn exhaustive(ses: &mut Session, sut: &mut S, len: usize) {
    let req = [(COLLS[0], 1u32), (COLLS[1], 2u32)];
    // letters: 0 u1 sends c1 | 1 u1 sends c2 | 2 u2 sends c1 | 3 u2 sends c2 | 4 u1 sends c2 for u2 | 5 admin mints to u1
    let k = 6usize;
    let mut count = 0u64;
    for l in 1..=len {
        let total = k.pow(l as u32);
        for code in 0..total {
            let mut seq = vec![];
            let mut x = code;
            for _ in 0..l {
                seq.push(x % k);
                x /= k;
            }
            let start = NOW0 + 100;
            let mut g = begin(ses, sut, &format!("exh{l}-{code}"), &req, start, 2, 2, 0);
            let mut pool: BTreeMap<(u64, u64), Vec<u64>> = BTreeMap::new();
            for u in [20u64, 21] {
                for c in [COLLS[0], COLLS[1]] {
                    let cnt = seq.iter().filter(|s| matches!((**s, u, c), (0, 20, 1002) | (1, 20, 1004) | (4, 20, 1004) | (2, 21, 1002) | (3, 21, 1004))).count();
                    for _ in 0..cnt {
                        let id = g.give(c, u).unwrap();
                        pool.entry((u, c)).or_default().push(id);
                    }
                }
            }
            g.set_time(start + 1);
            for s in &seq {
                match s {
                    5 => {
                        g.mint_to(ADMIN, 20, 0, 0);
                    }
                    _ => {
                        let (u, c, rc) = match s {
                            0 => (20, COLLS[0], None),
                            1 => (20, COLLS[1], None),
                            2 => (21, COLLS[0], None),
                            3 => (21, COLLS[1], None),
                            _ => (20, COLLS[1], Some(21)),
                        };
                        let id = pool.get_mut(&(u, c)).unwrap().remove(0);
                        g.send(u, c, id, SELF, rc, 0, "exh");
                    }
                }
            }
            g.obs();
            ses.end_case();
            count += 1;
        }
    }
    ses.note(format!("exhaustive: all {count} sequences of length ≤ {len} over 6 letters (2 users × 2 required collections, explicit recipient, admin mint), n=2, limit=2"));
}

fn main() {
    let mut ses = Session::new("C17");
    let mut sut = S::new();
    if ses.maybe_replay(&mut sut) {
        ses.finish(&mut sut);
    }
    // ---- message surface, enumerated at run time
    let all_exec: Vec<String> = schema_variants(&sut.exec_root).into_iter().map(|(n, _)| n).collect();
    let unknown_exec = unknown_of(&sut.exec_root, &KNOWN_EXEC);
    let unknown_inner = unknown_of(&sut.inner_root, &KNOWN_INNER);
    ses.note(format!("ExecuteMsg variants found in the schema: {:?}; without a named op (sent as raw JSON under the frame monitors): {:?}; unknown ReceiveNftMsg variants: {:?}", all_exec, unknown_exec, unknown_inner));
    for k in KNOWN_EXEC {
        if !all_exec.iter().any(|v| v == k) {
            ses.note(format!("ExecuteMsg variant `{k}` no longer exists in the schema (its op will simply be rejected on both sides)"));
        }
    }
    for v in &unknown_exec {
        ses.mark(format!("surface:unknown-exec:{v}"));
    }
    for v in &unknown_inner {
        ses.mark(format!("surface:unknown-inner:{v}"));
    }

    // ---- coverage floor: without these the run would be vacuous
    for k in 1..=3 {
        ses.require(format!("floor:mint:k{k}"));
    }
    for kn in ["base", "updatable", "metadata-onchain", "base-migrated-to-updatable"] {
        ses.require(format!("floor:src-kind:{kn}:mint"));
        ses.require(format!("floor:src-kind:{kn}:credit"));
    }
    for c in [
        "floor:mint:implicit", "floor:mint:explicit-other", "floor:mint:start+1", "floor:mint:after", "floor:credit:start+1", "floor:credit:after",
        "floor:reject:before", "floor:reject:at-start", "floor:reject:foreign", "floor:reject:surplus", "floor:reject:at-limit", "floor:reject:sold-out",
        "floor:direct-recv:user:err", "floor:direct-recv:admin:err", "floor:direct-recv:other-contract:err", "floor:direct-recv:required-account:err",
        "floor:recv-as-collection:stuck-token:ok", "floor:admin-mint:ok", "floor:admin-mint:stranger:err",
        "floor:limit-lowered-between-deposits:err", "floor:limit-raised-again:mint",
        "floor:start-set-to-now:deposit-at-now:err", "floor:start-updated:deposit-at-start+1:ok", "floor:set_start:before:ok", "floor:set_start:started:err",
        "floor:by-operator:implicit-credits-sender", "floor:by-operator:expired:err", "floor:by-spender:implicit-credits-sender", "floor:by-spender:expired:err",
        "floor:shuffle:ok", "floor:tgt_xfer:ok", "floor:tgt_burn:ok", "floor:govern:ok", "floor:xops:ledger-survives:mint", "floor:xops:ledger-survives:sold-out",
        "floor:noise:trading:ok", "floor:noise:status:ok", "floor:noise:migrate:ok",
        "floor:airdrop:mint-without-deposits:ledger-kept",
    ] {
        ses.require(c);
    }

    let vectors = all_vectors();
    assert_eq!(vectors.len(), 39);

    // 1. scripted boundary cases: every vector size, −1 / 0 / +1 ns, implicit and explicit recipient
    let mut idx = 0;
    for v in vectors.iter().filter(|v| v.iter().all(|(_, n)| *n == 1) || v.iter().all(|(_, n)| *n == 2)) {
        for dt in [-1i64, 0, 1] {
            for explicit in [false, true] {
                boundary_case(&mut ses, &mut sut, idx, v, dt, explicit);
                idx += 1;
            }
        }
    }
    // 2. sell-out and limits
    let mut idx = 0;
    for v in [&vectors[0], &vectors[1], &vectors[4], &vectors[13]] {
        for (n, limit) in [(1u32, 1u32), (2, 1), (2, 3), (3, 2)] {
            sellout_case(&mut ses, &mut sut, idx, v, n, limit);
            idx += 1;
        }
        for limit in 1..=3u32 {
            limit_case(&mut ses, &mut sut, idx, v, limit);
            idx += 1;
        }
    }
    // 3. multi-step shapes: limit lowered between two deposits, start time updated around deposits, parked token + forged hook call,
    //    operators / expiring approvals, everything outside the mechanism with partial ledgers in place, airdrops
    limit_lowered_case(&mut ses, &mut sut, 0, false);
    limit_lowered_case(&mut ses, &mut sut, 1, true);
    for (i, t_rel) in [0i64, 1, 50, -1].iter().enumerate() {
        start_update_case(&mut ses, &mut sut, i, *t_rel);
    }
    stuck_token_case(&mut ses, &mut sut, 0, false);
    stuck_token_case(&mut ses, &mut sut, 1, true);
    operator_case(&mut ses, &mut sut, 0, true);
    operator_case(&mut ses, &mut sut, 1, false);
    surface_case(&mut ses, &mut sut, 0, false);
    surface_case(&mut ses, &mut sut, 1, true);
    airdrop_case(&mut ses, &mut sut, 0, false);
    airdrop_case(&mut ses, &mut sut, 1, true);
    xops_case(&mut ses, &mut sut, 0, false);
    xops_case(&mut ses, &mut sut, 1, true);
    // 4. vectors the factory does not refuse although the property does not speak about them
    let weird: Vec<Vec<(u64, u32)>> = vec![
        vec![],
        vec![(COLLS[0], 0)],
        vec![(COLLS[0], 0), (COLLS[1], 1)],
        vec![(COLLS[0], 1), (COLLS[0], 2)],
        vec![(COLLS[0], 2), (COLLS[0], 1)],
        vec![(23, 1)],
        vec![(COLLS[0], 1), (23, 1)],
    ];
    for (i, v) in weird.iter().enumerate() {
        weird_case(&mut ses, &mut sut, i, v);
    }
    // 5. random scenarios over all 39 requirement vectors
    let per_vector = ses.scale(20, 200);
    let n_ops = ses.scale(40, 60);
    let mut idx = 0;
    for _ in 0..per_vector {
        for v in &vectors {
            random_case(&mut ses, &mut sut, idx, v, n_ops);
            idx += 1;
        }
    }
    // 6. exhaustive small scope
    if ses.tier() == Tier::Thorough {
        exhaustive(&mut ses, &mut sut, 5);
        ses.exhaustive = true;
    } else {
        exhaustive(&mut ses, &mut sut, 3);
    }
    if !sut.cur.cfg_readable {
        ses.note("Config (start time / limit / requirement vector) is readable neither through the query nor through token_merge_minter::state::CONFIG: the monitors *-changed-outside-update / requirements-changed were vacuous");
    }
    if sut.storage_unreadable {
        ses.note("RECEIVED_TOKENS could not be read through token_merge_minter::state (layout changed?): monitor ledger-storage-differs was switched off, ledger-query-differs stays on");
    }
    ses.note("requirement vectors: all 39 of (1..3 collections × amounts 1..3) in shuffled entry order + 7 degenerate ones; 2..4 users + admin; clock at start−1/start/start+1 ns and later; n ∈ {1,2,3,4,6,10,150}; limit 1..5; operators and approvals with expiry; forged hook calls by collections and other contracts; Shuffle / UpdateStartTradingTime / sudo UpdateStatus / migrate / unknown variants between deposits");
    ses.finish(&mut sut);
}
