//! C06 — fee splits. Function-level correspondence: the real `sg1` functions vs `LP.Sg1` (Lean).
use cosmwasm_std::testing::mock_env;
use cosmwasm_std::{Addr, CosmosMsg, MessageInfo, Response};
use lp_harness::minters::{MinterKind, World as MWorld, GENESIS};
use lp_harness::world::*;
use lp_harness::*;
use serde_json::json;

const DEV: u64 = 55;
const SELLER: u64 = 66;
const BUYER: u64 = 20;

/// Integration: create a real minter of kind `k` through its factory (mint_fee_bps = `bps`, price = `price`, developer = DEV,
/// payment address = SELLER), let BUYER mint once at start+1, and report who received how much: the published schedule by
/// caller (featured ⇒ 1/8, open edition ⇒ developer half first) is a claim about the CALLERS of sg1, not only about sg1.
fn mint_fee_integration(k: usize, price: u128, bps: u64, devbad: bool) -> String {
    let kind = MinterKind::from_idx(k);
    let mut w = MWorld::new(GENESIS + 1000);
    let mut p = w.default_params(kind);
    p.mint_fee_bps = bps;
    p.min_mint_price = (0, price.min(p.min_mint_price.1));
    p.dev_fee_address = DEV;
    let Ok(f) = w.new_factory(kind.factory(), &p) else { return "setup-factory-failed".into() };
    let mut a = w.default_create(kind, &p);
    a.mint_price = (0, price);
    a.payment_address = Some(SELLER);
    w.fund(&addr(a.creator), 0, p.creation_fee.1);
    let Ok((m, _c)) = w.create_minter(&f, kind, &a) else { return "setup-create-failed".into() };
    if devbad {
        // governance stores a developer address that does not validate (the factory keeps the string as it is): a configured
        // developer that cannot be paid must not silently turn into "no developer" — the mint has to be refused
        if w.sudo(&f, &json!({"update_params":{"extension":{"dev_fee_address":"ACCT-NOT-AN-ADDRESS"}}})).is_err() {
            return "setup-sudo-failed".into();
        }
    }
    w.set_time(a.start_time + 1);
    w.fund(&addr(BUYER), 0, price);
    let watch = [DEV, ID_LIQUIDITY_DAO, ID_LAUNCHPAD_DAO, ID_FAIRBURN_POOL, SELLER];
    let before: Vec<u128> = watch.iter().map(|x| w.balance(&addr(*x), 0)).collect();
    let sup0 = w.supply(0);
    let msg = if kind.is_merkle() { json!({"mint":{"proof_hashes": null, "stage": null, "allocation": null}}) } else { json!({"mint":{}}) };
    let funds: Vec<(u64, u128)> = if price > 0 { vec![(0, price)] } else { vec![] };
    match w.exec(&addr(BUYER), &m, &msg, &funds) {
        Err(_) => "err".into(),
        Ok(_) => {
            let d: Vec<u128> = watch.iter().zip(before.iter()).map(|(x, b)| w.balance(&addr(*x), 0) - *b).collect();
            let burned = sup0 - w.supply(0);
            format!("ok fee={} dev={} liq={} lp={} burned={} pool={} ## seller={} minter={}", d[0] + d[1] + d[2] + d[3] + burned, d[0], d[1], d[2], burned, d[3], d[4], w.balance(&m, 0))
        }
    }
}

/// Integration: CreateMinter on a real factory of each of the four kinds, creation fee `fee` in denom `fd`, minimum / mint price in
/// denom `md`, creator pays exactly `pay` of denom `fd`. Reports what was burned (native supply drop), what the fair-burn pool and
/// the launchpad DAO received (DAO in the fee's denom). The branch must depend on the CREATION FEE's denom only.
fn create_fee_integration(fk: usize, fd: u64, md: u64, fee: u128, pay: u128) -> (u64, String) {
    let kind = [MinterKind::Vending, MinterKind::OpenEdition, MinterKind::TokenMerge, MinterKind::Base][fk % 4];
    let mut w = MWorld::new(GENESIS + 1000);
    let mut p = w.default_params(kind);
    p.creation_fee = (fd, fee);
    p.min_mint_price = (md, p.min_mint_price.1);
    p.airdrop_mint_price = (md, p.airdrop_mint_price.1);
    let Ok(f) = w.new_factory(kind.factory(), &p) else { return (0, "setup-factory-failed".into()) };
    let mut a = w.default_create(kind, &p);
    a.mint_price = (md, a.mint_price.1);
    if kind == MinterKind::TokenMerge {
        // a source collection for the merge requirement: a base minter's collection in the same world
        let pb = w.default_params(MinterKind::Base);
        let Ok(fb) = w.new_factory(lp_harness::minters::FactoryKind::Base, &pb) else { return (0, "setup-factory-failed".into()) };
        let ab = w.default_create(MinterKind::Base, &pb);
        w.fund(&addr(ab.creator), 0, pb.creation_fee.1);
        let Ok((_mb, cb)) = w.create_minter(&fb, MinterKind::Base, &ab) else { return (0, "setup-create-failed".into()) };
        a.mint_tokens = vec![(cb, 1)];
    }
    a.funds = if pay > 0 { vec![(fd, pay)] } else { vec![] };
    w.fund(&addr(a.creator), fd, pay);
    let sup0 = w.supply(0);
    let pool0 = w.balance(&addr(ID_FAIRBURN_POOL), 0);
    let lp0 = w.balance(&addr(ID_LAUNCHPAD_DAO), fd);
    let out = match w.create_minter(&f, kind, &a) {
        Err(_) => "err".into(),
        Ok(_) => format!(
            "ok burned={} pool={} lp={} ## factory={}",
            sup0 - w.supply(0),
            w.balance(&addr(ID_FAIRBURN_POOL), 0) - pool0,
            w.balance(&addr(ID_LAUNCHPAD_DAO), fd) - lp0,
            w.balance(&f, fd)
        ),
    };
    (addr_id(&f), out)
}

/// Integration: a real list whitelist (plain / flex / tiered / tiered-flex) is created with member limit `ml` paying exactly the fee
/// the published schedule demands (100 STARS per started thousand), then `IncreaseMemberLimit(nml)` paying exactly the fee for the
/// newly started thousands. Reports what each fee did: burned / fair-burn pool, and what the whitelist still holds afterwards.
fn wl_fee_integration(k: usize, ml: u32, nml: u32) -> (u64, String) {
    use lp_harness::minters::{WlArgs, WlKind, WlStage};
    let kind = [WlKind::Plain, WlKind::Flex, WlKind::Tiered, WlKind::TieredFlex][k % 4];
    let mut w = MWorld::new(GENESIS + 1000);
    let st = WlStage { start: GENESIS + 5_000, end: GENESIS + 9_000, mint_price: (0, 60_000_000), per_address_limit: 2, mint_count_limit: None, members: vec![(21, 1), (22, 1)], merkle_root: String::new() };
    let a = WlArgs { admin: 11, member_limit: ml, admins_mutable: true, whale_cap: None, stages: vec![st] };
    let sup0 = w.supply(0);
    let pool0 = w.balance(&addr(ID_FAIRBURN_POOL), 0);
    let Ok(wl) = w.new_whitelist(kind, &a) else { return (0, "err".into()) };
    let fee1 = MWorld::wl_fee(kind, ml);
    // `new_whitelist` mints the fee to the admin first, so the supply before the instantiate was sup0 + fee1
    let (b1, p1) = ((sup0 + fee1).saturating_sub(w.supply(0)), w.balance(&addr(ID_FAIRBURN_POOL), 0).saturating_sub(pool0));
    // the upgrade: pay exactly (started thousands of nml − started thousands of ml) × the crate's price per 1000
    let fee2 = MWorld::wl_fee(kind, nml).saturating_sub(MWorld::wl_fee(kind, ml));
    w.fund(&addr(11), 0, fee2);
    let (sup1, pool1) = (w.supply(0), w.balance(&addr(ID_FAIRBURN_POOL), 0));
    let funds: Vec<(u64, u128)> = if fee2 > 0 { vec![(0, fee2)] } else { vec![] };
    if w.exec(&addr(11), &wl, &json!({"increase_member_limit": nml}), &funds).is_err() {
        return (addr_id(&wl), "err".into());
    }
    let (b2, p2) = (sup1.saturating_sub(w.supply(0)), w.balance(&addr(ID_FAIRBURN_POOL), 0).saturating_sub(pool1));
    (addr_id(&wl), format!("ok fee1={fee1} burned1={b1} pool1={p1} fee2={fee2} burned2={b2} pool2={p2} held={}", w.balance(&wl, 0)))
}

/// Integration: Shuffle on a vending-family minter whose factory charges `fee`, paying `pay`.
fn shuffle_fee_integration(k: usize, fee: u128, pay: u128) -> (u64, String) {
    let kind = MinterKind::from_idx(k);
    let mut w = MWorld::new(GENESIS + 1000);
    let mut p = w.default_params(kind);
    p.shuffle_fee = (0, fee);
    let Ok(f) = w.new_factory(kind.factory(), &p) else { return (0, "setup-factory-failed".into()) };
    let a = w.default_create(kind, &p);
    w.fund(&addr(a.creator), 0, p.creation_fee.1);
    let Ok((m, _c)) = w.create_minter(&f, kind, &a) else { return (0, "setup-create-failed".into()) };
    w.fund(&addr(BUYER), 0, pay);
    let watch = [DEV, ID_LIQUIDITY_DAO, ID_LAUNCHPAD_DAO, ID_FAIRBURN_POOL];
    let before: Vec<u128> = watch.iter().map(|x| w.balance(&addr(*x), 0)).collect();
    let sup0 = w.supply(0);
    let funds: Vec<(u64, u128)> = if pay > 0 { vec![(0, pay)] } else { vec![] };
    let out = match w.exec(&addr(BUYER), &m, &json!({"shuffle":{}}), &funds) {
        Err(_) => "err".into(),
        Ok(_) => {
            let d: Vec<u128> = watch.iter().zip(before.iter()).map(|(x, b)| w.balance(&addr(*x), 0) - *b).collect();
            format!("ok burned={} pool={} dev={} liq={} lp={} ## minter={}", sup0 - w.supply(0), d[3], d[0], d[1], d[2], w.balance(&m, 0))
        }
    };
    (addr_id(&m), out)
}

/// Round 5 — the protobuf bytes of `MsgFundFairburnPool`. An independent few-line decoder (NOT anybuf, NOT the Lean model):
/// base-128 varints, length-delimited fields only.
const FUND_POOL_URL: &str = "/publicawesome.stargaze.alloc.v1beta1.MsgFundFairburnPool";
fn pb_varint(b: &[u8], i: &mut usize) -> Option<u64> {
    let (mut v, mut sh) = (0u64, 0u32);
    loop {
        let x = *b.get(*i)?;
        *i += 1;
        v |= ((x & 0x7f) as u64) << sh;
        if x & 0x80 == 0 {
            return Some(v);
        }
        sh += 7;
        if sh > 63 {
            return None;
        }
    }
}
fn pb_fields(b: &[u8]) -> Option<Vec<(u64, Vec<u8>)>> {
    let (mut i, mut out) = (0usize, vec![]);
    while i < b.len() {
        let k = pb_varint(b, &mut i)?;
        if k & 7 != 2 || (k >> 3 != 1 && k >> 3 != 2) {
            return None;
        }
        let l = pb_varint(b, &mut i)? as usize;
        if l > b.len() - i {
            return None;
        }
        out.push((k >> 3, b[i..i + l].to_vec()));
        i += l;
    }
    Some(out)
}
fn pb_last(fs: &[(u64, Vec<u8>)], n: u64) -> Vec<u8> {
    fs.iter().rev().find(|f| f.0 == n).map(|f| f.1.clone()).unwrap_or_default()
}
/// (sender, [(denom, amount)])
fn pb_decode(b: &[u8]) -> Option<(Vec<u8>, Vec<(Vec<u8>, Vec<u8>)>)> {
    let fs = pb_fields(b)?;
    let mut coins = vec![];
    for f in fs.iter().filter(|f| f.0 == 2) {
        let c = pb_fields(&f.1)?;
        coins.push((pb_last(&c, 1), pb_last(&c, 2)));
    }
    Some((pb_last(&fs, 1), coins))
}
fn hx(b: &[u8]) -> String {
    if b.is_empty() { "-".into() } else { hex::encode(b) }
}
fn unhx(s: &str) -> Vec<u8> {
    if s == "-" { vec![] } else { hex::decode(s).expect("hex") }
}
fn pb_render_decoded(b: &[u8]) -> String {
    match pb_decode(b) {
        None => "undecodable".into(),
        Some((s, cs)) if cs.is_empty() => format!("{}:none", hx(&s)),
        Some((s, cs)) => cs.iter().map(|c| format!("{}:{}:{}", hx(&s), hx(&c.0), hx(&c.1))).collect::<Vec<_>>().join(","),
    }
}

struct S {
    last: Option<(String, String)>, // (line, output) for the monitor
}

fn info(funds: &[(u128, u128)]) -> MessageInfo {
    MessageInfo { sender: a(77), funds: coins_of(funds) }
}

impl Sut for S {
    fn exec(&mut self, line: &str) -> (String, String) {
        let op = line.split_whitespace().next().unwrap_or("");
        let dev = |l: &str| kv_opt_u64(l, "dev").unwrap().map(a);
        if op == "mintfee" {
            let out = mint_fee_integration(kv_u64(line, "kind").unwrap() as usize, kv_u128(line, "price").unwrap(), kv_u64(line, "bps").unwrap(), kv_bool(line, "devbad").unwrap_or(false));
            self.last = Some((line.to_string(), out.clone()));
            return (format!("{line} dev={DEV}"), out);
        }
        if op == "createfee" {
            let (f, out) = create_fee_integration(kv_u64(line, "fk").unwrap() as usize, kv_u64(line, "fd").unwrap(), kv_u64(line, "md").unwrap(), kv_u128(line, "fee").unwrap(), kv_u128(line, "pay").unwrap());
            self.last = Some((line.to_string(), out.clone()));
            return (format!("{line} factory={f}"), out);
        }
        if op == "wlfee" {
            let (wl, out) = wl_fee_integration(kv_u64(line, "kind").unwrap() as usize, kv_u64(line, "ml").unwrap() as u32, kv_u64(line, "nml").unwrap() as u32);
            self.last = Some((line.to_string(), out.clone()));
            return (format!("{line} wl={wl}"), out);
        }
        if op == "shufflefee" {
            let (m, out) = shuffle_fee_integration(kv_u64(line, "kind").unwrap() as usize, kv_u128(line, "fee").unwrap(), kv_u128(line, "pay").unwrap());
            self.last = Some((line.to_string(), out.clone()));
            return (format!("{line} minter={m}"), out);
        }
        let out = catch(|| -> String {
            let mut res = Response::new();
            match op {
                "fair_burn" => {
                    sg1::fair_burn(addr(kv_u64(line, "sender").unwrap()), kv_u128(line, "fee").unwrap(), dev(line), &mut res);
                    format!("ok {}", render_msgs(&res.messages))
                }
                "checked" => {
                    let mut env = mock_env();
                    env.contract.address = a(kv_u64(line, "self").unwrap());
                    match sg1::checked_fair_burn(&info(&kv_pairs(line, "funds").unwrap()), &env, kv_u128(line, "fee").unwrap(), dev(line), &mut res) {
                        Ok(()) => format!("ok {}", render_msgs(&res.messages)),
                        Err(_) => "err".into(),
                    }
                }
                "dist" => {
                    let fee = coin_of(kv_u64(line, "denom").unwrap(), kv_u128(line, "fee").unwrap());
                    match sg1::distribute_mint_fees(fee, &mut res, kv_bool(line, "featured").unwrap(), dev(line)) {
                        Ok(()) => format!("ok {}", render_msgs(&res.messages)),
                        Err(_) => "err".into(),
                    }
                }
                "ibc" => {
                    let fee = coin_of(kv_u64(line, "denom").unwrap(), kv_u128(line, "fee").unwrap());
                    match sg1::ibc_denom_fair_burn(fee, dev(line), &mut res) {
                        Ok(()) => format!("ok {}", render_msgs(&res.messages)),
                        Err(_) => "err".into(),
                    }
                }
                "pb" => {
                    // the REAL code path that builds the Stargate message: `fair_burn(sender, fee, None)` directly (via=fb) or through
                    // `checked_fair_burn` with `env.contract.address = sender` and an exact payment (via=checked)
                    let sender = String::from_utf8(unhx(kv(line, "sender").unwrap())).expect("utf8 sender");
                    let fee = kv_u128(line, "fee").unwrap();
                    if kv(line, "via").unwrap() == "fb" {
                        sg1::fair_burn(sender, fee, None, &mut res);
                    } else {
                        let mut env = mock_env();
                        env.contract.address = Addr::unchecked(sender);
                        let funds: Vec<(u128, u128)> = if fee > 0 { vec![(0, fee)] } else { vec![] };
                        if sg1::checked_fair_burn(&info(&funds), &env, fee, None, &mut res).is_err() {
                            return "err".into();
                        }
                    }
                    match res.messages.iter().find_map(|m| if let CosmosMsg::Stargate { type_url, value } = &m.msg { Some((type_url.clone(), value.to_vec())) } else { None }) {
                        Some((url, v)) => format!("ok url={url} hex={} dec={}", hx(&v), pb_render_decoded(&v)),
                        None => "ok none".into(),
                    }
                }
                "pbenc" => {
                    // encoder level (NOT a contract path: `fair_burn` fixes the denom to ustars and the amount to a decimal number):
                    // the same `anybuf` calls, in the same order, as `sg1::encode_msg_fund_fairburn_pool`, on arbitrary strings
                    let st = |k: &str| String::from_utf8(unhx(kv(line, k).unwrap())).expect("utf8");
                    let coin = anybuf::Anybuf::new().append_string(1, st("denom")).append_string(2, st("amount"));
                    let v = anybuf::Anybuf::new().append_string(1, st("sender")).append_message(2, &coin).into_vec();
                    format!("ok hex={} dec={}", hx(&v), pb_render_decoded(&v))
                }
                "dao" => {
                    let d = denom(kv_u64(line, "denom").unwrap());
                    match sg1::transfer_funds_to_launchpad_dao(&info(&kv_pairs(line, "funds").unwrap()), kv_u128(line, "fee").unwrap(), &d, &mut res) {
                        Ok(()) => format!("ok {}", render_msgs(&res.messages)),
                        Err(_) => "err".into(),
                    }
                }
                _ => "bad-op".into(),
            }
        })
        .unwrap_or_else(|_| "err".into());
        self.last = Some((line.to_string(), out.clone()));
        (line.to_string(), out)
    }

    /// Direct transcription of the property (independent of the Lean model): used to find replays.
    fn monitor(&mut self) -> Option<(String, String)> {
        let (line, out) = self.last.clone()?;
        let op = line.split_whitespace().next()?;
        let parse = |o: &str| -> Vec<(String, Vec<u128>)> {
            let body = o.strip_prefix("ok ").unwrap_or("");
            if body == "-" || body.is_empty() {
                return vec![];
            }
            body.split(',')
                .map(|m| {
                    let mut it = m.split(':');
                    let k = it.next().unwrap().to_string();
                    (k, it.map(|x| x.parse().unwrap_or(u128::MAX)).collect())
                })
                .collect()
        };
        let fee = kv_u128(&line, "fee").unwrap_or(0);
        let dev = kv_opt_u64(&line, "dev").flatten().map(|x| x as u128);
        let bad = |p: &str, w: String| Some((format!("sg1/{op}/{p}"), format!("{w} on `{line}` => `{out}`")));
        let getn = |o: &str, k: &str| -> u128 { kv_u128(primary_part(o), k).unwrap_or(u128::MAX) };
        match op {
            "mintfee" if out.starts_with("ok") => {
                // the published schedule by caller, transcribed independently of the model
                let k = kv_u64(&line, "kind").unwrap();
                let price = kv_u128(&line, "price").unwrap();
                let b = kv_u128(&line, "bps").unwrap();
                let name = MinterKind::from_idx(k as usize).name();
                let f = price * b / 10_000;
                let featured = name.contains("featured");
                let has_dev = name.starts_with("open-edition");
                let devp = if has_dev { f - f / 2 } else { 0 };
                let rest = f - devp;
                let den: u128 = if featured { 8 } else { 5 };
                let liq = rest / den + if rest % den == 0 { 0 } else { 1 };
                let got = (getn(&out, "dev"), getn(&out, "liq"), getn(&out, "lp"), getn(&out, "burned"), getn(&out, "pool"));
                let want = (devp, liq, rest - liq, 0u128, 0u128);
                let badk = |p: &str, w: String| Some((format!("{name}/mint/{p}"), format!("{w} on `{line}` => `{out}`")));
                if kv_bool(&line, "devbad").unwrap_or(false) && has_dev && f != 0 {
                    return badk("fee-schedule", "a developer is configured (an address that does not validate) yet the mint went through and the developer's half was given to others".into());
                }
                if got.0.saturating_add(got.1).saturating_add(got.2).saturating_add(got.3).saturating_add(got.4) != f {
                    return badk("fee-parts-sum", format!("parts {:?} do not sum to the network fee {f}", got));
                }
                if got != want {
                    return badk("fee-schedule", format!("expected dev/liq/lp/burned/pool = {:?} (featured={featured}, developer={has_dev})", want));
                }
                None
            }
            "createfee" if out.starts_with("ok") => {
                let fk = kv_u64(&line, "fk").unwrap() as usize;
                let name = ["vending-factory", "open-edition-factory", "token-merge-factory", "base-factory"][fk % 4];
                let fd = kv_u64(&line, "fd").unwrap();
                let f = kv_u128(&line, "fee").unwrap();
                let pay = kv_u128(&line, "pay").unwrap();
                let got = (getn(&out, "burned"), getn(&out, "pool"), getn(&out, "lp"));
                // native fee: fair burn of exactly the fee; any other denom: the whole payment to the launchpad DAO
                let want = if fd == 0 { (f / 2, f - f / 2, 0) } else { (0, 0, pay) };
                if got != want {
                    return Some((format!("{name}/create_minter/creation-fee-routing"), format!("creation fee {f} of denom {fd} (paid {pay}): expected burned/pool/launchpad-DAO = {:?}, got {:?} on `{line}`", want, got)));
                }
                if pay < f {
                    return Some((format!("{name}/create_minter/insufficient-fee-accepted"), format!("creation accepted with payment below the fee on `{line}`")));
                }
                None
            }
            "wlfee" if out.starts_with("ok") => {
                let k = kv_u64(&line, "kind").unwrap() as usize;
                let name = ["whitelist", "whitelist-flex", "tiered-whitelist", "tiered-whitelist-flex"][k % 4];
                let (ml, nml) = (kv_u128(&line, "ml").unwrap(), kv_u128(&line, "nml").unwrap());
                let star100: u128 = 100_000_000; // "100 STARS per started thousand" (the published schedule)
                let f1 = (ml + 999) / 1000 * star100;
                let f2 = ((nml + 999) / 1000 - (ml + 999) / 1000) * star100;
                let got = (getn(&out, "fee1"), getn(&out, "burned1"), getn(&out, "pool1"), getn(&out, "fee2"), getn(&out, "burned2"), getn(&out, "pool2"), getn(&out, "held"));
                let want = (f1, f1 / 2, f1 - f1 / 2, f2, f2 / 2, f2 - f2 / 2, 0);
                if got != want {
                    return Some((format!("{name}/fee/fair-burn-schedule"), format!("member limit {ml} -> {nml}: expected fee1/burned1/pool1/fee2/burned2/pool2/held = {:?}, got {:?} on `{line}`", want, got)));
                }
                None
            }
            "shufflefee" if out.starts_with("ok") => {
                let k = kv_u64(&line, "kind").unwrap();
                let name = MinterKind::from_idx(k as usize).name();
                let f = kv_u128(&line, "fee").unwrap();
                let got = (getn(&out, "burned"), getn(&out, "pool"), getn(&out, "dev"), getn(&out, "liq"), getn(&out, "lp"));
                if got != (f / 2, f - f / 2, 0, 0, 0) {
                    return Some((format!("{name}/shuffle/fair-burn-schedule"), format!("shuffle fee {f}: expected burn {} + pool {} only, got {:?}", f / 2, f - f / 2, got)));
                }
                if kv_u128(&line, "pay").unwrap() < f {
                    return Some((format!("{name}/shuffle/insufficient-accepted"), format!("shuffle accepted payment below the fee on `{line}`")));
                }
                None
            }
            "pb" if out.starts_with("ok") => {
                // "the remainder goes to the fair-burn pool ON BEHALF OF THE CALLING CONTRACT": decode the REAL bytes with the
                // independent decoder above; sender = the address the harness passed, one coin = F - floor(F/2) ustars
                let key = |p: &str, w: String| Some((format!("sg1/fund_pool/{p}"), format!("{w} on `{line}` => `{out}`")));
                let want_sender = unhx(kv(&line, "sender").unwrap());
                if out == "ok none" {
                    // only `checked_fair_burn` with a zero payment emits nothing
                    return if kv(&line, "via") == Some("checked") && fee == 0 { None } else { key("missing", "no Stargate message for the pool".into()) };
                }
                let p = primary_part(&out);
                if kv(p, "url") != Some(FUND_POOL_URL) {
                    return key("type-url", format!("type_url is not {FUND_POOL_URL}"));
                }
                let Some((s, cs)) = pb_decode(&unhx(kv(p, "hex").unwrap_or("-"))) else { return key("undecodable", "the bytes are not a MsgFundFairburnPool".into()) };
                if s != want_sender {
                    return key("sender-not-caller", format!("sender in the bytes is {:?}, the caller is {:?}", String::from_utf8_lossy(&s), String::from_utf8_lossy(&want_sender)));
                }
                let rest = fee - fee / 2;
                if cs != vec![(b"ustars".to_vec(), rest.to_string().into_bytes())] {
                    return key("amount-not-remainder", format!("coins in the bytes are {:?}, expected exactly {rest}ustars", cs.iter().map(|c| format!("{}{}", String::from_utf8_lossy(&c.1), String::from_utf8_lossy(&c.0))).collect::<Vec<_>>()));
                }
                None
            }
            "fair_burn" if out.starts_with("ok") => {
                let ms = parse(&out);
                let sender = kv_u128(&line, "sender").unwrap();
                if ms.len() != 2 {
                    return bad("shape", "fair burn must emit burn + remainder".into());
                }
                let burn_ok = ms[0].0 == "burn" && ms[0].1 == vec![0, fee / 2];
                let rest = fee - fee / 2;
                let rem_ok = match dev {
                    Some(d) => ms[1].0 == "send" && ms[1].1 == vec![d, 0, rest],
                    None => ms[1].0 == "pool" && ms[1].1 == vec![sender, 0, rest],
                };
                if !burn_ok {
                    return bad("burn-half", format!("burn is not floor(F/2)={}", fee / 2));
                }
                if !rem_ok {
                    return bad("remainder", format!("remainder {} not sent to developer / fair-burn pool on behalf of the caller", rest));
                }
                None
            }
            "dist" if out.starts_with("ok") => {
                let ms = parse(&out);
                let d = kv_u128(&line, "denom").unwrap();
                let featured = kv_bool(&line, "featured").unwrap();
                let den: u128 = if featured { 8 } else { 5 };
                let mut want: Vec<(String, Vec<u128>)> = vec![];
                let mut rest = fee;
                if let Some(dv) = dev {
                    let df = fee - fee / 2; // ceil(F/2)
                    want.push(("send".into(), vec![dv, d, df]));
                    rest = fee - df;
                }
                let liq = rest / den + if rest % den == 0 { 0 } else { 1 };
                want.push(("send".into(), vec![ID_LIQUIDITY_DAO as u128, d, liq]));
                want.push(("send".into(), vec![ID_LAUNCHPAD_DAO as u128, d, rest - liq]));
                let sum: u128 = ms.iter().map(|m| *m.1.last().unwrap_or(&0)).fold(0u128, |x, y| x.saturating_add(y));
                if sum != fee {
                    return bad("sum", format!("parts sum to {sum}, fee is {fee}"));
                }
                if ms != want {
                    return bad("ratio", format!("expected {:?}", want));
                }
                None
            }
            "checked" => {
                let funds = kv_pairs(&line, "funds").unwrap();
                let pay: Option<u128> = match funds.as_slice() {
                    [] => Some(0),
                    [(0, x)] => Some(*x),
                    _ => None,
                };
                match pay {
                    Some(p) if p < fee && out != "err" => bad("insufficient-accepted", format!("payment {p} below fee {fee} accepted")),
                    Some(p) if p >= fee && p != 0 => {
                        let ms = parse(&out);
                        let sum: u128 = ms.iter().map(|m| *m.1.last().unwrap_or(&0)).sum();
                        if !out.starts_with("ok") || sum != fee {
                            bad("sum", format!("sufficient payment {p} must burn/forward exactly fee {fee}, got {sum}"))
                        } else {
                            None
                        }
                    }
                    None if out != "err" => bad("badfunds-accepted", "wrong denom / several coins accepted".into()),
                    _ => None,
                }
            }
            "dao" => {
                let funds = kv_pairs(&line, "funds").unwrap();
                let d = kv_u128(&line, "denom").unwrap();
                let pay: Option<u128> = match funds.as_slice() {
                    [(dd, x)] if *dd == d && *x != 0 => Some(*x),
                    _ => None,
                };
                match pay {
                    Some(p) if p >= fee => {
                        if out != format!("ok send:{}:{}:{}", ID_LAUNCHPAD_DAO, d, p) {
                            bad("full", format!("whole payment {p} must go to the launchpad DAO"))
                        } else {
                            None
                        }
                    }
                    _ if out != "err" => bad("accepted", "payment below fee / wrong funds accepted".into()),
                    _ => None,
                }
            }
            _ => None,
        }
    }
}

fn interesting_amounts(rng: &mut Rng, n_random: u64) -> Vec<u128> {
    let mut v: Vec<u128> = vec![];
    for k in 0..128u32 {
        let p = 1u128 << k;
        v.extend([p.saturating_sub(1), p, p + 1]);
    }
    let mut t: u128 = 1;
    for _ in 0..38 {
        v.extend([t.saturating_sub(1), t, t + 1]);
        t = t.saturating_mul(10);
    }
    // u128::MAX overflows the contract's own `fee * 10^18`? No: Uint128 * Decimal uses Uint256 internally; keep it in.
    v.extend([u128::MAX, u128::MAX - 1, u128::MAX / 2, u128::MAX / 2 + 1]);
    for _ in 0..n_random {
        v.push(rng.sized_u128(128));
    }
    v
}

fn main() {
    let mut ses = Session::new("C06");
    let mut sut = S { last: None };
    if ses.maybe_replay(&mut sut) {
        ses.finish(&mut sut);
    }
    let mut rng = ses.rng.fork();
    let dense = ses.scale(20_000, 2_000_000);
    let n_random = ses.scale(10_000, 500_000);

    let devs: [Option<u64>; 2] = [None, Some(55)];
    let dev_s = |d: &Option<u64>| fmt_opt(d);

    // 1. dense initial range: every F
    ses.begin_case(&mut sut, "case dense-range");
    for f in 0..dense as u128 {
        for d in &devs {
            ses.step(&mut sut, &format!("fair_burn sender=1007 fee={f} dev={}", dev_s(d)));
            for ft in [0, 1] {
                ses.step(&mut sut, &format!("dist denom={} fee={f} featured={ft} dev={}", (f % 3), dev_s(d)));
            }
        }
        if f % 97 == 0 {
            ses.step(&mut sut, &format!("ibc denom=2 fee={f} dev={}", dev_s(&devs[(f % 2) as usize])));
        }
        ses.mark("kind:fair_burn");
        ses.mark("kind:dist");
        if f % 97 == 0 {
            ses.mark("kind:ibc");
        }
        ses.mark(format!("dense:{}", f % 40)); // residues mod lcm-ish of the divisors 2,5,8
    }
    ses.end_case();

    // 2. boundaries and random u128
    ses.begin_case(&mut sut, "case boundaries-and-random");
    for f in interesting_amounts(&mut rng, n_random) {
        let d = *rng.pick(&devs);
        let ft = rng.below(2);
        let dn = rng.below(3);
        ses.step(&mut sut, &format!("fair_burn sender={} fee={f} dev={}", 1000 + rng.below(5), dev_s(&d)));
        ses.step(&mut sut, &format!("dist denom={dn} fee={f} featured={ft} dev={}", dev_s(&d)));
        ses.step(&mut sut, &format!("ibc denom={dn} fee={f} dev={}", dev_s(&d)));
        ses.mark(format!("bits:{}:{}:{}", 128 - f.leading_zeros(), d.is_some(), ft));
    }
    ses.end_case();

    // 2b. callers: real minters of all 9 priced kinds created through their factories; odd/even fees, tiny fees, all bps classes
    ses.begin_case(&mut sut, "case callers");
    let n_call = ses.scale(12, 400);
    for k in 0..9u64 {
        let name = MinterKind::from_idx(k as usize).name();
        for i in 0..n_call {
            let b = *rng.pick(&[1u64, 30, 100, 250, 500, 1000, 1000, 3333, 5000, 9999]);
            let price: u128 = match i % 6 {
                0 => 100_000_000,
                1 => 100_000_030,                       // odd network fee at 10 %
                2 => 50_000_000 + rng.below(1_000_000) as u128,
                3 => rng.range(1, 400) as u128,          // tiny: zero fee / zero parts (the bank refuses empty sends)
                4 => 10u128.pow(rng.range(3, 20) as u32) + rng.below(17) as u128,
                _ => rng.sized_u128(90).max(1),
            };
            let out = ses.step(&mut sut, &format!("mintfee kind={k} price={price} bps={b}"));
            let f = price * b as u128 / 10_000;
            ses.mark("kind:mintfee");
            ses.mark(format!("caller:{name}:{}:fee-{}", &out[..2], if f == 0 { "zero" } else if f % 2 == 1 { "odd" } else { "even" }));
        }
        ses.require(format!("caller:{name}:ok:fee-odd"));
        ses.require(format!("caller:{name}:ok:fee-even"));
        if k >= 6 {
            // open edition: the configured developer address does not validate => a mint that owes a fee is refused
            for (price, b) in [(100_000_000u128, 1000u64), (100_000_030, 1000), (7, 1)] {
                let out = ses.step(&mut sut, &format!("mintfee kind={k} price={price} bps={b} devbad=1"));
                ses.mark(format!("caller:{name}:devbad:{}:{}", if price * b as u128 / 10_000 == 0 { "nofee" } else { "fee" }, &out[..2]));
            }
            ses.require(format!("caller:{name}:devbad:fee:er"));
        }
    }
    // creation fee routing: 4 factories x fee denom {native, other} x minimum-price denom {native, other} x exact / short payment
    for fk in 0..4u64 {
        let name = ["vending-factory", "open-edition-factory", "token-merge-factory", "base-factory"][fk as usize];
        for fd in [0u64, 1] {
            for md in [0u64, 1] {
                for fee in [5_000_000_000u128, 5_000_000_001, 3] {
                    for pay in [fee, fee - 1] {
                        let out = ses.step(&mut sut, &format!("createfee fk={fk} fd={fd} md={md} fee={fee} pay={pay}"));
                        ses.mark("kind:createfee");
                        ses.mark(format!("createfee:{name}:fd{fd}:md{md}:{}:{}", if pay == fee { "exact" } else { "short" }, &out[..2]));
                    }
                }
                ses.require(format!("createfee:{name}:fd{fd}:md{md}:exact:ok"));
            }
        }
    }
    // whitelist fees: creation and upgrade across 0, 1, 2 and 4 thousand-boundaries on the four list whitelists
    for k in 0..4u64 {
        let name = ["whitelist", "whitelist-flex", "tiered-whitelist", "tiered-whitelist-flex"][k as usize];
        for (ml, nml) in [(10u32, 900u32), (1000, 1001), (1000, 3000), (999, 5000), (1500, 1800), (2001, 4000)] {
            let out = ses.step(&mut sut, &format!("wlfee kind={k} ml={ml} nml={nml}"));
            let crossed = (nml + 999) / 1000 - (ml + 999) / 1000;
            ses.mark("kind:wlfee");
            ses.mark(format!("wlfee:{name}:crossed{}:{}", crossed.min(2), &out[..2]));
        }
        for c in 0..3 {
            ses.require(format!("wlfee:{name}:crossed{c}:ok"));
        }
    }
    for k in 0..6u64 {
        let name = MinterKind::from_idx(k as usize).name();
        for fee in [500_000_000u128, 500_000_001, 1, 2, 3, 7] {
            for pay in [fee, fee + 1, fee - 1] {
                let out = ses.step(&mut sut, &format!("shufflefee kind={k} fee={fee} pay={pay}"));
                // an overpayment is accepted (`payment < fee` is the only rejection); the surplus stays with the minter (behind ` ## `)
                ses.mark("kind:shufflefee");
                ses.mark(format!("shuffle:{name}:{}:{}", &out[..2], if pay == fee { "exact" } else if pay > fee { "over" } else { "under" }));
            }
        }
        ses.require(format!("shuffle:{name}:ok:exact"));
    }
    ses.end_case();

    // 2c. round 5: the protobuf bytes of MsgFundFairburnPool (real `fair_burn` / `checked_fair_burn`, no developer)
    ses.begin_case(&mut sut, "case protobuf");
    {
        let mut fees: Vec<u128> = vec![0, 1, 2, 3, 127, 128, 253, 254, 255, 256, 16383, 16384, 32766, 32767, 32768, u128::MAX, u128::MAX - 1, u128::MAX / 2, u128::MAX / 2 + 1];
        let mut t: u128 = 1;
        for _ in 0..39 {
            // remainders 10^k - 1, 10^k, 10^k + 1 need fees around 2 * 10^k
            fees.extend([t.saturating_sub(1), t, t.saturating_add(1), t.saturating_mul(2).saturating_sub(3), t.saturating_mul(2).saturating_sub(1), t.saturating_mul(2), t.saturating_mul(2).saturating_add(1)]);
            t = t.saturating_mul(10);
        }
        for _ in 0..ses.scale(300, 20_000) {
            fees.push(rng.sized_u128(128));
        }
        // sender strings: the harness' contract addresses, bech32-like, empty, 1 byte, 127 / 128 / 129 bytes (one- and two-byte length
        // varint), 300, 16383 / 16384 bytes (two- and three-byte), multi-byte UTF-8
        let rand_sender = |rng: &mut Rng| -> String {
            let n = match rng.below(10) {
                0 => 0,
                1 => 1,
                2 => 126 + rng.below(5) as usize,
                3 => 200 + rng.below(200) as usize,
                4 => 16382 + rng.below(4) as usize,
                _ => 3 + rng.below(70) as usize,
            };
            let mut s = String::new();
            while s.len() < n {
                let c = if rng.chance(1, 12) { *rng.pick(&['é', '€', '𝄞', ' ', ':', '/']) } else { (b'a' + rng.below(26) as u8) as char };
                if s.len() + c.len_utf8() <= n {
                    s.push(c);
                }
            }
            s
        };
        let fixed: Vec<String> = vec![
            addr(1007),
            addr(20),
            "stars1huqk6ha02jgrm69lxh8xfgl6wch9wlg7s65ujxydwdr725cxvuus423tj0".into(),
            String::new(),
            "x".repeat(127),
            "x".repeat(128),
            "y".repeat(16383),
            "y".repeat(16384),
        ];
        for (i, f) in fees.iter().enumerate() {
            let sender = if i < 2 * fixed.len() { fixed[i % fixed.len()].clone() } else { rand_sender(&mut rng) };
            let via = if i % 2 == 0 || rng.chance(1, 3) { "fb" } else { "checked" };
            let out = ses.step(&mut sut, &format!("pb via={via} sender={} fee={f}", hx(sender.as_bytes())));
            let lc = match sender.len() { 0 => "empty", 1..=127 => "len1", 128..=16383 => "len2", _ => "len3" };
            ses.mark(format!("pb:{via}:sender-{lc}:{}", if out == "ok none" { "none" } else { &out[..2] }));
            ses.mark(format!("pb:digits:{}", (f - f / 2).to_string().len()));
            if *f == u128::MAX {
                ses.mark(format!("pb:{via}:fee-u128max:{}", &out[..2]));
            }
        }
        // both entries at u128::MAX and with a two-byte sender length, deterministically
        for via in ["fb", "checked"] {
            let out = ses.step(&mut sut, &format!("pb via={via} sender={} fee={}", hx("z".repeat(130).as_bytes()), u128::MAX));
            ses.mark(format!("pb:{via}:fee-u128max:{}", &out[..2]));
            ses.mark(format!("pb:{via}:sender-len2:{}", &out[..2]));
            let out = ses.step(&mut sut, &format!("pb via={via} sender=- fee=1000000007"));
            ses.mark(format!("pb:{via}:sender-empty:{}", &out[..2]));
            let out = ses.step(&mut sut, &format!("pb via={via} sender={} fee=9", hx("w".repeat(16390).as_bytes())));
            ses.mark(format!("pb:{via}:sender-len3:{}", &out[..2]));
        }
        ses.step(&mut sut, "pb via=checked sender=61626364 fee=0");
        ses.mark("pb:checked:zero-fee-none");
        // encoder level: long IBC-style denoms (> 127 bytes: two-byte length varint also for the nested message), empty strings,
        // amount strings up to u128::MAX
        let ibc = |n: usize| -> String { format!("ibc/{}", "27394FB092D2ECCD56123C74F36E4C1F926001CEADA9CA97EA622B25F41E5EB2".repeat(n)) };
        let denoms: Vec<String> = vec!["ustars".into(), String::new(), ibc(1), ibc(2), ibc(3), format!("factory/{}/{}", "stars1huqk6ha02jgrm69lxh8xfgl6wch9wlg7s65ujxydwdr725cxvuus423tj0", "u".repeat(60)), "d".repeat(127), "d".repeat(128), "d".repeat(20000)];
        let mut amounts: Vec<String> = vec![String::new(), "0".into(), "1".into(), "127".into(), "128".into(), "16383".into(), "16384".into(), u128::MAX.to_string()];
        let mut t: u128 = 10;
        for _ in 0..38 {
            amounts.extend([(t - 1).to_string(), t.to_string(), (t + 1).to_string()]);
            t = t.saturating_mul(10);
        }
        for (i, am) in amounts.iter().enumerate() {
            for (j, d) in denoms.iter().enumerate() {
                let sender = match (i + j) % 4 { 0 => String::new(), 1 => addr(1000 + j as u64), 2 => "s".repeat(128 + i), _ => rand_sender(&mut rng) };
                let out = ses.step(&mut sut, &format!("pbenc sender={} denom={} amount={}", hx(sender.as_bytes()), hx(d.as_bytes()), hx(am.as_bytes())));
                let dl = match d.len() { 0 => "empty", 1..=127 => "len1", 128..=16383 => "len2", _ => "len3" };
                ses.mark(format!("pbenc:denom-{dl}:amount-{}:sender-{}", if am.is_empty() { "empty" } else { "digits" }, if sender.is_empty() { "empty" } else { "some" }));
                if *am == u128::MAX.to_string() {
                    ses.mark(format!("pbenc:amount-u128max:denom-{dl}"));
                }
                if d.is_empty() && am.is_empty() {
                    // the all-default coin: anybuf omits the nested message altogether
                    ses.mark(format!("pbenc:empty-coin-dropped:{}", out.contains(":none")));
                }
            }
        }
        for _ in 0..ses.scale(200, 10_000) {
            let d = if rng.chance(1, 2) { ibc(1 + rng.below(3) as usize) } else { rand_sender(&mut rng) };
            let am = if rng.chance(1, 20) { String::new() } else { rng.sized_u128(128).to_string() };
            ses.step(&mut sut, &format!("pbenc sender={} denom={} amount={}", hx(rand_sender(&mut rng).as_bytes()), hx(d.as_bytes()), hx(am.as_bytes())));
        }
        ses.mark("kind:pb");
        ses.mark("kind:pbenc");
    }
    ses.end_case();
    for via in ["fb", "checked"] {
        ses.require(format!("pb:{via}:sender-len2:ok")); // two-byte length varint reached on the real path
        ses.require(format!("pb:{via}:fee-u128max:ok"));
        ses.require(format!("pb:{via}:sender-empty:ok"));
        ses.require(format!("pb:{via}:sender-len3:ok"));
    }
    ses.require("pb:digits:39"); // remainder 2^127 (fee u128::MAX): 39 decimal digits
    ses.require("pb:digits:1");
    ses.require("pb:checked:zero-fee-none");
    ses.require("pbenc:denom-len2:amount-digits:sender-some"); // IBC-style denom > 127 bytes
    ses.require("pbenc:amount-u128max:denom-len2");
    ses.require("pbenc:empty-coin-dropped:true");
    for k in ["fair_burn", "dist", "ibc", "mintfee", "createfee", "wlfee", "shufflefee", "checked", "dao", "pb", "pbenc"] {
        ses.require(format!("kind:{k}"));
    }

    // 3. payments: checked_fair_burn / transfer_funds_to_launchpad_dao
    ses.begin_case(&mut sut, "case payments");
    let n_pay = ses.scale(4_000, 200_000);
    for _ in 0..n_pay {
        let fee = if rng.chance(1, 4) { rng.below(4) as u128 } else { rng.sized_u128(100) };
        let rel = rng.below(6);
        let pay = match rel {
            0 => fee.saturating_sub(1),
            1 => fee,
            2 => fee + 1,
            3 => 0,
            4 => fee / 2,
            _ => fee.saturating_add(rng.sized_u128(64)),
        };
        let shape = rng.below(8);
        let funds: Vec<(u128, u128)> = match shape {
            0 => vec![],
            1 => vec![(1, pay)],
            2 => vec![(0, pay), (1, 5)],
            3 => vec![(1, 5), (0, pay)],
            _ => vec![(0, pay)],
        };
        let d = *rng.pick(&devs);
        ses.step(&mut sut, &format!("checked funds={} self={} fee={fee} dev={}", fmt_pairs(&funds), 1000 + rng.below(3), dev_s(&d)));
        let dn = rng.below(3) as u128;
        let funds2: Vec<(u128, u128)> = match shape {
            0 => vec![],
            1 => vec![((dn + 1) % 3, pay)],
            2 => vec![(dn, pay), ((dn + 1) % 3, 5)],
            _ => vec![(dn, pay)],
        };
        ses.step(&mut sut, &format!("dao funds={} fee={fee} denom={dn}", fmt_pairs(&funds2)));
        ses.mark("kind:checked");
        ses.mark("kind:dao");
        ses.mark(format!("pay:rel{rel}:shape{shape}:{}", d.is_some()));
    }
    ses.end_case();
    ses.note("amounts: every F below the dense bound; 2^k, 2^k±1, 10^k, 10^k±1, u128::MAX; random with uniformly random bit-length ≤ 128");
    ses.finish(&mut sut);
}
