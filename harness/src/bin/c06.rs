//! C06 — fee splits. Function-level correspondence: the real `sg1` functions vs `LP.Sg1` (Lean).
use cosmwasm_std::testing::mock_env;
use cosmwasm_std::{MessageInfo, Response};
use lp_harness::minters::{MinterKind, World as MWorld, GENESIS};
use lp_harness::world::*;
use lp_harness::*;
use serde_json::json;

const DEV: u64 = 55;
const SELLER: u64 = 66;
const BUYER: u64 = 20;

/// Integration: create a real minter of kind `k` through its factory (mint_fee_bps = `bps`, price = `price`, developer = DEV,
/// payment address = SELLER), let BUYER mint once at start+1, and report who received how much: the published schedule by
/// caller (featured ⇒ 1/8, open edition ⇒ developer half first) is a claim about the CALLERS of sg1, not only about sg1.
fn mint_fee_integration(k: usize, price: u128, bps: u64, devbad: bool) -> String {
    let kind = MinterKind::from_idx(k);
    let mut w = MWorld::new(GENESIS + 1000);
    let mut p = w.default_params(kind);
    p.mint_fee_bps = bps;
    p.min_mint_price = (0, price.min(p.min_mint_price.1));
    p.dev_fee_address = DEV;
    let Ok(f) = w.new_factory(kind.factory(), &p) else { return "setup-factory-failed".into() };
    let mut a = w.default_create(kind, &p);
    a.mint_price = (0, price);
    a.payment_address = Some(SELLER);
    w.fund(&addr(a.creator), 0, p.creation_fee.1);
    let Ok((m, _c)) = w.create_minter(&f, kind, &a) else { return "setup-create-failed".into() };
    if devbad {
        // governance stores a developer address that does not validate (the factory keeps the string as it is): a configured
        // developer that cannot be paid must not silently turn into "no developer" — the mint has to be refused
        if w.sudo(&f, &json!({"update_params":{"extension":{"dev_fee_address":"ACCT-NOT-AN-ADDRESS"}}})).is_err() {
            return "setup-sudo-failed".into();
        }
    }
    w.set_time(a.start_time + 1);
    w.fund(&addr(BUYER), 0, price);
    let watch = [DEV, ID_LIQUIDITY_DAO, ID_LAUNCHPAD_DAO, ID_FAIRBURN_POOL, SELLER];
    let before: Vec<u128> = watch.iter().map(|x| w.balance(&addr(*x), 0)).collect();
    let sup0 = w.supply(0);
    let msg = if kind.is_merkle() { json!({"mint":{"proof_hashes": null, "stage": null, "allocation": null}}) } else { json!({"mint":{}}) };
    let funds: Vec<(u64, u128)> = if price > 0 { vec![(0, price)] } else { vec![] };
    match w.exec(&addr(BUYER), &m, &msg, &funds) {
        Err(_) => "err".into(),
        Ok(_) => {
            let d: Vec<u128> = watch.iter().zip(before.iter()).map(|(x, b)| w.balance(&addr(*x), 0) - *b).collect();
            let burned = sup0 - w.supply(0);
            format!("ok fee={} dev={} liq={} lp={} burned={} pool={} ## seller={} minter={}", d[0] + d[1] + d[2] + d[3] + burned, d[0], d[1], d[2], burned, d[3], d[4], w.balance(&m, 0))
        }
    }
}

/// Integration: CreateMinter on a real factory of each of the four kinds, creation fee `fee` in denom `fd`, minimum / mint price in
/// denom `md`, creator pays exactly `pay` of denom `fd`. Reports what was burned (native supply drop), what the fair-burn pool and
/// the launchpad DAO received (DAO in the fee's denom). The branch must depend on the CREATION FEE's denom only.
fn create_fee_integration(fk: usize, fd: u64, md: u64, fee: u128, pay: u128) -> (u64, String) {
    let kind = [MinterKind::Vending, MinterKind::OpenEdition, MinterKind::TokenMerge, MinterKind::Base][fk % 4];
    let mut w = MWorld::new(GENESIS + 1000);
    let mut p = w.default_params(kind);
    p.creation_fee = (fd, fee);
    p.min_mint_price = (md, p.min_mint_price.1);
    p.airdrop_mint_price = (md, p.airdrop_mint_price.1);
    let Ok(f) = w.new_factory(kind.factory(), &p) else { return (0, "setup-factory-failed".into()) };
    let mut a = w.default_create(kind, &p);
    a.mint_price = (md, a.mint_price.1);
    if kind == MinterKind::TokenMerge {
        // a source collection for the merge requirement: a base minter's collection in the same world
        let pb = w.default_params(MinterKind::Base);
        let Ok(fb) = w.new_factory(lp_harness::minters::FactoryKind::Base, &pb) else { return (0, "setup-factory-failed".into()) };
        let ab = w.default_create(MinterKind::Base, &pb);
        w.fund(&addr(ab.creator), 0, pb.creation_fee.1);
        let Ok((_mb, cb)) = w.create_minter(&fb, MinterKind::Base, &ab) else { return (0, "setup-create-failed".into()) };
        a.mint_tokens = vec![(cb, 1)];
    }
    a.funds = if pay > 0 { vec![(fd, pay)] } else { vec![] };
    w.fund(&addr(a.creator), fd, pay);
    let sup0 = w.supply(0);
    let pool0 = w.balance(&addr(ID_FAIRBURN_POOL), 0);
    let lp0 = w.balance(&addr(ID_LAUNCHPAD_DAO), fd);
    let out = match w.create_minter(&f, kind, &a) {
        Err(_) => "err".into(),
        Ok(_) => format!(
            "ok burned={} pool={} lp={} ## factory={}",
            sup0 - w.supply(0),
            w.balance(&addr(ID_FAIRBURN_POOL), 0) - pool0,
            w.balance(&addr(ID_LAUNCHPAD_DAO), fd) - lp0,
            w.balance(&f, fd)
        ),
    };
    (addr_id(&f), out)
}

/// Integration: a real list whitelist (plain / flex / tiered / tiered-flex) is created with member limit `ml` paying exactly the fee
/// the published schedule demands (100 STARS per started thousand), then `IncreaseMemberLimit(nml)` paying exactly the fee for the
/// newly started thousands. Reports what each fee did: burned / fair-burn pool, and what the whitelist still holds afterwards.
fn wl_fee_integration(k: usize, ml: u32, nml: u32) -> (u64, String) {
    use lp_harness::minters::{WlArgs, WlKind, WlStage};
    let kind = [WlKind::Plain, WlKind::Flex, WlKind::Tiered, WlKind::TieredFlex][k % 4];
    let mut w = MWorld::new(GENESIS + 1000);
    let st = WlStage { start: GENESIS + 5_000, end: GENESIS + 9_000, mint_price: (0, 60_000_000), per_address_limit: 2, mint_count_limit: None, members: vec![(21, 1), (22, 1)], merkle_root: String::new() };
    let a = WlArgs { admin: 11, member_limit: ml, admins_mutable: true, whale_cap: None, stages: vec![st] };
    let sup0 = w.supply(0);
    let pool0 = w.balance(&addr(ID_FAIRBURN_POOL), 0);
    let Ok(wl) = w.new_whitelist(kind, &a) else { return (0, "err".into()) };
    let fee1 = MWorld::wl_fee(kind, ml);
    // `new_whitelist` mints the fee to the admin first, so the supply before the instantiate was sup0 + fee1
    let (b1, p1) = ((sup0 + fee1).saturating_sub(w.supply(0)), w.balance(&addr(ID_FAIRBURN_POOL), 0).saturating_sub(pool0));
    // the upgrade: pay exactly (started thousands of nml − started thousands of ml) × the crate's price per 1000
    let fee2 = MWorld::wl_fee(kind, nml).saturating_sub(MWorld::wl_fee(kind, ml));
    w.fund(&addr(11), 0, fee2);
    let (sup1, pool1) = (w.supply(0), w.balance(&addr(ID_FAIRBURN_POOL), 0));
    let funds: Vec<(u64, u128)> = if fee2 > 0 { vec![(0, fee2)] } else { vec![] };
    if w.exec(&addr(11), &wl, &json!({"increase_member_limit": nml}), &funds).is_err() {
        return (addr_id(&wl), "err".into());
    }
    let (b2, p2) = (sup1.saturating_sub(w.supply(0)), w.balance(&addr(ID_FAIRBURN_POOL), 0).saturating_sub(pool1));
    (addr_id(&wl), format!("ok fee1={fee1} burned1={b1} pool1={p1} fee2={fee2} burned2={b2} pool2={p2} held={}", w.balance(&wl, 0)))
}

/// Integration: Shuffle on a vending-family minter whose factory charges `fee`, paying `pay`.
fn shuffle_fee_integration(k: usize, fee: u128, pay: u128) -> (u64, String) {
    let kind = MinterKind::from_idx(k);
    let mut w = MWorld::new(GENESIS + 1000);
    let mut p = w.default_params(kind);
    p.shuffle_fee = (0, fee);
    let Ok(f) = w.new_factory(kind.factory(), &p) else { return (0, "setup-factory-failed".into()) };
    let a = w.default_create(kind, &p);
    w.fund(&addr(a.creator), 0, p.creation_fee.1);
    let Ok((m, _c)) = w.create_minter(&f, kind, &a) else { return (0, "setup-create-failed".into()) };
    w.fund(&addr(BUYER), 0, pay);
    let watch = [DEV, ID_LIQUIDITY_DAO, ID_LAUNCHPAD_DAO, ID_FAIRBURN_POOL];
    let before: Vec<u128> = watch.iter().map(|x| w.balance(&addr(*x), 0)).collect();
    let sup0 = w.supply(0);
    let funds: Vec<(u64, u128)> = if pay > 0 { vec![(0, pay)] } else { vec![] };
    let out = match w.exec(&addr(BUYER), &m, &json!({"shuffle":{}}), &funds) {
        Err(_) => "err".into(),
        Ok(_) => {
            let d: Vec<u128> = watch.iter().zip(before.iter()).map(|(x, b)| w.balance(&addr(*x), 0) - *b).collect();
            format!("ok burned={} pool={} dev={} liq={} lp={} ## minter={}", sup0 - w.supply(0), d[3], d[0], d[1], d[2], w.balance(&m, 0))
        }
    };
    (addr_id(&m), out)
}

struct S {
    last: Option<(String, String)>, // (line, output) for the monitor
}

fn info(funds: &[(u128, u128)]) -> MessageInfo {
    MessageInfo { sender: a(77), funds: coins_of(funds) }
}

impl Sut for S {
    fn exec(&mut self, line: &str) -> (String, String) {
        let op = line.split_whitespace().next().unwrap_or("");
        let dev = |l: &str| kv_opt_u64(l, "dev").unwrap().map(a);
        if op == "mintfee" {
            let out = mint_fee_integration(kv_u64(line, "kind").unwrap() as usize, kv_u128(line, "price").unwrap(), kv_u64(line, "bps").unwrap(), kv_bool(line, "devbad").unwrap_or(false));
            self.last = Some((line.to_string(), out.clone()));
            return (format!("{line} dev={DEV}"), out);
        }
        if op == "createfee" {
            let (f, out) = create_fee_integration(kv_u64(line, "fk").unwrap() as usize, kv_u64(line, "fd").unwrap(), kv_u64(line, "md").unwrap(), kv_u128(line, "fee").unwrap(), kv_u128(line, "pay").unwrap());
            self.last = Some((line.to_string(), out.clone()));
            return (format!("{line} factory={f}"), out);
        }
        if op == "wlfee" {
            let (wl, out) = wl_fee_integration(kv_u64(line, "kind").unwrap() as usize, kv_u64(line, "ml").unwrap() as u32, kv_u64(line, "nml").unwrap() as u32);
            self.last = Some((line.to_string(), out.clone()));
            return (format!("{line} wl={wl}"), out);
        }
        if op == "shufflefee" {
            let (m, out) = shuffle_fee_integration(kv_u64(line, "kind").unwrap() as usize, kv_u128(line, "fee").unwrap(), kv_u128(line, "pay").unwrap());
            self.last = Some((line.to_string(), out.clone()));
            return (format!("{line} minter={m}"), out);
        }
        let out = catch(|| -> String {
            let mut res = Response::new();
            match op {
                "fair_burn" => {
                    sg1::fair_burn(addr(kv_u64(line, "sender").unwrap()), kv_u128(line, "fee").unwrap(), dev(line), &mut res);
                    format!("ok {}", render_msgs(&res.messages))
                }
                "checked" => {
                    let mut env = mock_env();
                    env.contract.address = a(kv_u64(line, "self").unwrap());
                    match sg1::checked_fair_burn(&info(&kv_pairs(line, "funds").unwrap()), &env, kv_u128(line, "fee").unwrap(), dev(line), &mut res) {
                        Ok(()) => format!("ok {}", render_msgs(&res.messages)),
                        Err(_) => "err".into(),
                    }
                }
                "dist" => {
                    let fee = coin_of(kv_u64(line, "denom").unwrap(), kv_u128(line, "fee").unwrap());
                    match sg1::distribute_mint_fees(fee, &mut res, kv_bool(line, "featured").unwrap(), dev(line)) {
                        Ok(()) => format!("ok {}", render_msgs(&res.messages)),
                        Err(_) => "err".into(),
                    }
                }
                "ibc" => {
                    let fee = coin_of(kv_u64(line, "denom").unwrap(), kv_u128(line, "fee").unwrap());
                    match sg1::ibc_denom_fair_burn(fee, dev(line), &mut res) {
                        Ok(()) => format!("ok {}", render_msgs(&res.messages)),
                        Err(_) => "err".into(),
                    }
                }
                "dao" => {
                    let d = denom(kv_u64(line, "denom").unwrap());
                    match sg1::transfer_funds_to_launchpad_dao(&info(&kv_pairs(line, "funds").unwrap()), kv_u128(line, "fee").unwrap(), &d, &mut res) {
                        Ok(()) => format!("ok {}", render_msgs(&res.messages)),
                        Err(_) => "err".into(),
                    }
                }
                _ => "bad-op".into(),
            }
        })
        .unwrap_or_else(|_| "err".into());
        self.last = Some((line.to_string(), out.clone()));
        (line.to_string(), out)
    }

    /// Direct transcription of the property (independent of the Lean model): used to find replays.
    fn monitor(&mut self) -> Option<(String, String)> {
        let (line, out) = self.last.clone()?;
        let op = line.split_whitespace().next()?;
        let parse = |o: &str| -> Vec<(String, Vec<u128>)> {
            let body = o.strip_prefix("ok ").unwrap_or("");
            if body == "-" || body.is_empty() {
                return vec![];
            }
            body.split(',')
                .map(|m| {
                    let mut it = m.split(':');
                    let k = it.next().unwrap().to_string();
                    (k, it.map(|x| x.parse().unwrap_or(u128::MAX)).collect())
                })
                .collect()
        };
        let fee = kv_u128(&line, "fee").unwrap_or(0);
        let dev = kv_opt_u64(&line, "dev").flatten().map(|x| x as u128);
        let bad = |p: &str, w: String| Some((format!("sg1/{op}/{p}"), format!("{w} on `{line}` => `{out}`")));
        let getn = |o: &str, k: &str| -> u128 { kv_u128(primary_part(o), k).unwrap_or(u128::MAX) };
        match op {
            "mintfee" if out.starts_with("ok") => {
                // the published schedule by caller, transcribed independently of the model
                let k = kv_u64(&line, "kind").unwrap();
                let price = kv_u128(&line, "price").unwrap();
                let b = kv_u128(&line, "bps").unwrap();
                let name = MinterKind::from_idx(k as usize).name();
                let f = price * b / 10_000;
                let featured = name.contains("featured");
                let has_dev = name.starts_with("open-edition");
                let devp = if has_dev { f - f / 2 } else { 0 };
                let rest = f - devp;
                let den: u128 = if featured { 8 } else { 5 };
                let liq = rest / den + if rest % den == 0 { 0 } else { 1 };
                let got = (getn(&out, "dev"), getn(&out, "liq"), getn(&out, "lp"), getn(&out, "burned"), getn(&out, "pool"));
                let want = (devp, liq, rest - liq, 0u128, 0u128);
                let badk = |p: &str, w: String| Some((format!("{name}/mint/{p}"), format!("{w} on `{line}` => `{out}`")));
                if kv_bool(&line, "devbad").unwrap_or(false) && has_dev && f != 0 {
                    return badk("fee-schedule", "a developer is configured (an address that does not validate) yet the mint went through and the developer's half was given to others".into());
                }
                if got.0.saturating_add(got.1).saturating_add(got.2).saturating_add(got.3).saturating_add(got.4) != f {
                    return badk("fee-parts-sum", format!("parts {:?} do not sum to the network fee {f}", got));
                }
                if got != want {
                    return badk("fee-schedule", format!("expected dev/liq/lp/burned/pool = {:?} (featured={featured}, developer={has_dev})", want));
                }
                None
            }
            "createfee" if out.starts_with("ok") => {
                let fk = kv_u64(&line, "fk").unwrap() as usize;
                let name = ["vending-factory", "open-edition-factory", "token-merge-factory", "base-factory"][fk % 4];
                let fd = kv_u64(&line, "fd").unwrap();
                let f = kv_u128(&line, "fee").unwrap();
                let pay = kv_u128(&line, "pay").unwrap();
                let got = (getn(&out, "burned"), getn(&out, "pool"), getn(&out, "lp"));
                // native fee: fair burn of exactly the fee; any other denom: the whole payment to the launchpad DAO
                let want = if fd == 0 { (f / 2, f - f / 2, 0) } else { (0, 0, pay) };
                if got != want {
                    return Some((format!("{name}/create_minter/creation-fee-routing"), format!("creation fee {f} of denom {fd} (paid {pay}): expected burned/pool/launchpad-DAO = {:?}, got {:?} on `{line}`", want, got)));
                }
                if pay < f {
                    return Some((format!("{name}/create_minter/insufficient-fee-accepted"), format!("creation accepted with payment below the fee on `{line}`")));
                }
                None
            }
            "wlfee" if out.starts_with("ok") => {
                let k = kv_u64(&line, "kind").unwrap() as usize;
                let name = ["whitelist", "whitelist-flex", "tiered-whitelist", "tiered-whitelist-flex"][k % 4];
                let (ml, nml) = (kv_u128(&line, "ml").unwrap(), kv_u128(&line, "nml").unwrap());
                let star100: u128 = 100_000_000; // "100 STARS per started thousand" (the published schedule)
                let f1 = (ml + 999) / 1000 * star100;
                let f2 = ((nml + 999) / 1000 - (ml + 999) / 1000) * star100;
                let got = (getn(&out, "fee1"), getn(&out, "burned1"), getn(&out, "pool1"), getn(&out, "fee2"), getn(&out, "burned2"), getn(&out, "pool2"), getn(&out, "held"));
                let want = (f1, f1 / 2, f1 - f1 / 2, f2, f2 / 2, f2 - f2 / 2, 0);
                if got != want {
                    return Some((format!("{name}/fee/fair-burn-schedule"), format!("member limit {ml} -> {nml}: expected fee1/burned1/pool1/fee2/burned2/pool2/held = {:?}, got {:?} on `{line}`", want, got)));
                }
                None
            }
            "shufflefee" if out.starts_with("ok") => {
                let k = kv_u64(&line, "kind").unwrap();
                let name = MinterKind::from_idx(k as usize).name();
                let f = kv_u128(&line, "fee").unwrap();
                let got = (getn(&out, "burned"), getn(&out, "pool"), getn(&out, "dev"), getn(&out, "liq"), getn(&out, "lp"));
                if got != (f / 2, f - f / 2, 0, 0, 0) {
                    return Some((format!("{name}/shuffle/fair-burn-schedule"), format!("shuffle fee {f}: expected burn {} + pool {} only, got {:?}", f / 2, f - f / 2, got)));
                }
                if kv_u128(&line, "pay").unwrap() < f {
                    return Some((format!("{name}/shuffle/insufficient-accepted"), format!("shuffle accepted payment below the fee on `{line}`")));
                }
                None
            }
            "fair_burn" if out.starts_with("ok") => {
                let ms = parse(&out);
                let sender = kv_u128(&line, "sender").unwrap();
                if ms.len() != 2 {
                    return bad("shape", "fair burn must emit burn + remainder".into());
                }
                let burn_ok = ms[0].0 == "burn" && ms[0].1 == vec![0, fee / 2];
                let rest = fee - fee / 2;
                let rem_ok = match dev {
                    Some(d) => ms[1].0 == "send" && ms[1].1 == vec![d, 0, rest],
                    None => ms[1].0 == "pool" && ms[1].1 == vec![sender, 0, rest],
                };
                if !burn_ok {
                    return bad("burn-half", format!("burn is not floor(F/2)={}", fee / 2));
                }
                if !rem_ok {
                    return bad("remainder", format!("remainder {} not sent to developer / fair-burn pool on behalf of the caller", rest));
                }
                None
            }
            "dist" if out.starts_with("ok") => {
                let ms = parse(&out);
                let d = kv_u128(&line, "denom").unwrap();
                let featured = kv_bool(&line, "featured").unwrap();
                let den: u128 = if featured { 8 } else { 5 };
                let mut want: Vec<(String, Vec<u128>)> = vec![];
                let mut rest = fee;
                if let Some(dv) = dev {
                    let df = fee - fee / 2; // ceil(F/2)
                    want.push(("send".into(), vec![dv, d, df]));
                    rest = fee - df;
                }
                let liq = rest / den + if rest % den == 0 { 0 } else { 1 };
                want.push(("send".into(), vec![ID_LIQUIDITY_DAO as u128, d, liq]));
                want.push(("send".into(), vec![ID_LAUNCHPAD_DAO as u128, d, rest - liq]));
                let sum: u128 = ms.iter().map(|m| *m.1.last().unwrap_or(&0)).fold(0u128, |x, y| x.saturating_add(y));
                if sum != fee {
                    return bad("sum", format!("parts sum to {sum}, fee is {fee}"));
                }
                if ms != want {
                    return bad("ratio", format!("expected {:?}", want));
                }
                None
            }
            "checked" => {
                let funds = kv_pairs(&line, "funds").unwrap();
                let pay: Option<u128> = match funds.as_slice() {
                    [] => Some(0),
                    [(0, x)] => Some(*x),
                    _ => None,
                };
                match pay {
                    Some(p) if p < fee && out != "err" => bad("insufficient-accepted", format!("payment {p} below fee {fee} accepted")),
                    Some(p) if p >= fee && p != 0 => {
                        let ms = parse(&out);
                        let sum: u128 = ms.iter().map(|m| *m.1.last().unwrap_or(&0)).sum();
                        if !out.starts_with("ok") || sum != fee {
                            bad("sum", format!("sufficient payment {p} must burn/forward exactly fee {fee}, got {sum}"))
                        } else {
                            None
                        }
                    }
                    None if out != "err" => bad("badfunds-accepted", "wrong denom / several coins accepted".into()),
                    _ => None,
                }
            }
            "dao" => {
                let funds = kv_pairs(&line, "funds").unwrap();
                let d = kv_u128(&line, "denom").unwrap();
                let pay: Option<u128> = match funds.as_slice() {
                    [(dd, x)] if *dd == d && *x != 0 => Some(*x),
                    _ => None,
                };
                match pay {
                    Some(p) if p >= fee => {
                        if out != format!("ok send:{}:{}:{}", ID_LAUNCHPAD_DAO, d, p) {
                            bad("full", format!("whole payment {p} must go to the launchpad DAO"))
                        } else {
                            None
                        }
                    }
                    _ if out != "err" => bad("accepted", "payment below fee / wrong funds accepted".into()),
                    _ => None,
                }
            }
            _ => None,
        }
    }
}

fn interesting_amounts(rng: &mut Rng, n_random: u64) -> Vec<u128> {
    let mut v: Vec<u128> = vec![];
    for k in 0..128u32 {
        let p = 1u128 << k;
        v.extend([p.saturating_sub(1), p, p + 1]);
    }
    let mut t: u128 = 1;
    for _ in 0..38 {
        v.extend([t.saturating_sub(1), t, t + 1]);
        t = t.saturating_mul(10);
    }
    // u128::MAX overflows the contract's own `fee * 10^18`? No: Uint128 * Decimal uses Uint256 internally; keep it in.
    v.extend([u128::MAX, u128::MAX - 1, u128::MAX / 2, u128::MAX / 2 + 1]);
    for _ in 0..n_random {
        v.push(rng.sized_u128(128));
    }
    v
}

fn main() {
    let mut ses = Session::new("C06");
    let mut sut = S { last: None };
    if ses.maybe_replay(&mut sut) {
        ses.finish(&mut sut);
    }
    let mut rng = ses.rng.fork();
    let dense = ses.scale(20_000, 2_000_000);
    let n_random = ses.scale(10_000, 500_000);

    let devs: [Option<u64>; 2] = [None, Some(55)];
    let dev_s = |d: &Option<u64>| fmt_opt(d);

    // 1. dense initial range: every F
    ses.begin_case(&mut sut, "case dense-range");
    for f in 0..dense as u128 {
        for d in &devs {
            ses.step(&mut sut, &format!("fair_burn sender=1007 fee={f} dev={}", dev_s(d)));
            for ft in [0, 1] {
                ses.step(&mut sut, &format!("dist denom={} fee={f} featured={ft} dev={}", (f % 3), dev_s(d)));
            }
        }
        if f % 97 == 0 {
            ses.step(&mut sut, &format!("ibc denom=2 fee={f} dev={}", dev_s(&devs[(f % 2) as usize])));
        }
        ses.mark(format!("dense:{}", f % 40)); // residues mod lcm-ish of the divisors 2,5,8
    }
    ses.end_case();

    // 2. boundaries and random u128
    ses.begin_case(&mut sut, "case boundaries-and-random");
    for f in interesting_amounts(&mut rng, n_random) {
        let d = *rng.pick(&devs);
        let ft = rng.below(2);
        let dn = rng.below(3);
        ses.step(&mut sut, &format!("fair_burn sender={} fee={f} dev={}", 1000 + rng.below(5), dev_s(&d)));
        ses.step(&mut sut, &format!("dist denom={dn} fee={f} featured={ft} dev={}", dev_s(&d)));
        ses.step(&mut sut, &format!("ibc denom={dn} fee={f} dev={}", dev_s(&d)));
        ses.mark(format!("bits:{}:{}:{}", 128 - f.leading_zeros(), d.is_some(), ft));
    }
    ses.end_case();

    // 2b. callers: real minters of all 9 priced kinds created through their factories; odd/even fees, tiny fees, all bps classes
    ses.begin_case(&mut sut, "case callers");
    let n_call = ses.scale(12, 400);
    for k in 0..9u64 {
        let name = MinterKind::from_idx(k as usize).name();
        for i in 0..n_call {
            let b = *rng.pick(&[1u64, 30, 100, 250, 500, 1000, 1000, 3333, 5000, 9999]);
            let price: u128 = match i % 6 {
                0 => 100_000_000,
                1 => 100_000_030,                       // odd network fee at 10 %
                2 => 50_000_000 + rng.below(1_000_000) as u128,
                3 => rng.range(1, 400) as u128,          // tiny: zero fee / zero parts (the bank refuses empty sends)
                4 => 10u128.pow(rng.range(3, 20) as u32) + rng.below(17) as u128,
                _ => rng.sized_u128(90).max(1),
            };
            let out = ses.step(&mut sut, &format!("mintfee kind={k} price={price} bps={b}"));
            let f = price * b as u128 / 10_000;
            ses.mark(format!("caller:{name}:{}:fee-{}", &out[..2], if f == 0 { "zero" } else if f % 2 == 1 { "odd" } else { "even" }));
        }
        ses.require(format!("caller:{name}:ok:fee-odd"));
        ses.require(format!("caller:{name}:ok:fee-even"));
        if k >= 6 {
            // open edition: the configured developer address does not validate => a mint that owes a fee is refused
            for (price, b) in [(100_000_000u128, 1000u64), (100_000_030, 1000), (7, 1)] {
                let out = ses.step(&mut sut, &format!("mintfee kind={k} price={price} bps={b} devbad=1"));
                ses.mark(format!("caller:{name}:devbad:{}:{}", if price * b as u128 / 10_000 == 0 { "nofee" } else { "fee" }, &out[..2]));
            }
            ses.require(format!("caller:{name}:devbad:fee:er"));
        }
    }
    // creation fee routing: 4 factories x fee denom {native, other} x minimum-price denom {native, other} x exact / short payment
    for fk in 0..4u64 {
        let name = ["vending-factory", "open-edition-factory", "token-merge-factory", "base-factory"][fk as usize];
        for fd in [0u64, 1] {
            for md in [0u64, 1] {
                for fee in [5_000_000_000u128, 5_000_000_001, 3] {
                    for pay in [fee, fee - 1] {
                        let out = ses.step(&mut sut, &format!("createfee fk={fk} fd={fd} md={md} fee={fee} pay={pay}"));
                        ses.mark(format!("createfee:{name}:fd{fd}:md{md}:{}:{}", if pay == fee { "exact" } else { "short" }, &out[..2]));
                    }
                }
                ses.require(format!("createfee:{name}:fd{fd}:md{md}:exact:ok"));
            }
        }
    }
    // whitelist fees: creation and upgrade across 0, 1, 2 and 4 thousand-boundaries on the four list whitelists
    for k in 0..4u64 {
        let name = ["whitelist", "whitelist-flex", "tiered-whitelist", "tiered-whitelist-flex"][k as usize];
        for (ml, nml) in [(10u32, 900u32), (1000, 1001), (1000, 3000), (999, 5000), (1500, 1800), (2001, 4000)] {
            let out = ses.step(&mut sut, &format!("wlfee kind={k} ml={ml} nml={nml}"));
            let crossed = (nml + 999) / 1000 - (ml + 999) / 1000;
            ses.mark(format!("wlfee:{name}:crossed{}:{}", crossed.min(2), &out[..2]));
        }
        for c in 0..3 {
            ses.require(format!("wlfee:{name}:crossed{c}:ok"));
        }
    }
    for k in 0..6u64 {
        let name = MinterKind::from_idx(k as usize).name();
        for fee in [500_000_000u128, 500_000_001, 1, 2, 3, 7] {
            for pay in [fee, fee + 1, fee - 1] {
                let out = ses.step(&mut sut, &format!("shufflefee kind={k} fee={fee} pay={pay}"));
                // an overpayment is accepted (`payment < fee` is the only rejection); the surplus stays with the minter (behind ` ## `)
                ses.mark(format!("shuffle:{name}:{}:{}", &out[..2], if pay == fee { "exact" } else if pay > fee { "over" } else { "under" }));
            }
        }
        ses.require(format!("shuffle:{name}:ok:exact"));
    }
    ses.end_case();

    // 3. payments: checked_fair_burn / transfer_funds_to_launchpad_dao
    ses.begin_case(&mut sut, "case payments");
    let n_pay = ses.scale(4_000, 200_000);
    for _ in 0..n_pay {
        let fee = if rng.chance(1, 4) { rng.below(4) as u128 } else { rng.sized_u128(100) };
        let rel = rng.below(6);
        let pay = match rel {
            0 => fee.saturating_sub(1),
            1 => fee,
            2 => fee + 1,
            3 => 0,
            4 => fee / 2,
            _ => fee.saturating_add(rng.sized_u128(64)),
        };
        let shape = rng.below(8);
        let funds: Vec<(u128, u128)> = match shape {
            0 => vec![],
            1 => vec![(1, pay)],
            2 => vec![(0, pay), (1, 5)],
            3 => vec![(1, 5), (0, pay)],
            _ => vec![(0, pay)],
        };
        let d = *rng.pick(&devs);
        ses.step(&mut sut, &format!("checked funds={} self={} fee={fee} dev={}", fmt_pairs(&funds), 1000 + rng.below(3), dev_s(&d)));
        let dn = rng.below(3) as u128;
        let funds2: Vec<(u128, u128)> = match shape {
            0 => vec![],
            1 => vec![((dn + 1) % 3, pay)],
            2 => vec![(dn, pay), ((dn + 1) % 3, 5)],
            _ => vec![(dn, pay)],
        };
        ses.step(&mut sut, &format!("dao funds={} fee={fee} denom={dn}", fmt_pairs(&funds2)));
        ses.mark(format!("pay:rel{rel}:shape{shape}:{}", d.is_some()));
    }
    ses.end_case();
    ses.note("amounts: every F below the dense bound; 2^k, 2^k±1, 10^k, 10^k±1, u128::MAX; random with uniformly random bit-length ≤ 128");
    ses.finish(&mut sut);
}
