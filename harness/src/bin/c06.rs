//! C06 — fee splits. Function-level correspondence: the real `sg1` functions vs `LP.Sg1` (Lean).
use cosmwasm_std::testing::mock_env;
use cosmwasm_std::{MessageInfo, Response};
use lp_harness::world::*;
use lp_harness::*;

struct S {
    last: Option<(String, String)>, // (line, output) for the monitor
}

fn info(funds: &[(u128, u128)]) -> MessageInfo {
    MessageInfo { sender: a(77), funds: coins_of(funds) }
}

impl Sut for S {
    fn exec(&mut self, line: &str) -> (String, String) {
        let op = line.split_whitespace().next().unwrap_or("");
        let dev = |l: &str| kv_opt_u64(l, "dev").unwrap().map(a);
        let out = catch(|| -> String {
            let mut res = Response::new();
            match op {
                "fair_burn" => {
                    sg1::fair_burn(addr(kv_u64(line, "sender").unwrap()), kv_u128(line, "fee").unwrap(), dev(line), &mut res);
                    format!("ok {}", render_msgs(&res.messages))
                }
                "checked" => {
                    let mut env = mock_env();
                    env.contract.address = a(kv_u64(line, "self").unwrap());
                    match sg1::checked_fair_burn(&info(&kv_pairs(line, "funds").unwrap()), &env, kv_u128(line, "fee").unwrap(), dev(line), &mut res) {
                        Ok(()) => format!("ok {}", render_msgs(&res.messages)),
                        Err(_) => "err".into(),
                    }
                }
                "dist" => {
                    let fee = coin_of(kv_u64(line, "denom").unwrap(), kv_u128(line, "fee").unwrap());
                    match sg1::distribute_mint_fees(fee, &mut res, kv_bool(line, "featured").unwrap(), dev(line)) {
                        Ok(()) => format!("ok {}", render_msgs(&res.messages)),
                        Err(_) => "err".into(),
                    }
                }
                "ibc" => {
                    let fee = coin_of(kv_u64(line, "denom").unwrap(), kv_u128(line, "fee").unwrap());
                    match sg1::ibc_denom_fair_burn(fee, dev(line), &mut res) {
                        Ok(()) => format!("ok {}", render_msgs(&res.messages)),
                        Err(_) => "err".into(),
                    }
                }
                "dao" => {
                    let d = denom(kv_u64(line, "denom").unwrap());
                    match sg1::transfer_funds_to_launchpad_dao(&info(&kv_pairs(line, "funds").unwrap()), kv_u128(line, "fee").unwrap(), &d, &mut res) {
                        Ok(()) => format!("ok {}", render_msgs(&res.messages)),
                        Err(_) => "err".into(),
                    }
                }
                _ => "bad-op".into(),
            }
        })
        .unwrap_or_else(|_| "err".into());
        self.last = Some((line.to_string(), out.clone()));
        (line.to_string(), out)
    }

    /// Direct transcription of the property (independent of the Lean model): used to find replays.
    fn monitor(&mut self) -> Option<(String, String)> {
        let (line, out) = self.last.clone()?;
        let op = line.split_whitespace().next()?;
        let parse = |o: &str| -> Vec<(String, Vec<u128>)> {
            let body = o.strip_prefix("ok ").unwrap_or("");
            if body == "-" || body.is_empty() {
                return vec![];
            }
            body.split(',')
                .map(|m| {
                    let mut it = m.split(':');
                    let k = it.next().unwrap().to_string();
                    (k, it.map(|x| x.parse().unwrap_or(u128::MAX)).collect())
                })
                .collect()
        };
        let fee = kv_u128(&line, "fee").unwrap_or(0);
        let dev = kv_opt_u64(&line, "dev").flatten().map(|x| x as u128);
        let bad = |p: &str, w: String| Some((format!("sg1/{op}/{p}"), format!("{w} on `{line}` => `{out}`")));
        match op {
            "fair_burn" if out.starts_with("ok") => {
                let ms = parse(&out);
                let sender = kv_u128(&line, "sender").unwrap();
                if ms.len() != 2 {
                    return bad("shape", "fair burn must emit burn + remainder".into());
                }
                let burn_ok = ms[0].0 == "burn" && ms[0].1 == vec![0, fee / 2];
                let rest = fee - fee / 2;
                let rem_ok = match dev {
                    Some(d) => ms[1].0 == "send" && ms[1].1 == vec![d, 0, rest],
                    None => ms[1].0 == "pool" && ms[1].1 == vec![sender, 0, rest],
                };
                if !burn_ok {
                    return bad("burn-half", format!("burn is not floor(F/2)={}", fee / 2));
                }
                if !rem_ok {
                    return bad("remainder", format!("remainder {} not sent to developer / fair-burn pool on behalf of the caller", rest));
                }
                None
            }
            "dist" if out.starts_with("ok") => {
                let ms = parse(&out);
                let d = kv_u128(&line, "denom").unwrap();
                let featured = kv_bool(&line, "featured").unwrap();
                let den: u128 = if featured { 8 } else { 5 };
                let mut want: Vec<(String, Vec<u128>)> = vec![];
                let mut rest = fee;
                if let Some(dv) = dev {
                    let df = fee - fee / 2; // ceil(F/2)
                    want.push(("send".into(), vec![dv, d, df]));
                    rest = fee - df;
                }
                let liq = rest / den + if rest % den == 0 { 0 } else { 1 };
                want.push(("send".into(), vec![ID_LIQUIDITY_DAO as u128, d, liq]));
                want.push(("send".into(), vec![ID_LAUNCHPAD_DAO as u128, d, rest - liq]));
                let sum: u128 = ms.iter().map(|m| *m.1.last().unwrap_or(&0)).fold(0u128, |x, y| x.saturating_add(y));
                if sum != fee {
                    return bad("sum", format!("parts sum to {sum}, fee is {fee}"));
                }
                if ms != want {
                    return bad("ratio", format!("expected {:?}", want));
                }
                None
            }
            "checked" => {
                let funds = kv_pairs(&line, "funds").unwrap();
                let pay: Option<u128> = match funds.as_slice() {
                    [] => Some(0),
                    [(0, x)] => Some(*x),
                    _ => None,
                };
                match pay {
                    Some(p) if p < fee && out != "err" => bad("insufficient-accepted", format!("payment {p} below fee {fee} accepted")),
                    Some(p) if p >= fee && p != 0 => {
                        let ms = parse(&out);
                        let sum: u128 = ms.iter().map(|m| *m.1.last().unwrap_or(&0)).sum();
                        if !out.starts_with("ok") || sum != fee {
                            bad("sum", format!("sufficient payment {p} must burn/forward exactly fee {fee}, got {sum}"))
                        } else {
                            None
                        }
                    }
                    None if out != "err" => bad("badfunds-accepted", "wrong denom / several coins accepted".into()),
                    _ => None,
                }
            }
            "dao" => {
                let funds = kv_pairs(&line, "funds").unwrap();
                let d = kv_u128(&line, "denom").unwrap();
                let pay: Option<u128> = match funds.as_slice() {
                    [(dd, x)] if *dd == d && *x != 0 => Some(*x),
                    _ => None,
                };
                match pay {
                    Some(p) if p >= fee => {
                        if out != format!("ok send:{}:{}:{}", ID_LAUNCHPAD_DAO, d, p) {
                            bad("full", format!("whole payment {p} must go to the launchpad DAO"))
                        } else {
                            None
                        }
                    }
                    _ if out != "err" => bad("accepted", "payment below fee / wrong funds accepted".into()),
                    _ => None,
                }
            }
            _ => None,
        }
    }
}

fn interesting_amounts(rng: &mut Rng, n_random: u64) -> Vec<u128> {
    let mut v: Vec<u128> = vec![];
    for k in 0..128u32 {
        let p = 1u128 << k;
        v.extend([p.saturating_sub(1), p, p + 1]);
    }
    let mut t: u128 = 1;
    for _ in 0..38 {
        v.extend([t.saturating_sub(1), t, t + 1]);
        t = t.saturating_mul(10);
    }
    // u128::MAX overflows the contract's own `fee * 10^18`? No: Uint128 * Decimal uses Uint256 internally; keep it in.
    v.extend([u128::MAX, u128::MAX - 1, u128::MAX / 2, u128::MAX / 2 + 1]);
    for _ in 0..n_random {
        v.push(rng.sized_u128(128));
    }
    v
}

fn main() {
    let mut ses = Session::new("C06");
    let mut sut = S { last: None };
    if ses.maybe_replay(&mut sut) {
        ses.finish(&mut sut);
    }
    let mut rng = ses.rng.fork();
    let dense = ses.scale(20_000, 2_000_000);
    let n_random = ses.scale(10_000, 500_000);

    let devs: [Option<u64>; 2] = [None, Some(55)];
    let dev_s = |d: &Option<u64>| fmt_opt(d);

    // 1. dense initial range: every F
    ses.begin_case(&mut sut, "case dense-range");
    for f in 0..dense as u128 {
        for d in &devs {
            ses.step(&mut sut, &format!("fair_burn sender=1007 fee={f} dev={}", dev_s(d)));
            for ft in [0, 1] {
                ses.step(&mut sut, &format!("dist denom={} fee={f} featured={ft} dev={}", (f % 3), dev_s(d)));
            }
        }
        if f % 97 == 0 {
            ses.step(&mut sut, &format!("ibc denom=2 fee={f} dev={}", dev_s(&devs[(f % 2) as usize])));
        }
        ses.mark(format!("dense:{}", f % 40)); // residues mod lcm-ish of the divisors 2,5,8
    }
    ses.end_case();

    // 2. boundaries and random u128
    ses.begin_case(&mut sut, "case boundaries-and-random");
    for f in interesting_amounts(&mut rng, n_random) {
        let d = *rng.pick(&devs);
        let ft = rng.below(2);
        let dn = rng.below(3);
        ses.step(&mut sut, &format!("fair_burn sender={} fee={f} dev={}", 1000 + rng.below(5), dev_s(&d)));
        ses.step(&mut sut, &format!("dist denom={dn} fee={f} featured={ft} dev={}", dev_s(&d)));
        ses.step(&mut sut, &format!("ibc denom={dn} fee={f} dev={}", dev_s(&d)));
        ses.mark(format!("bits:{}:{}:{}", 128 - f.leading_zeros(), d.is_some(), ft));
    }
    ses.end_case();

    // 3. payments: checked_fair_burn / transfer_funds_to_launchpad_dao
    ses.begin_case(&mut sut, "case payments");
    let n_pay = ses.scale(4_000, 200_000);
    for _ in 0..n_pay {
        let fee = if rng.chance(1, 4) { rng.below(4) as u128 } else { rng.sized_u128(100) };
        let rel = rng.below(6);
        let pay = match rel {
            0 => fee.saturating_sub(1),
            1 => fee,
            2 => fee + 1,
            3 => 0,
            4 => fee / 2,
            _ => fee.saturating_add(rng.sized_u128(64)),
        };
        let shape = rng.below(8);
        let funds: Vec<(u128, u128)> = match shape {
            0 => vec![],
            1 => vec![(1, pay)],
            2 => vec![(0, pay), (1, 5)],
            3 => vec![(1, 5), (0, pay)],
            _ => vec![(0, pay)],
        };
        let d = *rng.pick(&devs);
        ses.step(&mut sut, &format!("checked funds={} self={} fee={fee} dev={}", fmt_pairs(&funds), 1000 + rng.below(3), dev_s(&d)));
        let dn = rng.below(3) as u128;
        let funds2: Vec<(u128, u128)> = match shape {
            0 => vec![],
            1 => vec![((dn + 1) % 3, pay)],
            2 => vec![(dn, pay), ((dn + 1) % 3, 5)],
            _ => vec![(dn, pay)],
        };
        ses.step(&mut sut, &format!("dao funds={} fee={fee} denom={dn}", fmt_pairs(&funds2)));
        ses.mark(format!("pay:rel{rel}:shape{shape}:{}", d.is_some()));
    }
    ses.end_case();
    ses.note("amounts: every F below the dense bound; 2^k, 2^k±1, 10^k, 10^k±1, u128::MAX; random with uniformly random bit-length ≤ 128");
    ses.finish(&mut sut);
}
